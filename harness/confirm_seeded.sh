#!/bin/bash
# usage: [MUT_BASE=/tmp/mut2 MUT_TAG=r2] harness/confirm_seeded.sh <Cxx> <mN>  — confirm a sub-agent's seeded change in its scratch worktree
# (suite still passes with the change; demo fails with it and passes without), then copy it to /verif/seeded/
set -u
prop=$1; m=$2; base=${MUT_BASE:-/tmp/mut}; tag=${MUT_TAG:-}; wt=$base/$prop; src=$wt/out/$m
cd "$wt" || exit 2
git checkout -q -- . ; git apply "$src/patch.diff" || { echo "APPLY-FAILED"; exit 2; }
res=$(PYTHONPATH=$wt /venv/bin/python -m pytest -q -p no:cacheprovider --no-cov -n 12 --timeout=900 2>&1 | tail -1)
echo "suite with change: $res"
PYTHONPATH=$wt /venv/bin/python "$src/demo.py" >/dev/null 2>&1; with=$?
git checkout -q -- .
PYTHONPATH=$wt /venv/bin/python "$src/demo.py" >/dev/null 2>&1; without=$?
echo "demo exit with change: $with, without: $without"
ok=0
if echo "$res" | grep -q "2116 passed" && [ $with -ne 0 ] && [ $without -eq 0 ]; then ok=1; fi
if [ $ok -eq 1 ]; then
  dst=/verif/seeded/$prop-$tag$m; mkdir -p "$dst"; cp "$src/patch.diff" "$src/demo.py" "$dst/"
  python3 - "$src/meta.json" "$dst/meta.json" "$res" "$with" "$without" <<'PY'
import json,sys
m=json.load(open(sys.argv[1]))
m["confirmed"]={"suite_with_change":sys.argv[3],"demo_exit_with_change":int(sys.argv[4]),"demo_exit_without":int(sys.argv[5]),
  "how":"harness/confirm_seeded.sh in a scratch worktree of /repo at the pinned commit"}
json.dump(m,open(sys.argv[2],"w"),indent=1)
PY
  echo "CONFIRMED -> $dst"
else echo "NOT-CONFIRMED"; fi
