"""Shared machinery of every check: build + proof re-check + audit, Lean driver, implementation
runners, verdict logic, evidence and replay files.  Run with /venv/bin/python (the interpreter that
has /repo and its third-party dependencies installed)."""
from __future__ import annotations

import contextlib
import fcntl
import hashlib
import io
import json
import os
import random
import re
import shutil
import subprocess
import sys
import tempfile
import time
from dataclasses import dataclass, field
from pathlib import Path
from typing import Any, Callable

VERIF = Path(__file__).resolve().parent.parent
LEAN = VERIF / "lean"
REPO = Path(os.environ.get("THAILINT_REPO", "/repo"))
DRIVER_BIN = LEAN / ".lake" / "build" / "bin" / "driver"
ALLOWED_AXIOMS = {"propext", "Classical.choice", "Quot.sound"}
FORBIDDEN = re.compile(r"\bsorry\b|\badmit\b|^\s*axiom\s|native_decide|bv_decide|implemented_by|\bunsafe\s|maxHeartbeats\s+0")

if str(REPO) not in sys.path:
    sys.path.insert(0, str(REPO))

import logging  # noqa: E402

logging.getLogger("src").setLevel(logging.CRITICAL + 10)   # the repo logs swallowed rule failures; C11 reads them through hook H1 instead


# --------------------------------------------------------------------------- build / proofs


@dataclass
class ProofStatus:
    driver_ok: bool = False
    proofs_ok: bool = False
    audit_ok: bool = False
    theorems: list[str] = field(default_factory=list)
    axioms: dict[str, list[str]] = field(default_factory=dict)
    log: str = ""
    tables: dict[str, str] = field(default_factory=dict)
    checker_cmd: str = ""
    failed: list[str] = field(default_factory=list)  # what no longer checks


def _run(cmd: list[str], cwd: Path, timeout: int = 3600) -> tuple[int, str]:
    p = subprocess.run(cmd, cwd=cwd, stdout=subprocess.PIPE, stderr=subprocess.STDOUT, text=True, timeout=timeout)
    return p.returncode, p.stdout


def strip_comments(src: str) -> str:
    # remove /- ... -/ (nested) and -- comments
    out, i, depth = [], 0, 0
    while i < len(src):
        if src.startswith("/-", i):
            depth += 1
            i += 2
        elif depth and src.startswith("-/", i):
            depth -= 1
            i += 2
        elif depth:
            i += 1
        elif src.startswith("--", i):
            j = src.find("\n", i)
            i = len(src) if j < 0 else j
        else:
            out.append(src[i])
            i += 1
    return "".join(out)


def theorem_names(prop: str) -> list[str]:
    f = LEAN / "ThaiLintModel" / prop / "Props.lean"
    if not f.exists():
        return []
    src = strip_comments(f.read_text())
    return [f"ThaiLintModel.{prop}.{m}" for m in re.findall(r"^\s*theorem\s+([^\s:(\[{]+)", src, re.M)]


def gen_modules_of(prop: str) -> set[str]:
    """names X of the regenerated modules ThaiLintModel.Gen.X that the property's Lean files import (transitively)"""
    todo = [LEAN / "ThaiLintModel" / prop / n for n in ("Props.lean", "Drv.lean")]
    seen, gens = set(), set({"C06": ["Cli"]}.get(prop, []))      # C06's harness asks C15's model which command owns a rule id
    while todo:
        f = todo.pop()
        if f in seen or not f.exists():
            continue
        seen.add(f)
        for m in re.findall(r"^import (ThaiLintModel\.[\w.]+)", f.read_text(), re.M):
            parts = m.split(".")
            if parts[1] == "Gen":
                gens.add(parts[2])
            else:
                todo.append(LEAN.joinpath(*parts).with_suffix(".lean"))
    return gens


def build_and_audit(prop: str, tier: str) -> ProofStatus:
    """T1 regenerate -> lake build driver -> lake build proofs -> audit (grep + #print axioms)."""
    st = ProofStatus()
    lock = open(LEAN / ".build.lock", "w")
    fcntl.flock(lock, fcntl.LOCK_EX)
    try:
        rc, out = _run(["/venv/bin/python", str(VERIF / "harness" / "extract_tables.py")], VERIF)
        st.log += out
        try:
            st.tables = json.loads((LEAN / "ThaiLintModel" / "Gen" / "status.json").read_text())
        except Exception:  # noqa: BLE001
            st.tables = {}
        used = gen_modules_of(prop)
        for k, v in st.tables.items():
            # only the regenerated tables this property's model and theorems import are its obligations
            if v.startswith("broken") and k.split(".")[0] in used:
                st.failed.append(f"T1 table {k}: {v}")
        rc, out = _run(["lake", "build", "driver"], LEAN)
        st.log += out
        st.driver_ok = rc == 0 and DRIVER_BIN.exists()
        target = f"ThaiLintModel.{prop}.Props"
        st.checker_cmd = f"cd lean && lake build {target}  (+ #print axioms audit"
        rc, out = _run(["lake", "build", target], LEAN)
        st.log += out
        st.proofs_ok = rc == 0
        if not st.proofs_ok:
            errs = re.findall(r"error: (\S+\.lean:\d+:\d+): (.*)", out)
            st.failed += [f"proof obligation fails at {loc}: {msg[:160]}" for loc, msg in errs[:8]] or ["lake build " + target + " failed"]
        st.theorems = theorem_names(prop)
        # ---- audit
        bad = []
        for f in sorted((LEAN / "ThaiLintModel").rglob("*.lean")):
            rel = f.relative_to(LEAN)
            if rel.parts[1] not in (prop, "Core", "Gen"):
                continue
            for ln, line in enumerate(strip_comments(f.read_text()).splitlines(), 1):
                if FORBIDDEN.search(line):
                    bad.append(f"{rel}:{ln}: {line.strip()[:80]}")
        if st.proofs_ok and st.theorems:
            with tempfile.NamedTemporaryFile("w", suffix=".lean", dir="/dev/shm", delete=False) as tf:
                tf.write(f"import {target}\n" + "".join(f"#print axioms {t}\n" for t in st.theorems))
                name = tf.name
            rc, out = _run(["lake", "env", "lean", name], LEAN)
            os.unlink(name)
            cur = None
            for m in re.finditer(r"'([^']+)' depends on axioms: \[([^\]]*)\]|'([^']+)' does not depend on any axioms", out):
                if m.group(1):
                    st.axioms[m.group(1)] = [a.strip() for a in m.group(2).replace("\n", " ").split(",") if a.strip()]
                else:
                    st.axioms[m.group(3)] = []
            for t in st.theorems:
                if t not in st.axioms:
                    bad.append(f"no axiom report for {t}")
                elif set(st.axioms[t]) - ALLOWED_AXIOMS:
                    bad.append(f"{t} depends on {sorted(set(st.axioms[t]) - ALLOWED_AXIOMS)}")
            st.checker_cmd += ")"
            if tier == "thorough":
                rc, out = _run(["lake", "env", "leanchecker", target], LEAN, timeout=3600)
                st.checker_cmd += f"; lake env leanchecker {target}"
                if rc != 0:
                    bad.append("leanchecker: " + out[-300:])
        st.audit_ok = not bad and st.proofs_ok
        if bad:
            st.failed += ["audit: " + b for b in bad]
    finally:
        fcntl.flock(lock, fcntl.LOCK_UN)
        lock.close()
    return st


# --------------------------------------------------------------------------- Lean driver


class Driver:
    """Line protocol to the compiled Lean model driver."""

    def __init__(self):
        self.p = subprocess.Popen([str(DRIVER_BIN)], stdin=subprocess.PIPE, stdout=subprocess.PIPE, text=True, bufsize=1)

    def call(self, obj: dict) -> dict:
        self.p.stdin.write(json.dumps(obj) + "\n")
        self.p.stdin.flush()
        line = self.p.stdout.readline()
        if not line:
            raise RuntimeError("lean driver died")
        return json.loads(line)

    def batch(self, objs: list[dict]) -> list[dict]:
        """Pipe all requests through a fresh driver process (avoids pipe dead-locks on big batches)."""
        data = "".join(json.dumps(o) + "\n" for o in objs)
        p = subprocess.run([str(DRIVER_BIN)], input=data, stdout=subprocess.PIPE, text=True, check=True)
        outs = [json.loads(l) for l in p.stdout.splitlines() if l.strip()]
        if len(outs) != len(objs):
            raise RuntimeError(f"lean driver answered {len(outs)} of {len(objs)} requests")
        return outs

    def close(self):
        with contextlib.suppress(Exception):
            self.p.stdin.close()
            self.p.wait(timeout=5)


# --------------------------------------------------------------------------- implementation runners


def scratch_dir(tag: str = "tlv") -> Path:
    base = "/dev/shm" if os.path.isdir("/dev/shm") else None
    return Path(tempfile.mkdtemp(prefix=f"{tag}.", dir=base))


def run_cli(args: list[str], cwd: Path | None = None, env: dict | None = None) -> tuple[int, str]:
    """Run the real CLI in-process through click's CliRunner (fast); returns (exit code, stdout)."""
    from click.testing import CliRunner

    from src.cli_main import cli

    old = os.getcwd()
    if cwd is not None:
        os.chdir(cwd)
    try:
        _reset_singletons()
        res = CliRunner().invoke(cli, args, env=env, catch_exceptions=True)
        code = res.exit_code
        out = res.stdout if hasattr(res, "stdout") else res.output
        if res.exception is not None and not isinstance(res.exception, SystemExit):
            out += f"\n<<exception {type(res.exception).__name__}: {res.exception}>>"
            code = 70
        return code, out
    finally:
        os.chdir(old)


def run_cli_subprocess(args: list[str], cwd: Path | None = None, env: dict | None = None, timeout: int = 120) -> tuple[int, str, str]:
    e = dict(os.environ)
    e["PYTHONPATH"] = str(REPO)
    if env:
        e.update(env)
    p = subprocess.run(["/venv/bin/python", "-m", "src.cli_main", *args], cwd=cwd, env=e, stdout=subprocess.PIPE,
                       stderr=subprocess.PIPE, timeout=timeout)
    return p.returncode, p.stdout.decode("utf-8", "replace"), p.stderr.decode("utf-8", "replace")


def _reset_singletons() -> None:
    """A real CLI run is a fresh process: drop /repo's module-level caches between in-process runs."""
    with contextlib.suppress(Exception):
        import src.linter_config.ignore as ig

        if hasattr(ig, "clear_ignore_parser_cache"):
            ig.clear_ignore_parser_cache()
        else:
            for name in ("_CACHED_PARSER", "_CACHED_PROJECT_ROOT"):
                if hasattr(ig, name):
                    setattr(ig, name, None)


def discovery_order(dir_path: Path, recursive: bool = True) -> list[Path]:
    """files of a directory target in the order the orchestrator meets them (falls back to a plain
    os.walk when the repo's helper was renamed, so that a refactoring never crashes the harness)"""
    import src.orchestrator.core as oc
    for name in ("collect_files", "_collect_files_fast"):
        fn = getattr(oc, name, None)
        if fn is not None:
            return list(fn(dir_path, recursive))
    out = []
    for root, _dirs, files in os.walk(dir_path):
        out += [Path(root) / f for f in files]
        if not recursive:
            break
    return out


def violations_json(out: str) -> list[dict] | None:
    try:
        d = json.loads(out)
    except Exception:  # noqa: BLE001
        return None
    if isinstance(d, dict) and "violations" in d:
        return d["violations"]
    return None


# --------------------------------------------------------------------------- results, verdict, evidence


@dataclass
class Disagreement:
    case: Any           # the abstract input (JSON-able), replayable
    impl: Any
    model: Any
    spec: Any
    property_fails: bool  # True when impl contradicts the *specification* on this input beyond known findings
    note: str = ""


@dataclass
class Result:
    evaluations: int = 0
    nontrivial: set = field(default_factory=set)        # canonical keys of distinct non-trivial cases
    rule: str = ""
    samples: list = field(default_factory=list)
    histogram: dict = field(default_factory=dict)
    findings: dict = field(default_factory=dict)          # finding id -> witness case (model != spec, impl == model)
    disagreements: list = field(default_factory=list)     # impl != model
    notes: list = field(default_factory=list)
    assumptions: list = field(default_factory=list)
    exhaustive: bool = False
    extra: dict = field(default_factory=dict)

    def bump(self, key: str, k: Any = None, n: int = 1) -> None:
        if k is None:
            self.histogram[key] = self.histogram.get(key, 0) + n
        else:
            d = self.histogram.setdefault(key, {})
            d[str(k)] = d.get(str(k), 0) + n


def canon(obj: Any) -> str:
    return hashlib.sha1(json.dumps(obj, sort_keys=True).encode()).hexdigest()


def load_known() -> dict[str, dict]:
    known = {}
    f = VERIF / "known_findings.jsonl"
    if f.exists():
        for line in f.read_text().splitlines():
            line = line.strip()
            if line and not line.startswith("#"):
                d = json.loads(line)
                known[d["id"]] = d
    return known


def write_replay(prop: str, name: str, payload: dict) -> str:
    d = VERIF / "replays"
    d.mkdir(exist_ok=True)
    p = d / (f"{prop}_{name}".replace("/", "-").replace(":", "-") + ".json")
    p.write_text(json.dumps(payload, indent=1, sort_keys=True, default=str) + "\n")
    return str(p.relative_to(VERIF))


def finish(prop: str, tier: str, seed: int, t0: float, st: ProofStatus, res: Result, level_note: str = "") -> int:
    """Verdict (DESIGN.md §1.2 step 6) + evidence file.  Returns the process exit status."""
    known = load_known()
    lines: list[str] = []
    violations = 0
    # 1. known findings / unlisted findings (impl == model, model != spec)
    for fid, witness in sorted(res.findings.items()):
        k = known.get(fid)
        if k and k.get("status") == "known" and k.get("property") == prop:
            lines.append(f"KNOWN-FINDING: property={prop} {fid} {k.get('what', '')}")
        else:
            rp = write_replay(prop, f"finding_{fid}", {"property": prop, "kind": "unlisted-finding", "finding": fid,
                                                       "status_in_known_findings": (k or {}).get("status"), "witness": witness})
            lines.append(f"VIOLATION property={prop} replay={rp}")
            violations += 1
    # 2. correspondence
    real = [d for d in res.disagreements if d.property_fails]
    other = [d for d in res.disagreements if not d.property_fails]
    if real:
        d = real[0]
        rp = write_replay(prop, "violation", {"property": prop, "kind": "property-fails-on-implementation", "case": d.case,
                                               "impl": d.impl, "model": d.model, "spec": d.spec, "note": d.note,
                                               "more": len(real) - 1})
        lines.append(f"VIOLATION property={prop} replay={rp}")
        violations += len(real)
    elif (other or not (st.proofs_ok and st.audit_ok)) and not violations:
        what = list(st.failed)
        if other:
            what.append(f"correspondence: implementation != model on {len(other)} case(s), but the implementation "
                        "agrees with the specification on every case explored")
        d = other[0] if other else None
        rp = write_replay(prop, "unproved", {"property": prop, "kind": "no-longer-shown", "no_longer_checks": what,
                                              "case": d.case if d else None, "impl": d.impl if d else None,
                                              "model": d.model if d else None, "spec": d.spec if d else None,
                                              "note": d.note if d else ""})
        lines.append(f"VIOLATION property={prop} replay={rp} no-failing-input-found")
        violations += 1
    for l in lines:
        print(l)
    n_obl = len(st.theorems)
    ev = {
        "property_id": prop,
        "tier": tier,
        "seed": seed,
        "level": "proof",
        "coverage": {
            "obligations": max(n_obl, 1),
            "discharged": n_obl if (st.proofs_ok and st.audit_ok) else 0,
            "checker_cmd": st.checker_cmd or "lake build",
            "trusted_base": [
                "Lean 4.33.0 kernel" + (" + leanchecker re-check" if tier == "thorough" else ""),
                "axioms used by the property theorems: " + ", ".join(sorted({a for v in st.axioms.values() for a in v}) or ["none"]),
                "harness/extract_tables.py (T1 translator), harness correspondence check (T2), Lean JSON driver",
                f"model files lean/ThaiLintModel/{prop}/Model.lean (hand-written model of the code; agreement with /repo only sampled by T2)",
            ],
            "theorems": st.theorems,
            "axioms": st.axioms,
            "t1_tables": st.tables,
            "evaluations": res.evaluations,
            "distinct_nontrivial": len(res.nontrivial),
            "rule": res.rule,
            "samples": res.samples[:6],
            "input_distribution": res.histogram,
            "traces_validated_against_impl": res.evaluations,
            "disagreements_checked": len(res.disagreements),
            "known_findings_observed": sorted(res.findings),
            "exhaustive": res.exhaustive,
            "notes": res.notes,
            **res.extra,
        },
        "assumptions": res.assumptions + ([level_note] if level_note else []),
        "wall_s": round(time.time() - t0, 2),
        "violations": violations,
    }
    (VERIF / "evidence").mkdir(exist_ok=True)
    (VERIF / "evidence" / f"{prop}.json").write_text(json.dumps(ev, indent=1, default=str) + "\n")
    print(f"[{prop}] tier={tier} seed={seed} theorems={n_obl} proofs_ok={st.proofs_ok} audit_ok={st.audit_ok} "
          f"cases={res.evaluations} nontrivial={len(res.nontrivial)} disagreements={len(res.disagreements)} "
          f"violations={violations} wall={ev['wall_s']}s")
    return 1 if violations else 0


def pmap(fn: Callable, items: list, procs: int = 16, chunksize: int = 1) -> list:
    """ordered parallel map on non-daemonic worker processes (workers may start process pools themselves)"""
    import concurrent.futures as cf
    if not items:
        return []
    with cf.ProcessPoolExecutor(max_workers=min(procs, len(items))) as ex:
        return list(ex.map(fn, items, chunksize=chunksize))


def sub_rng(seed: int, *tags: Any) -> random.Random:
    return random.Random(hashlib.sha256(repr((seed, tags)).encode()).digest())
