#!/usr/bin/env python3
"""Regenerate the tables of DESIGN.md section 10.4 (findings) and 10.5 (seeded changes) from known_findings.jsonl and seeded/*/meta.json.
usage: python3 harness/design_tables.py   (rewrites the text between the BEGIN/END markers in DESIGN.md)"""
import glob
import json
import re
from pathlib import Path

V = Path(__file__).resolve().parent.parent
WHY = {"F01a": "pinned by tests/unit/linters/nesting/test_elif_depth.py: the suite demands the current numbers", "F01b": "same counting convention, pinned the same way",
       "F07a": "needs the workers' cross-file evidence to be shipped back to the parent: an architectural change of the parallel path",
       "F08b": "lint_file is a public API whose contract (no finalize) other callers rely on", "F02e": "needs a decision on JavaScript legacy octal semantics",
       "F05g:lazy-ignores": "the rule never reads any configuration: wiring it is a feature", "F11a": "needs a dedicated configuration-error type instead of re-raising every ValueError",
       "F11b": "storage layer change (SQLite text encoding)", "F11c": "recursive walkers would have to become iterative in ~15 rules",
       "F19d": "TypeScript cqs detectors recurse through nested function nodes; several files", "F19:lazy-ignores-linter.md:498": "TypeScript support is documented but not wired",
       "F19:stringly-typed-linter.md:392": "the documented TypeScript pattern is not implemented", "F19:file-header-linter.md:581": "documentation and default required fields disagree",
       "F19:file-header-linter.md:634": "same"}


def findings():
    rows = [json.loads(line) for line in open(V / "known_findings.jsonl")]
    out = ["| finding | property | commit(s) | what failed |", "|---|---|---|---|"]
    for r in rows:
        if r["status"] == "fixed":
            what = re.sub(r"^fixed: property=\S+ ", "", r["what"])
            what = re.sub(r"^(?:[0-9a-f]{7}[ +]?)+", "", what).strip()
            out.append(f"| {r['id']} | {r['property']} | {r.get('commit', '')} | {what[:280].replace('|', '/')} |")
    out += ["", "**Recorded as known findings** (genuine, but the repair is not a small safe patch — or which side is right is the maintainers' call). The check prints one "
            "`KNOWN-FINDING:` line per entry that it observes and still fails on any violation not listed:", "",
            "| finding | property | what fails | why not repaired here |", "|---|---|---|---|"]
    for r in rows:
        if r["status"] == "known":
            w = WHY.get(r["id"]) or ("no ignore plumbing in that rule: needs the shared suppression engine wired into it" if r["id"].startswith("F04p") else
                                     "tree-sitter leaves macro token trees unparsed; needs an expression parser for token trees" if r["id"].startswith("F17c") else "")
            out.append(f"| {r['id']} | {r['property']} | {r['what'][:240].replace('|', '/')} | {w} |")
    n_fix = sum(1 for r in rows if r["status"] == "fixed")
    n_known = sum(1 for r in rows if r["status"] == "known")
    return "\n".join(out), n_fix, n_known


def seeded():
    out = ["| change | what it breaks | caught by |", "|---|---|---|"]
    for d in sorted(glob.glob(str(V / "seeded/*"))):
        m = json.load(open(d + "/meta.json"))
        name = Path(d).name
        det = m.get("detected_by") or {}
        note = ""
        if det and det.get("exit") == 0:
            note = " — **not a live violation any more** (neutralised by a later repair, see meta.json)"
        out.append(f"| {name} | {m.get('summary', '')[:240].replace('|', '/')} | `./check {m.get('check_property', m['property'])}` (quick tier){note} |")
    return "\n".join(out), len(out) - 2


def main():
    p = V / "DESIGN.md"
    s = p.read_text()
    f, _nf, _nk = findings()
    sd, _n = seeded()
    s = re.sub(r"<!-- BEGIN:findings -->.*?<!-- END:findings -->", "<!-- BEGIN:findings -->\n" + f.replace("\\", "\\\\") + "\n<!-- END:findings -->", s, flags=re.S)
    s = re.sub(r"<!-- BEGIN:seeded -->.*?<!-- END:seeded -->", "<!-- BEGIN:seeded -->\n" + sd.replace("\\", "\\\\") + "\n<!-- END:seeded -->", s, flags=re.S)
    # theorem counts of the status table (10.1): property theorems of Cxx/Props.lean, as the audit counts them
    for c in range(1, 21):
        cid = f"C{c:02d}"
        n = len(json.load(open(V / "evidence" / f"{cid}.json"))["coverage"]["theorems"])    # as audited by the last run
        s = re.sub(rf"^(\| {cid} \| [^|]*\| )\d+( \|)", rf"\g<1>{n}\g<2>", s, flags=re.M)
    p.write_text(s)


if __name__ == "__main__":
    main()
