"""T1 for C19: documented examples, regenerated from /repo/docs/*-linter.md on every run.

A fenced code block (python / typescript / javascript / rust) is labelled from what the documentation says
about it, never from what the linter does:
  violation  — a line of the block carries a VIOLATION marker, or the nearest preceding label line says so
               ("Code with violation", "Bad", "Before", "❌", "Violation", "Problem", "Anti-pattern", "Flagged")
  acceptable — the label says "Good", "After", "✅", "Refactored", "Fixed", "Correct", "Acceptable", "Not flagged", …
  unknown    — anything else (not used)
`marked` lists the 0-based lines of the block that carry a VIOLATION marker."""
from __future__ import annotations

import json
import re
import sys
from pathlib import Path

LANGS = {"python": "py", "py": "py", "typescript": "ts", "ts": "ts", "javascript": "js", "js": "js", "rust": "rs", "rs": "rs", "tsx": "ts"}
BAD = re.compile(r"violation|\bbad\b|before|❌|problem|anti-?pattern|flagged|\bwrong\b|incorrect|don't|avoid|detected|triggers", re.I)
GOOD = re.compile(r"\bgood\b|after|✅|refactor|fixed|\bfix\b|correct|acceptable|not flagged|no violation|recommended|allowed|ignored|safe|better|solution|prefer|instead|exempt|skip", re.I)
MARK = re.compile(r"(←|<-|#|//)\s*.*\bVIOLATION\b|❌", re.I)
OKMARK = re.compile(r"(#|//)\s*(OK|✅|allowed|not flagged|no violation|fine)\b", re.I)


def linter_of(doc_name: str) -> str:
    return doc_name.replace("-linter.md", "")


def extract(docs_dir: Path):
    out = []
    for doc in sorted(docs_dir.glob("*-linter.md")):
        lines = doc.read_text(encoding="utf-8").split("\n")
        i, heading, h2 = 0, "", ""
        while i < len(lines):
            ln = lines[i]
            if ln.startswith("## "):
                h2 = ln[3:].strip()
            if ln.startswith("#"):
                heading = ln.lstrip("#").strip()
            m = re.match(r"^```(\w+)\s*$", ln)
            if m and m.group(1).lower() in LANGS:
                j = i + 1
                while j < len(lines) and not lines[j].startswith("```"):
                    j += 1
                code = lines[i + 1:j]
                # nearest non-empty text line above the block (within 4 lines), plus the heading
                label = ""
                for k in range(i - 1, max(i - 5, -1), -1):
                    if lines[k].strip() and not lines[k].startswith("```"):
                        label = lines[k].strip()
                        break
                marked = [n for n, c in enumerate(code) if MARK.search(c)]
                okmarked = [n for n, c in enumerate(code) if OKMARK.search(c)]
                if marked:
                    kind = "violation"
                elif BAD.search(label) and not GOOD.search(label):
                    kind = "violation"
                elif GOOD.search(label) and not BAD.search(label):
                    kind = "acceptable"
                elif not label.startswith("**") and BAD.search(heading) and not GOOD.search(heading):
                    kind = "violation-by-heading"
                elif not label.startswith("**") and GOOD.search(heading) and not BAD.search(heading):
                    kind = "acceptable-by-heading"
                else:
                    kind = "unknown"
                out.append({"doc": doc.name, "linter": linter_of(doc.name), "lang": LANGS[m.group(1).lower()], "line": i + 2, "label": label[:120], "heading": heading[:80],
                            "section": h2[:80], "kind": kind, "marked": marked, "okmarked": okmarked, "code": "\n".join(code)})
                i = j
            i += 1
    return out


if __name__ == "__main__":
    ex = extract(Path(sys.argv[1] if len(sys.argv) > 1 else "/repo/docs"))
    json.dump(ex, sys.stdout, indent=1)
