#!/venv/bin/python
"""T1 translator: regenerate lean/ThaiLintModel/Gen/*.lean from /repo's *current* source.

Each table is read from the live modules of /repo (import, not text matching, so that harmless
re-formatting of the source does not break the tie).  When a table can no longer be located the
previously generated value is kept (or the committed fallback is used) and the table is recorded
as `broken` in Gen/status.json: the correspondence check (T2) then decides, see DESIGN.md §1.2.

Writes a file only when its content changes, so that `lake build` stays a no-op on an unchanged tree.
"""
from __future__ import annotations

import importlib
import json
import os
import sys
from pathlib import Path

REPO = os.environ.get("THAILINT_REPO", "/repo")
VERIF = Path(__file__).resolve().parent.parent
GEN = VERIF / "lean" / "ThaiLintModel" / "Gen"


def lean_str(s: str) -> str:
    out = ['"']
    for ch in s:
        if ch == '"':
            out.append('\\"')
        elif ch == "\\":
            out.append("\\\\")
        elif ch == "\n":
            out.append("\\n")
        elif ch == "\t":
            out.append("\\t")
        elif ord(ch) < 32 or ord(ch) == 127:
            out.append("\\x%02x" % ord(ch))
        else:
            out.append(ch)
    out.append('"')
    return "".join(out)


def lean_list(xs, f=lean_str) -> str:
    return "[" + ", ".join(f(x) for x in xs) + "]"


class Raw(str):
    """already rendered Lean source"""


def lean_val(v) -> str:
    if isinstance(v, Raw):
        return str(v)
    if isinstance(v, bool):
        return "true" if v else "false"
    if isinstance(v, int):
        return str(v) if v >= 0 else f"({v})"
    if isinstance(v, str):
        return lean_str(v)
    if isinstance(v, (list, tuple)):
        return "[" + ", ".join(lean_val(x) for x in v) + "]"
    raise TypeError(v)


class Tables:
    def __init__(self):
        self.defs: dict[str, list[tuple[str, str, str]]] = {}  # module -> [(name, type, value)]
        self.status: dict[str, str] = {}

    def add(self, module: str, name: str, typ: str, getter, fallback=None):
        """getter() returns the python value -> rendered with lean_val"""
        try:
            val = getter()
            txt = lean_val(val)
            self.status[f"{module}.{name}"] = "import"
        except Exception as exc:  # table moved / renamed: keep going, T2 decides
            self.status[f"{module}.{name}"] = f"broken({type(exc).__name__}: {exc})"
            txt = lean_val(fallback if fallback is not None else [])
        self.defs.setdefault(module, []).append((name, typ, txt))


def mod(name):
    return importlib.import_module(name)


def build() -> Tables:
    sys.path.insert(0, REPO)
    t = Tables()
    # ---------------- C01 nesting
    t.add("Nesting", "pyControlStructures", "List String",
          lambda: [c.__name__ for c in mod("src.linters.nesting.python_analyzer")._CONTROL_STRUCTURES],
          ["For", "While", "With", "AsyncWith", "Try", "Match", "match_case"])
    t.add("Nesting", "tsNestingTypes", "List String",
          lambda: sorted(mod("src.linters.nesting.typescript_analyzer").TypeScriptNestingAnalyzer.NESTING_NODE_TYPES))
    t.add("Nesting", "rsNestingTypes", "List String",
          lambda: sorted(mod("src.linters.nesting.rust_analyzer").RustNestingAnalyzer.NESTING_NODE_TYPES))
    t.add("Nesting", "defaultMaxNestingDepth", "Nat",
          lambda: mod("src.linters.nesting.config").DEFAULT_MAX_NESTING_DEPTH, 4)
    # ---------------- orchestrator (C09, C14)
    t.add("Orch", "excludedDirs", "List String",
          lambda: sorted(mod("src.orchestrator.core")._HARDCODED_EXCLUDE_DIRS))
    t.add("Orch", "excludedExts", "List String",
          lambda: sorted(mod("src.orchestrator.core")._HARDCODED_EXCLUDE_EXTENSIONS))
    t.add("Orch", "defaultMaxWorkers", "Nat",
          lambda: mod("src.orchestrator.core").DEFAULT_MAX_WORKERS, 8)
    # ---------------- Rust safety linters (C17)
    t.add("Rust", "blockingFsFunctions", "List String", lambda: sorted(mod("src.linters.blocking_async.rust_analyzer")._BLOCKING_FS_FUNCTIONS))
    t.add("Rust", "blockingNetTypes", "List String", lambda: sorted(mod("src.linters.blocking_async.rust_analyzer")._BLOCKING_NET_TYPES))
    t.add("Rust", "asyncWrapperFunctions", "List String", lambda: sorted(mod("src.linters.blocking_async.rust_analyzer")._ASYNC_WRAPPER_FUNCTIONS))
    t.add("Rust", "loopNodeTypes", "List String", lambda: sorted(mod("src.linters.clone_abuse.rust_analyzer")._LOOP_NODE_TYPES))
    # ---------------- config tooling (C20)
    def _local_list(func, var):
        import ast as _ast
        src = (Path(REPO) / "src" / "config.py").read_text()
        tree = _ast.parse(src)
        scopes = [n for n in _ast.walk(tree) if isinstance(n, _ast.FunctionDef) and n.name == func] or [tree]   # helper renamed: any scope
        for node in scopes:
            for sub in _ast.walk(node):
                if isinstance(sub, _ast.Assign) and any(isinstance(tg, _ast.Name) and tg.id.lower() == var for tg in sub.targets):
                    return list(_ast.literal_eval(sub.value))
        raise KeyError(f"{func}.{var}")

    def _defaults():
        out = []
        for k, v in mod("src.config").DEFAULT_CONFIG.items():
            if isinstance(v, bool) or not isinstance(v, (int, str)):
                raise TypeError(v)
            out.append(Raw(f"({lean_str(k)}, " + (f"Sum.inr {lean_val(v)}" if isinstance(v, int) else f"Sum.inl {lean_str(v)}") + ")"))
        return out
    t.add("Config", "linterSections", "List String", lambda: list(mod("src.cli.config_merge").LINTER_SECTIONS))
    t.add("Config", "templateLines", "List String",
          lambda: (Path(REPO) / "src" / "templates" / "thailint_config_template.yaml").read_text(encoding="utf-8").split("\n"))
    t.add("Config", "defaultConfig", "List (String × (String ⊕ Int))", _defaults)
    t.add("Config", "requiredKeys", "List String", lambda: _local_list("_validate_required_keys", "required_keys"))
    t.add("Config", "validLogLevels", "List String", lambda: _local_list("_validate_log_level", "valid_log_levels"))
    t.add("Config", "validOutputFormats", "List String", lambda: _local_list("_validate_output_format", "valid_formats"))
    # ---------------- ignore directives (C04)
    def alias_pairs():
        m = mod("src.core.rule_aliases")
        return sorted([a, b] for a, b in m.RULE_ID_ALIASES.items())
    try:
        pairs = alias_pairs()
        t.defs.setdefault("Ignore", []).append(("ruleIdAliases", "List (String × String)", "[" + ", ".join(f"({lean_str(a)}, {lean_str(b)})" for a, b in pairs) + "]"))
        t.status["Ignore.ruleIdAliases"] = "import"
    except Exception as exc:  # noqa: BLE001
        t.defs.setdefault("Ignore", []).append(("ruleIdAliases", "List (String × String)", "[]"))
        t.status["Ignore.ruleIdAliases"] = f"broken({exc})"
    t.add("Ignore", "headerScanLines", "Nat", lambda: mod("src.core.constants").HEADER_SCAN_LINES, 10)
    # ---------------- magic numbers (C02)
    def rust_suffixes():
        import ast, inspect
        m = mod("src.linters.magic_numbers.rust_analyzer")
        tree = ast.parse(inspect.getsource(m))      # wherever the suffix tuple lives in the module
        for n in ast.walk(tree):
            if isinstance(n, (ast.Tuple, ast.List)) and n.elts and all(isinstance(e, ast.Constant) and isinstance(e.value, str) for e in n.elts) \
                    and {"u8", "f64"} <= {e.value for e in n.elts}:
                return [e.value for e in n.elts]
        raise LookupError("suffix tuple not found")
    t.add("Magic", "rustSuffixes", "List String", rust_suffixes,
          ["u8", "u16", "u32", "u64", "u128", "usize", "i8", "i16", "i32", "i64", "i128", "isize", "f32", "f64"])
    t.add("Magic", "defaultAllowedInts", "List Int",
          lambda: sorted(int(x) for x in mod("src.linters.magic_numbers.config").DEFAULT_ALLOWED_NUMBERS if float(x).is_integer()))
    t.add("Magic", "defaultMaxSmallInteger", "Nat", lambda: mod("src.linters.magic_numbers.config").MagicNumberConfig().max_small_integer, 10)
    t.add("Magic", "tsTestMarkers", "List String",
          lambda: _ast_list_in_module(mod("src.linters.magic_numbers.linter"), ".test."),
          [".test.", ".spec.", "test_", "_test.", "/tests/", "/test/"])
    def def_name_patterns(kind):
        import ast, inspect, textwrap
        # the whole module is searched, so that renaming or splitting the helper does not break the tie
        tree = ast.parse(inspect.getsource(mod("src.linters.magic_numbers.definition_detector")))
        out = []
        for n in ast.walk(tree):
            if kind == "suffix" and isinstance(n, ast.Call) and isinstance(n.func, ast.Attribute) and n.func.attr == "endswith":
                out += [a.value for a in n.args if isinstance(a, ast.Constant) and isinstance(a.value, str)]
            if kind == "exact" and isinstance(n, ast.Compare) and len(n.ops) == 1 and isinstance(n.ops[0], ast.Eq):
                out += [c.value for c in n.comparators if isinstance(c, ast.Constant) and isinstance(c.value, str) and c.value.endswith(".py")]
        if not out:
            raise LookupError("no definition-file name patterns found")
        return sorted(set(out))
    t.add("Magic", "minUppercaseConstants", "Nat", lambda: mod("src.linters.magic_numbers.definition_detector").MIN_UPPERCASE_CONSTANTS, 10)
    t.add("Magic", "minDictIntKeys", "Nat", lambda: mod("src.linters.magic_numbers.definition_detector").MIN_DICT_INT_KEYS, 5)
    t.add("Magic", "definitionNameSuffixes", "List String", lambda: def_name_patterns("suffix"), ["_codes.py", "_constants.py"])
    t.add("Magic", "definitionNameExact", "List String", lambda: def_name_patterns("exact"), ["constants.py"])
    # ---------------- CLI commands, rule ids, per-command filters, extension map (C15, C06, C10)
    cli_tables(t)
    return t


NON_LINTER_COMMANDS = {"config", "hello", "init-config"}


def _ast_rule_ids() -> list[str]:
    import ast
    ids = set()
    for f in sorted((Path(REPO) / "src").rglob("*.py")):
        try:
            tree = ast.parse(f.read_text())
        except SyntaxError:
            continue
        for n in ast.walk(tree):
            if isinstance(n, ast.keyword) and n.arg == "rule_id" and isinstance(n.value, ast.Constant) and isinstance(n.value.value, str):
                ids.add(n.value.value)
    return sorted(ids)


def _ast_filter_candidates() -> list[tuple[str, str]]:
    """(kind, literal) of every rule-id filter expression in src/cli/linters/*.py"""
    import ast
    out = set()

    def is_rule_id(e):
        return isinstance(e, ast.Attribute) and e.attr == "rule_id"

    for f in sorted((Path(REPO) / "src" / "cli" / "linters").glob("*.py")):
        tree = ast.parse(f.read_text())
        for n in ast.walk(tree):
            if isinstance(n, ast.Call) and isinstance(n.func, ast.Attribute) and n.func.attr == "startswith" and is_rule_id(n.func.value):
                if n.args and isinstance(n.args[0], ast.Constant):
                    out.add(("prefix", n.args[0].value))
            elif isinstance(n, ast.Compare) and len(n.ops) == 1:
                l, r = n.left, n.comparators[0]
                if isinstance(n.ops[0], ast.In) and isinstance(l, ast.Constant) and is_rule_id(r):
                    out.add(("contains", l.value))
                elif isinstance(n.ops[0], ast.Eq) and is_rule_id(l) and isinstance(r, ast.Constant):
                    out.add(("equals", r.value))
            elif isinstance(n, ast.Call) and isinstance(n.func, ast.Name) and n.func.id in ("filter_violations_by_prefix", "filter_violations_by_startswith"):
                if len(n.args) > 1 and isinstance(n.args[1], ast.Constant):
                    out.add(("contains" if n.func.id.endswith("by_prefix") else "prefix", n.args[1].value))
    return sorted(out)


def _ast_list_in_module(module, must_contain: str) -> list[str]:
    """the string list/tuple literal of a module that contains `must_contain` (independent of which helper holds it)"""
    import ast, inspect
    for n in ast.walk(ast.parse(inspect.getsource(module))):
        if isinstance(n, (ast.List, ast.Tuple)) and n.elts and all(isinstance(e, ast.Constant) and isinstance(e.value, str) for e in n.elts) \
                and must_contain in [e.value for e in n.elts]:
            return [e.value for e in n.elts]
    raise LookupError(f"no string list literal containing {must_contain!r}")


def _ast_list_in_function(fn) -> list[str]:
    import ast, inspect, textwrap
    tree = ast.parse(textwrap.dedent(inspect.getsource(fn)))
    for n in ast.walk(tree):
        if isinstance(n, (ast.List, ast.Tuple)) and n.elts and all(isinstance(e, ast.Constant) and isinstance(e.value, str) for e in n.elts):
            return [e.value for e in n.elts]
    raise LookupError("no string list literal")


def _passes(kind: str, lit: str, rid: str) -> bool:
    return {"prefix": rid.startswith(lit), "contains": lit in rid, "equals": rid == lit}[kind]


def _probe_commands(commands: list[str], probe_ids: list[str]) -> dict[str, list[str]]:
    """Behaviour of each command's rule filter: run the real CLI with an orchestrator that reports one
    violation per probe id and record which ids the command prints."""
    import tempfile
    from unittest import mock

    from click.testing import CliRunner

    cli = mod("src.cli_main").cli
    types = mod("src.core.types")
    oc = mod("src.orchestrator.core")
    res = {}
    with tempfile.TemporaryDirectory(dir="/dev/shm" if os.path.isdir("/dev/shm") else None) as d:
        f = Path(d) / "probe.py"
        f.write_text("x = 1\n")
        (Path(d) / ".thailint.yaml").write_text("{}\n")

        def fake(self, *a, **k):
            return [types.Violation(rule_id=r, file_path=str(f), line=1, column=0, message=r) for r in probe_ids]

        with mock.patch.object(oc.Orchestrator, "lint_files", fake), mock.patch.object(oc.Orchestrator, "lint_directory", fake), \
                mock.patch.object(oc.Orchestrator, "lint_file", fake):
            for c in commands:
                r = CliRunner().invoke(cli, ["--project-root", d, c, "--format", "json", str(f)])
                out = r.stdout if hasattr(r, "stdout") else r.output
                try:
                    vs = json.loads(out)["violations"]
                    res[c] = [v["rule_id"] for v in vs]
                except Exception:  # noqa: BLE001
                    res[c] = ["<<probe-failed>>"]
    return res


def cli_tables(t: Tables) -> None:
    state = {}

    def commands():
        cli = mod("src.cli_main").cli
        state["commands"] = sorted(c for c in cli.commands if c not in NON_LINTER_COMMANDS)
        return state["commands"]

    def rule_ids():
        reg = mod("src.core.registry").RuleRegistry()
        reg.discover_rules("src.linters")
        ids = {r.rule_id for r in reg.list_all()} | set(_ast_rule_ids())
        state["registered"] = sorted(r.rule_id for r in reg.list_all())
        state["rule_ids"] = sorted(i for i in ids if i and " " not in i)
        return state["rule_ids"]

    t.add("Cli", "commands", "List String", commands)
    t.add("Cli", "ruleIds", "List String", rule_ids)
    t.add("Cli", "registeredRuleIds", "List String", lambda: state["registered"])

    def probe_ids():
        cands = _ast_filter_candidates()
        state["cands"] = cands
        adv = set()
        for _k, lit in cands:
            base = lit.rstrip(".")
            adv |= {base, base + ".zz", "x" + base + ".zz", "zz." + base, base + "x.zz", base + "-extra.zz"}
        state["probe"] = sorted(set(state["rule_ids"]) | adv)
        return state["probe"]

    t.add("Cli", "probeIds", "List String", probe_ids)

    def behaviour():
        state["beh"] = _probe_commands(state["commands"], state["probe"])
        return [[c, state["beh"][c]] for c in state["commands"]]

    def lean_beh(v):
        return "[" + ", ".join("(" + lean_str(c) + ", " + lean_list(ids) + ")" for c, ids in v) + "]"

    try:
        beh = behaviour()
        t.defs.setdefault("Cli", []).append(("behaviour", "List (String × List String)", lean_beh(beh)))
        t.status["Cli.behaviour"] = "probe"
    except Exception as exc:  # noqa: BLE001
        t.defs.setdefault("Cli", []).append(("behaviour", "List (String × List String)", "[]"))
        t.status["Cli.behaviour"] = f"broken({type(exc).__name__}: {exc})"

    # which AST-extracted predicate does each command apply?  (the one whose truth table on the probe ids is the observed one)
    rows, unmatched = [], []
    for c in state.get("commands", []):
        got = state.get("beh", {}).get(c)
        match = [(k, l) for k, l in state.get("cands", []) if [r for r in state["probe"] if _passes(k, l, r)] == got]
        if match:
            rows.append((c, match[0][0], match[0][1]))
        else:
            unmatched.append(c)
    t.defs["Cli"].append(("commandFilter", "List (String × String × String)",
                          "[" + ", ".join(f"({lean_str(c)}, {lean_str(k)}, {lean_str(l)})" for c, k, l in rows) + "]"))
    t.status["Cli.commandFilter"] = "ast+probe" if not unmatched else f"broken(no source predicate reproduces the behaviour of: {unmatched})"

    def ext_map():
        m = mod("src.orchestrator.language_detector").EXTENSION_MAP
        return sorted(m.items())

    try:
        em = ext_map()
        t.defs["Cli"].append(("extensionMap", "List (String × String)", "[" + ", ".join(f"({lean_str(a)}, {lean_str(b)})" for a, b in em) + "]"))
        t.status["Cli.extensionMap"] = "import"
    except Exception as exc:  # noqa: BLE001
        t.defs["Cli"].append(("extensionMap", "List (String × String)", "[]"))
        t.status["Cli.extensionMap"] = f"broken({exc})"


def write_if_changed(path: Path, text: str) -> bool:
    if path.exists() and path.read_text() == text:
        return False
    path.write_text(text)
    return True


def main() -> int:
    t = build()
    GEN.mkdir(parents=True, exist_ok=True)
    changed = []
    for module, defs in t.defs.items():
        lines = [
            "/- GENERATED by harness/extract_tables.py from /repo's current source on every run (tie T1).",
            "   Do not edit: any edit is overwritten by the next check run. -/",
            f"namespace ThaiLintModel.Gen.{module}",
            "",
        ]
        for name, typ, txt in defs:
            lines.append(f"def {name} : {typ} := {txt}")
        lines += ["", f"end ThaiLintModel.Gen.{module}", ""]
        if write_if_changed(GEN / f"{module}.lean", "\n".join(lines)):
            changed.append(module)
    (GEN / "status.json").write_text(json.dumps(t.status, indent=1, sort_keys=True) + "\n")
    print(json.dumps({"changed": changed, "broken": [k for k, v in t.status.items() if v.startswith("broken")]}))
    return 0


if __name__ == "__main__":
    sys.exit(main())
