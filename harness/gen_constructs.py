"""Generated Python / TypeScript / Rust files made of *planted constructs* with known anchor lines
(shared by the C12 location check and the C13 metamorphic check).

A unit is a list of source lines plus plants: (relative line, rule-id prefix, token).  `token` is a unique
name or literal that the violation message quotes; the anchor is the line the property says the violation
must point at (def/function/fn header, class/struct header, the literal, the call, first line of a block)."""
from __future__ import annotations

from dataclasses import dataclass, field


@dataclass
class Plant:
    rule: str          # rule id prefix the violation must have
    token: str         # unique token quoted in (or implied by) the message
    line: int          # 1-based anchor line in the final file
    kind: str
    must_report: bool = True


@dataclass
class Unit:
    lines: list
    plants: list = field(default_factory=list)     # (rel_line, rule, token, kind)
    kind: str = ""


class Ids:
    def __init__(self, tag):
        self.tag, self.n = tag, 0

    def next(self):
        self.n += 1
        return f"{self.tag}{self.n}"


def magic_value(rng, ids):
    """a numeric literal unlikely to collide, in one of several spellings; returns (source text, value as Python number)"""
    v = rng.randint(1200, 9899) * 10 + rng.randint(1, 9)
    form = rng.choice(["dec", "dec", "dec", "float", "underscore", "longfloat", "longfloat"])
    if form == "float":
        return f"{v}.5", v + 0.5
    if form == "longfloat":
        # more significant digits than a short float format keeps (the message must still quote the literal's value)
        frac = rng.choice(["458", "0339887", "8125", "00390625"])
        return f"{v}.{frac}", float(f"{v}.{frac}")
    if form == "underscore":
        s = str(v)
        return f"{s[:-3]}_{s[-3:]}", v
    return str(v), v


# ---------------------------------------------------------------- Python units
def py_nest(rng, ids, style):
    name = f"nest_{ids.next()}"
    if style == "multiline":
        head = [f"def {name}(", "    a,", "    items,", "):"]
        anchor = 0
    elif style == "decorated":
        head = ["@trace", "@retry(times=3)", f"def {name}(a, items):"]
        anchor = 2
    elif style == "async":
        head = [f"async def {name}(a, items):"]
        anchor = 0
    else:
        head = [f"def {name}(a, items):"]
        anchor = 0
    body = ["    if a:", "        for i in items:", "            while a:", "                if i:", "                    with open(i) as f:",
            "                        return f", "    return None"]
    return Unit(head + body, [(anchor, "nesting", name, "nesting")], "py_nest_" + style)


def py_srp(rng, ids, style):
    name = f"Big{ids.next()}"
    head = ["@dataclass", f"class {name}:"] if style == "decorated" else [f"class {name}(Base):"] if style == "base" else [f"class {name}:"]
    anchor = len(head) - 1
    body = ["    def __init__(self):", "        self.v = 0", ""]
    for i in range(9):
        body += [f"    def op{i}(self, x):", f"        self.v = self.v + x", f"        return self.v", ""]
    return Unit(head + body, [(anchor, "srp", name, "srp")], "py_srp_" + style)


def py_stateless(rng, ids, style):
    name = f"Stateless{ids.next()}"
    lines = [f"class {name}:", "    def double(self, x):", "        return x + x", "", "    def triple(self, x):", "        return x + x + x", ""]
    return Unit(lines, [(0, "stateless-class", name, "stateless")], "py_stateless")


def py_method_property(rng, ids, style):
    cname, mname = f"Box{ids.next()}", f"get_value_{ids.next()}"
    lines = [f"class {cname}:", "    def __init__(self):", "        self._value = 0", "", f"    def {mname}(self):", "        return self._value", ""]
    return Unit(lines, [(4, "method-property", mname, "method-property")], "py_method_property")


def py_magic(rng, ids, style):
    text, val = magic_value(rng, ids)
    fn = f"calc_{ids.next()}"
    if style == "multiline":
        lines = [f"def {fn}(first):", "    result = combine(", "        first,", f"        {text},", "    )", "    return result", ""]
        anchor = 3
    elif style == "unicode":
        lines = [f"def {fn}(first):", f'    label = "数値は日本語"; result = first * {text}', "    return result, label", ""]
        anchor = 1
    elif style == "continuation":
        lines = [f"def {fn}(first):", "    result = first + \\", f"        {text}", "    return result", ""]
        anchor = 2
    else:
        lines = [f"def {fn}(first):", f"    result = first * {text}", "    return result", ""]
        anchor = 1
    return Unit(lines, [(anchor, "magic-numbers", text, "magic")], "py_magic_" + style)


def py_print(rng, ids, style):
    fn, tag = f"show_{ids.next()}", f"msg{ids.next()}"
    if style == "multiline":
        lines = [f"def {fn}(x):", "    print(", f'        "{tag}",', "        x,", "    )", "    return x", ""]
    else:
        lines = [f"def {fn}(x):", f'    print("{tag}", x)', "    return x", ""]
    return Unit(lines, [(1, "improper-logging", "print", "print")], "py_print_" + style)


def py_perf(rng, ids, style):
    fn, var = f"join_{ids.next()}", f"acc{ids.next()}"
    lines = [f"def {fn}(items):", f'    {var} = ""', "    for item in items:", f"        {var} += str(item)", f"    return {var}", ""]
    return Unit(lines, [(3, "performance.string-concat-loop", var, "perf")], "py_perf")


def py_pipeline(rng, ids, style):
    fn = f"pick_{ids.next()}"
    lines = [f"def {fn}(items):", "    out = []", "    for item in items:", "        if not item:", "            continue", "        out.append(item)", "    return out", ""]
    return Unit(lines, [(2, "collection-pipeline", "for", "pipeline")], "py_pipeline")


def py_filler(rng, ids, style):
    fn = f"plain_{ids.next()}"
    return Unit([f"def {fn}(x):", '    """Return x unchanged."""', "    y = x", "    return y", ""], [], "py_filler")


def py_loc_edge(rng, ids, style):
    """a class with exactly 12 code lines and blank / comment lines inside: sits on `max_loc: 12` without being reported"""
    name = f"Edge{ids.next()}"
    lines = [f"class {name}:", "    def __init__(self):", "        self.v = 0", ""]
    for i in range(3):
        lines += [f"    def step{i}(self, x):", "        self.v = self.v + x", "", "        return self.v", "    # between methods" if i < 2 else ""]
    return Unit(lines, [], "py_loc_edge")


def py_depth_edge(rng, ids, style):
    """an if / elif / else chain, a try / except / else / finally and a for / else that sit exactly on the nesting limit of the
    checks that use these units (max_nesting_depth 4 as Python counts) without being reported: any edit that makes a clause
    look one level deeper shows up as a new finding"""
    fn = f"edge_{ids.next()}"
    return Unit([f"def {fn}(a, items):", "    if a:", "        for i in items:", "            while a:", "                if i == 1:", "                    a = 11",
                 "                elif i == 2:", "                    a = 12", "                elif i == 3:", "                    a = 13", "                else:", "                    a = 14",
                 "                try:", "                    a = a + 15", "                except KeyError:", "                    a = 16", "                else:", "                    a = 17",
                 "                finally:", "                    a = a + 18", "            else:", "                a = 19", "        else:", "            a = 20", "    return a", ""], [], "py_depth_edge")


def py_zoo(rng, ids, style):
    """valid modern Python that no planted rule targets: the analyzers must get through it"""
    i = ids.next()
    if style == "match":
        lines = [f"def route_{i}(command):", "    match command:", "        case ['go', direction]:", "            return direction", "        case ['stop'] | ['halt']:",
                 "            return None", "        case {'kind': kind, **rest} if rest:", "            return kind", "        case _:", "            return command", ""]
    elif style == "walrus":
        lines = [f"def scan_{i}(stream):", "    while (chunk := stream.read()) is not None:", "        yield chunk", f"    return [y for x in stream if (y := x.strip())]", ""]
    elif style == "async":
        lines = [f"async def gather_{i}(session, urls):", "    async with session.open() as conn:", "        async for row in conn.rows(urls):", "            yield row",
                 f"    return [r async for r in conn.rows(urls)]", ""]
    elif style == "typing":
        lines = [f"def typed_{i}[T](items: list[T], *, key: 'Callable[[T], int] | None' = None, **extra: object) -> dict[str, T]:", "    table: dict[str, T] = {}",
                 "    for position, element in enumerate(items):", "        table[f'{position!r:>4}'] = element", "    return table", ""]
    else:
        lines = [f"def guarded_{i}(resource):", "    try:", "        value = resource.load()", "    except (OSError, ValueError) as error:", "        raise RuntimeError('failed') from error",
                 "    else:", "        return value", "    finally:", "        resource.close()", f"squares_{i} = {{n: n * n for n in range(4) if n}}", f"pick_{i} = lambda first, *rest, flag=False: rest if flag else first", ""]
    return Unit(lines, [], "py_zoo_" + style)


PY_UNITS = [(py_nest, ["plain", "multiline", "decorated", "async"]), (py_srp, ["plain", "decorated", "base"]), (py_stateless, ["plain"]),
            (py_method_property, ["plain"]), (py_magic, ["plain", "multiline", "unicode", "continuation"]), (py_print, ["plain", "multiline"]),
            (py_perf, ["plain"]), (py_pipeline, ["plain"]), (py_filler, ["plain"]), (py_loc_edge, ["plain"]), (py_depth_edge, ["plain"]),
            (py_zoo, ["match", "walrus", "async", "typing", "try"])]


# ---------------------------------------------------------------- TypeScript units
def ts_nest(rng, ids, style):
    name = f"nest{ids.next()}"
    if style == "multiline":
        head = [f"function {name}(", "  a: boolean,", "  items: number[],", "): number {"]
    elif style == "export":
        head = [f"export function {name}(a: boolean, items: number[]): number {{"]
    else:
        head = [f"function {name}(a: boolean, items: number[]): number {{"]
    body = ["  if (a) {", "    for (const i of items) {", "      while (a) {", "        if (i) {", "          if (i > 2) {", "            return i;", "          }", "        }",
            "      }", "    }", "  }", "  return 0;", "}"]
    return Unit(head + body, [(0, "nesting", name, "nesting")], "ts_nest_" + style)


def ts_srp(rng, ids, style):
    name = f"Big{ids.next()}"
    if style == "decorated_export":
        head, anchor = ["@Injectable()", "@Tagged('x')", f"export class {name} {{"], 2
    elif style == "export":
        head, anchor = [f"export class {name} {{"], 0
    else:
        head, anchor = [f"class {name} {{"], 0
    body = ["  v = 0;"]
    for i in range(9):
        body += [f"  op{i}(x: number): number {{", "    this.v = this.v + x;", "    return this.v;", "  }"]
    body.append("}")
    return Unit(head + body, [(anchor, "srp", name, "srp")], "ts_srp_" + style)


def ts_magic(rng, ids, style):
    text, val = magic_value(rng, ids)
    fn = f"calc{ids.next()}"
    if style == "multiline":
        lines = [f"function {fn}(first: number): number {{", "  const result = combine(", "    first,", f"    {text},", "  );", "  return result;", "}"]
        anchor = 3
    else:
        lines = [f"function {fn}(first: number): number {{", f"  const result = first * {text};", "  return result;", "}"]
        anchor = 1
    return Unit(lines, [(anchor, "magic-numbers", text, "magic")], "ts_magic_" + style)


def ts_print(rng, ids, style):
    fn, tag = f"show{ids.next()}", f"msg{ids.next()}"
    lines = [f"function {fn}(x: number): number {{", f'  console.log("{tag}", x);', "  return x;", "}"]
    return Unit(lines, [(1, "improper-logging", "console", "print")], "ts_print")


def ts_filler(rng, ids, style):
    fn = f"plain{ids.next()}"
    return Unit([f"function {fn}(x: number): number {{", "  const y = x;", "  return y;", "}"], [], "ts_filler")


def ts_loc_edge(rng, ids, style):
    name = f"Edge{ids.next()}"
    lines = [f"class {name} {{", "  v = 0;"]
    for i in range(3):
        lines += ["", f"  step{i}(x: number): number {{", "    this.v = this.v + x;", "    return this.v;", "  }"]
    lines.append("}")
    return Unit(lines, [], "ts_loc_edge")


def ts_zoo(rng, ids, style):
    i = ids.next()
    if style == "generics":
        lines = [f"function pluck{i}<T extends object, K extends keyof T>(obj: T, ...keys: K[]): Array<T[K]> {{", "  return keys.map((key) => obj[key]);", "}",
                 f"enum Mode{i} {{ Fast = 'fast', Slow = 'slow' }}", f"type Alias{i} = {{ readonly [key: string]: number | undefined }};"]
    elif style == "fluent":
        # a method that reads and writes but is exempt as a fluent interface: it ends with `return this;`
        lines = [f"class Builder{i} {{", "  private parts: string[] = [];", "  add(source: Source): this {", "    const piece = source.fetch();", "    this.parts.push(piece);",
                 "    return this;", "  }", "}"]
    elif style == "member_names":
        # members that are not named by a plain identifier, class forms other than a plain declaration
        lines = [f"abstract class Shape{i} {{", "  #secret = 1;", "  *[Symbol.iterator]() { yield this.#secret; }", "  'to-json'() { return '{}'; }", "  42() { return 42; }",
                 "  #hidden() { return this.#secret; }", "  static [`make${1}`]() { return null; }", "  abstract area(): number;", "}",
                 f"const Anon{i} = class {{", "  get [Symbol.toStringTag]() { return 'Anon'; }", "};"]
    elif style == "async":
        lines = [f"async function load{i}(api?: Api): Promise<string | null> {{", "  const value = (await api?.get?.('key')) ?? null;", "  const label = `got ${value ?? 'nothing'} at ${Date.now()}`;",
                 "  return value === null ? null : label;", "}"]
    else:
        lines = [f"const handlers{i} = {{", "  ['computed' + 1]: () => undefined,", "  async *stream() { yield* []; },", "  get size() { return 0; },", "};",
                 f"const [first{i}, ...rest{i}] = [1, 2, 3];"]
    return Unit(lines, [], "ts_zoo_" + style)


def ts_consts(rng, ids, style):
    """module-level constants with fixed names: two files of a project that both hold this unit define the same constants (the
    duplicate-constants detector then has something to locate), one per line or several declarators in one statement"""
    if style == "multiline":
        lines = ["export const", "  API_TIMEOUT_MS = 30000,", "  RETRY_LIMIT = 5;"]
    elif style == "trailing":
        lines = ["const API_TIMEOUT_MS = 30000, RETRY_LIMIT =", "  5;"]
    else:
        lines = ["export const API_TIMEOUT_MS = 30000;", "export const RETRY_LIMIT = 5;"]
    return Unit(lines, [], "ts_consts_" + style)


TS_UNITS = [(ts_consts, ["plain", "multiline", "multiline", "trailing"]), (ts_nest, ["plain", "multiline", "export"]), (ts_srp, ["plain", "export", "decorated_export"]), (ts_magic, ["plain", "multiline"]), (ts_print, ["plain"]),
            (ts_filler, ["plain"]), (ts_loc_edge, ["plain"]), (ts_zoo, ["generics", "fluent", "async", "objects", "member_names"])]


# ---------------------------------------------------------------- Rust units
def rs_nest(rng, ids, style):
    name = f"nest_{ids.next()}"
    if style == "multiline":
        head = [f"fn {name}(", "    a: bool,", "    items: Vec<i32>,", ") -> i32 {"]
        anchor = 0
    elif style == "attr":
        head = ["#[inline]", "#[allow(dead_code)]", f"pub fn {name}(a: bool, items: Vec<i32>) -> i32 {{"]
        anchor = 2
    else:
        head = [f"fn {name}(a: bool, items: Vec<i32>) -> i32 {{"]
        anchor = 0
    body = ["    if a {", "        for i in items {", "            while a {", "                if i > 0 {", "                    if i > 2 {", "                        return i;",
            "                    }", "                }", "            }", "        }", "    }", "    0", "}"]
    return Unit(head + body, [(anchor, "nesting", name, "nesting")], "rs_nest_" + style)


def rs_unwrap(rng, ids, style):
    fn, var = f"load_{ids.next()}", f"cfg{ids.next()}"
    if style == "chain":
        lines = [f"fn {fn}() -> i32 {{", f"    let {var} = builder()", "        .with_retries()", "        .finish()", "        .unwrap();", f"    {var}", "}"]
    elif style == "nested_arg":
        lines = [f"fn {fn}() -> i32 {{", f"    let {var} = combine(", "        first(),", "        lookup().unwrap(),", "    );", f"    {var}", "}"]
        return Unit(lines, [(3, "unwrap-abuse", "unwrap", "unwrap")], "rs_unwrap_" + style)
    else:
        lines = [f"fn {fn}() -> i32 {{", f"    let {var} = lookup().unwrap();", f"    {var}", "}"]
    return Unit(lines, [(1, "unwrap-abuse", "unwrap", "unwrap")], "rs_unwrap_" + style)


def rs_clone(rng, ids, style):
    fn, var = f"copy_{ids.next()}", f"src{ids.next()}"
    if style == "let":
        lines = [f"fn {fn}({var}: Vec<i32>) -> usize {{", "    let total = 0;", f"    let copy = {var}.clone();", "    total + copy.len()", "}"]
        return Unit(lines, [(2, "clone-abuse", "clone", "clone")], "rs_clone_let")
    if style == "multiline":
        lines = [f"fn {fn}({var}: Vec<i32>) {{", "    for _i in 0..3 {", f"        let _c = {var}", "            .clone();", "    }", "}"]
    else:
        lines = [f"fn {fn}({var}: Vec<i32>) {{", "    for _i in 0..3 {", f"        let _c = {var}.clone();", "    }", "}"]
    return Unit(lines, [(2, "clone-abuse", "clone", "clone")], "rs_clone_" + style)


def rs_blocking(rng, ids, style):
    fn = f"fetch_{ids.next()}"
    if style == "multiline":
        lines = [f"async fn {fn}() {{", "    let _d = std::fs::read_to_string(", '        "data.txt",', "    );", "}"]
    else:
        lines = [f"async fn {fn}() {{", '    let _d = std::fs::read_to_string("data.txt");', "}"]
    return Unit(lines, [(1, "blocking-async", "read_to_string", "blocking")], "rs_blocking_" + style)


def rs_magic(rng, ids, style):
    text, val = magic_value(rng, ids)
    fn = f"calc_{ids.next()}"
    lines = [f"fn {fn}(first: i32) -> i32 {{", f"    let result = first * {text.split('.')[0]};", "    result", "}"]
    return Unit(lines, [(1, "magic-numbers", text.split(".")[0], "magic")], "rs_magic")


def rs_srp(rng, ids, style):
    name = f"Big{ids.next()}"
    lines = ["#[derive(Debug)]", f"pub struct {name} {{", "    v: i32,", "}", "", f"impl {name} {{"]
    for i in range(9):
        lines += [f"    pub fn op{i}(&mut self, x: i32) -> i32 {{", "        self.v = self.v + x;", "        self.v", "    }"]
    lines.append("}")
    return Unit(lines, [(1, "srp", name, "srp_rust")], "rs_srp")


def rs_filler(rng, ids, style):
    fn = f"plain_{ids.next()}"
    return Unit([f"fn {fn}(x: i32) -> i32 {{", "    let y = x;", "    y", "}"], [], "rs_filler")


def rs_test(rng, ids, style):
    """test code: nothing is reported while allow_in_tests is on (stacked attributes above the item)"""
    fn = f"check_{ids.next()}"
    if style == "module":
        lines = ["#[cfg(test)]", "#[allow(dead_code)]", f"mod tests_{ids.next()} {{", f"    fn {fn}() {{", "        let _v = lookup().unwrap();", "    }", "}"]
    else:
        lines = ["#[test]", "#[should_panic]", f"fn {fn}() {{", "    let _v = lookup().unwrap();", "}"]
    return Unit(lines, [], "rs_test_" + style)


def rs_zoo(rng, ids, style):
    i = ids.next()
    if style == "traits":
        lines = [f"pub trait Shape{i} {{", "    fn area(&self) -> f64;", "    fn name(&self) -> String { String::from(\"shape\") }", "}",
                 f"impl<T: Shape{i} + ?Sized> Shape{i} for Box<T> {{", "    fn area(&self) -> f64 { (**self).area() }", "}"]
    elif style == "tokio":
        # a drop-in async module imported from another crate: its short paths are not std calls (nothing to report)
        lines = [f"mod async_io_{i} {{", "    use tokio::fs;", "    use tokio::{", "        net,", "        time,", "    };", "    pub async fn load() -> usize {",
                 "        let text = fs::read_to_string(\"data.txt\").await;", "        let _sock = net::UdpSocket::bind(\"0.0.0.0:0\").await;", "        text.map(|t| t.len()).unwrap_or(0)", "    }", "}"]
    elif style == "lifetimes":
        lines = [f"fn longest_{i}<'a, 'b: 'a>(left: &'a str, right: &'b str) -> &'a str {{", "    if left.len() >= right.len() { left } else { right }", "}"]
    elif style == "match":
        lines = [f"fn classify_{i}(value: Option<i32>) -> &'static str {{", "    match value {", "        Some(n) if n < 0 => \"negative\",", "        Some(0) => \"zero\",",
                 "        Some(1..=9) | Some(10) => \"small\",", "        Some(_) => \"large\",", "        None => \"none\",", "    }", "}"]
    else:
        lines = [f"macro_rules! square_{i} {{", "    ($x:expr) => { $x * $x };", "}", f"fn apply_{i}<F: Fn(i32) -> i32>(f: F) -> i32 {{", "    let add = |a: i32, b: i32| -> i32 { a + b };",
                 "    f(add(1, 2))", "}"]
    return Unit(lines, [], "rs_zoo_" + style)


RS_UNITS = [(rs_nest, ["plain", "multiline", "attr"]), (rs_unwrap, ["plain", "chain", "nested_arg"]), (rs_clone, ["plain", "multiline", "let"]),
            (rs_blocking, ["plain", "multiline"]), (rs_magic, ["plain"]), (rs_srp, ["plain"]), (rs_filler, ["plain"]), (rs_test, ["fn", "module"]),
            (rs_zoo, ["traits", "lifetimes", "match", "macros", "tokio"])]

UNITS = {"py": PY_UNITS, "ts": TS_UNITS, "rs": RS_UNITS}
ZOO = {"py": (py_zoo, ["match", "walrus", "async", "typing", "try"]), "ts": (ts_zoo, ["generics", "fluent", "async", "objects", "member_names"]), "rs": (rs_zoo, ["traits", "lifetimes", "match", "macros", "tokio"])}


def zoo_file(lang: str):
    """every language-feature unit of one language in one file"""
    import random
    ids, out = Ids("zoo"), (["import os", ""] if lang == "py" else [])
    fn, styles = ZOO[lang]
    for st in styles:
        out += fn(random.Random(0), ids, st).lines + [""]
    return "\n".join(out) + "\n"
COMMENT = {"py": "# ", "ts": "// ", "rs": "// "}
WRAP = {"py": ("if FEATURE_{id}:", None, "    "), "ts": ("namespace Space{id} {{", "}", "  "), "rs": ("mod space_{id} {{", "}", "    ")}


def dup_block(lang, tag, rng, interleave, fid=""):
    """a duplicated region (same text in two files) — `interleave` adds blank / comment lines inside one copy"""
    if lang == "py":
        head = [f"def shared_{tag}_{fid}(items, channel, storage):"]
        body = ["    total = compute_total(items)", "    average = total / max(len(items), 1)", "    report = build_report(total, average)", "    publish(report, channel)",
                "    archive(report, storage)", "    notify_owner(report)", "    finalize_run(report, total)"]
        tail = [f"    return close_{fid}(report)", ""]
        comment = "    # interleaved note"
    elif lang == "ts":
        head = [f"function shared{tag}{fid}(items: number[], channel: string, storage: string): void {{"]
        body = ["  const total = computeTotal(items);", "  const average = total / Math.max(items.length, 1);", "  const report = buildReport(total, average);",
                "  publish(report, channel);", "  archive(report, storage);", "  notifyOwner(report);", "  finalizeRun(report, total);"]
        tail = [f"  close{fid}(report);", "}"]
        comment = "  // interleaved note"
    else:
        return None
    lines, first = list(head), None
    for i, b in enumerate(body):
        if interleave and i in (2, 4) and rng.random() < 0.8:
            lines.append(rng.choice(["", comment]))
        if first is None:
            first = len(lines)
        lines.append(b)
    return Unit(lines + tail, [(first, "dry", "", "dry")], f"{lang}_dup")


def gen_file(rng, lang: str, fid: str, n_units=None, dup_tags=(), layout=True):
    """returns (text, plants, meta).  Layout: leading lines, blank / comment lines between units, wrapped (indented) units,
    CRLF or LF, with or without final newline."""
    ids = Ids(fid)
    units = []
    for _ in range(n_units or rng.randint(3, 7)):
        fn, styles = rng.choice(UNITS[lang])
        units.append(fn(rng, ids, rng.choice(styles)))
    for tag, interleave in dup_tags:
        u = dup_block(lang, tag, rng, interleave, fid)
        if u:
            units.insert(rng.randint(0, len(units)), u)
    out, plants = [], []
    if lang == "py":
        out += ['"""Module docstring', "spanning lines.", '"""', "import os", "from typing import (", "    Any,", "    Optional,", ")", ""]
    elif lang == "rs":
        out += ["use std::fs;", ""]
    if layout:
        for _ in range(rng.choice([0, 0, 1, 3])):
            out.append(rng.choice(["", COMMENT[lang] + "préambule ünïcode"]))
    for u in units:
        lines, indent = list(u.lines), ""
        wrap = layout and rng.random() < 0.2 and not (lang == "py" and u.kind.startswith("py_filler"))
        if wrap:
            open_, close_, indent = WRAP[lang]
            out.append(open_.format(id=ids.next()))
        base = len(out)
        for ln in lines:
            out.append((indent + ln) if ln else ln)
        for rel, rule, token, kind in u.plants:
            plants.append(Plant(rule, token, base + rel + 1, kind))
        if wrap and close_:
            out.append(close_)
        if layout:
            for _ in range(rng.choice([1, 1, 2, 3])):
                r = rng.random()
                # (8%: characters that str.splitlines() takes for line ends and nothing else does - a form-feed page break, a
                #  comment holding LINE SEPARATOR / NEL / FILE SEPARATOR)
                out.append("" if r < 0.74 else COMMENT[lang] + "separator" if r < 0.92 else
                           rng.choice(["\x0c", COMMENT[lang] + "page\u2028break", COMMENT[lang] + "next\x85line", COMMENT[lang] + "file\x1csep"]))
        else:
            out.append("")
    eol = "\r\n" if layout and rng.random() < 0.2 else "\n"
    text = eol.join(out)
    final_newline = not layout or rng.random() < 0.75
    if final_newline:
        text += eol
    return text, plants, {"eol": "crlf" if eol == "\r\n" else "lf", "final_newline": final_newline, "kinds": [u.kind for u in units]}


def gen_file_all(rng, lang: str, fid: str, reps: int = 3) -> str:
    """every unit kind of the language `reps` times, in shuffled order, plain layout: a file in which each linter has several
    findings spread over the file"""
    ids = Ids(fid)
    kinds = [k for k in UNITS[lang] for _ in range(reps)]
    rng.shuffle(kinds)
    out = []
    if lang == "py":
        out += ['"""Module docstring."""', "import os", ""]
    elif lang == "rs":
        out += ["use std::fs;", ""]
    for fn, styles in kinds:
        out += list(fn(rng, ids, rng.choice(styles)).lines) + [""]
    return "\n".join(out) + "\n"
