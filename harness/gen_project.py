"""Generated multi-language projects with planted per-file and cross-file findings
(shared by the C07 / C08 / C09 / C10 correspondence checks)."""
from __future__ import annotations

from pathlib import Path

DUP_BLOCKS = {
    "py": [
        ["    total = compute_total(items)", "    average = total / max(len(items), 1)", "    report = build_report(total, average)",
         "    publish(report, channel)", "    archive(report, storage)", "    notify_owner(report)"],
        ["    conn = open_connection(host)", "    cursor = conn.cursor()", "    cursor.execute(query)", "    rows = cursor.fetchall()",
         "    conn.close()", "    audit(rows)"],
    ],
    "ts": [
        ["  const total = computeTotal(items);", "  const average = total / Math.max(items.length, 1);",
         "  const report = buildReport(total, average);", "  publish(report, channel);", "  archive(report, storage);", "  notifyOwner(report);"],
    ],
}


def py_file(rng, k: int, dup: int | None) -> str:
    lines = [f'"""module {k}"""', ""]
    for j in range(rng.choice([1, 1, 2, 3])):
        lines.append(f"def fn_{k}_{j}(a, items):")
        if rng.random() < 0.4:
            lines += ["    if a:", "        for i in items:", "            while a:", "                if i:",
                      "                    with open(i) as f:", f"                        return {rng.randint(100, 999)}"]
        if rng.random() < 0.4:
            lines.append(f'    print("step {k} {j}")')
        for _ in range(rng.choice([0, 1, 2])):
            lines.append(f"    a = a + {rng.randint(100, 9999)}")
        if rng.random() < 0.5:      # stringly-typed evidence: one function called with a few distinct literals across files
            lines.append(f'    configure_mode("{rng.choice(["alpha", "beta", "gamma", "delta"])}")')
            if rng.random() < 0.5:
                lines.append(f'    configure_mode("{rng.choice(["alpha", "beta", "gamma", "delta"])}")')
        lines.append("    return a")
        lines.append("")
    if dup is not None:
        lines.append(f"def shared_{k}(items, channel, storage, host, query):")
        if rng.random() < 0.3:
            lines.append("    # dry: ignore-block")
        lines += DUP_BLOCKS["py"][dup % len(DUP_BLOCKS["py"])]
        lines.append("    return None")
        lines.append("")
    return "\n".join(lines)


def ts_file(rng, k: int, dup: int | None) -> str:
    lines = []
    for j in range(rng.choice([1, 2])):
        lines.append(f"function fn_{k}_{j}(a: number, items: number[]) {{")
        if rng.random() < 0.4:
            lines += ["  if (a) {", "    for (const i of items) {", "      while (a) {", "        if (i) {",
                      f"          return {rng.randint(100, 999)};", "        }", "      }", "    }", "  }"]
        if rng.random() < 0.4:
            lines.append(f'  console.log("step {k} {j}");')
        for _ in range(rng.choice([0, 1, 2])):
            lines.append(f"  a = a + {rng.randint(100, 9999)};")
        lines.append("  return a;")
        lines.append("}")
        lines.append("")
    if dup is not None:
        lines.append(f"function shared_{k}(items: number[], channel: string, storage: string) {{")
        lines += DUP_BLOCKS["ts"][0]
        lines.append("  return null;")
        lines.append("}")
        lines.append("")
    return "\n".join(lines)


def rs_file(rng, k: int) -> str:
    lines = []
    for j in range(rng.choice([1, 2])):
        lines.append(f"fn fn_{k}_{j}(a: i32, items: Vec<String>) -> i32 {{")
        if rng.random() < 0.5:
            lines.append("    let first = items.get(0).unwrap();")
        if rng.random() < 0.4:
            lines += ["    if a > 0 {", "        for s in items.iter() {", "            while a > 1 {", "                if a > 2 {",
                      "                    loop {", f"                        return {rng.randint(100, 999)};", "                    }",
                      "                }", "            }", "        }", "    }"]
        for _ in range(rng.choice([0, 1, 2])):
            lines.append(f"    let _v{_} = a + {rng.randint(100, 9999)};")
        lines.append("    a")
        lines.append("}")
        lines.append("")
    return "\n".join(lines)


def gen_project(rng, n_files: int, dup_share: float = 0.35, dirs=("", "pkg_a", "pkg_b", "pkg_c/inner")) -> list[tuple[str, str]]:
    """list of (relative path, text); several directories reuse the same base names"""
    files, used = [], set()
    k = 0
    while len(files) < n_files:
        lang = rng.choice(["py", "py", "py", "ts", "ts", "rs"])
        d = rng.choice(dirs)
        base = rng.choice(["mod", "util", "index", "lib", "handlers", f"m{k}"])
        rel = (d + "/" if d else "") + f"{base}.{lang}"
        k += 1
        if rel in used:
            continue
        used.add(rel)
        dup = rng.randint(0, 1) if rng.random() < dup_share else None
        text = py_file(rng, k, dup) if lang == "py" else ts_file(rng, k, dup) if lang == "ts" else rs_file(rng, k)
        files.append((rel, text))
    if rng.random() < 0.6:
        # extensionless files: language decided per file (python shebang or unknown), in whatever order they are met
        extra = [("LICENSE", "Permission is hereby granted, free of charge (4242 times)\n" * 3),
                 ("deploy", "#!/usr/bin/env python3\n" + py_file(rng, 9000 + k, None)),
                 ("AUTHORS", "Jane Doe <jane@example.org> 1999\n"),
                 ("zz_tool", "#!/usr/bin/python\n" + py_file(rng, 9100 + k, None))]
        rng.shuffle(extra)
        for rel, text in extra[: rng.choice([2, 3, 4])]:
            d = rng.choice(dirs)
            rel = (d + "/" if d else "") + rel
            if rel not in used:
                used.add(rel)
                files.append((rel, text))
    return files


def write_project(root: Path, files, config_text: str | None) -> None:
    root.mkdir(parents=True, exist_ok=True)
    for rel, text in files:
        p = root / rel
        p.parent.mkdir(parents=True, exist_ok=True)
        p.write_text(text)
    if config_text is not None:
        (root / ".thailint.yaml").write_text(config_text)


DEFAULT_CFG = "dry:\n  enabled: true\n  min_duplicate_lines: 4\nstringly-typed:\n  enabled: true\n"
