"""Generated multi-language projects with planted per-file and cross-file findings
(shared by the C07 / C08 / C09 / C10 correspondence checks)."""
from __future__ import annotations

from pathlib import Path

DUP_BLOCKS = {
    "py": [
        ["    total = compute_total(items)", "    average = total / max(len(items), 1)", "    report = build_report(total, average)",
         "    publish(report, channel)", "    archive(report, storage)", "    notify_owner(report)"],
        ["    conn = open_connection(host)", "    cursor = conn.cursor()", "    cursor.execute(query)", "    rows = cursor.fetchall()",
         "    conn.close()", "    audit(rows)"],
    ],
    "ts": [
        ["  const total = computeTotal(items);", "  const average = total / Math.max(items.length, 1);",
         "  const report = buildReport(total, average);", "  publish(report, channel);", "  archive(report, storage);", "  notifyOwner(report);"],
    ],
}


def py_file(rng, k: int, dup: int | None) -> str:
    lines = [f'"""module {k}"""', ""]
    for j in range(rng.choice([1, 1, 2, 3])):
        lines.append(f"def fn_{k}_{j}(a, items):")
        if rng.random() < 0.4:
            lines += ["    if a:", "        for i in items:", "            while a:", "                if i:",
                      "                    with open(i) as f:", f"                        return {rng.randint(100, 999)}"]
        if rng.random() < 0.4:
            lines.append(f'    print("step {k} {j}")')
        for _ in range(rng.choice([0, 1, 2])):
            lines.append(f"    a = a + {rng.randint(100, 9999)}")
        if rng.random() < 0.5:      # stringly-typed evidence: one function called with a few distinct literals across files
            lines.append(f'    configure_mode("{rng.choice(["alpha", "beta", "gamma", "delta"])}")')
            if rng.random() < 0.5:
                lines.append(f'    configure_mode("{rng.choice(["alpha", "beta", "gamma", "delta"])}")')
        lines.append("    return a")
        lines.append("")
    if rng.random() < 0.4:      # a class with a few methods: srp / stateless-class / method-property have something to judge
        n_m = rng.choice([3, 4, 5, 8])
        lines.append(f"class Box{k}:")
        lines += ["    def __init__(self):", "        self.items = []", ""]
        for j in range(n_m):
            lines += [f"    def step_{j}(self, x):", f"        self.items.append(x + {j})", "        return self", ""]
    if dup is not None:
        lines.append(f"def shared_{k}(items, channel, storage, host, query):")
        if rng.random() < 0.3:
            lines.append("    # dry: ignore-block")
        lines += DUP_BLOCKS["py"][dup % len(DUP_BLOCKS["py"])]
        lines.append("    return None")
        lines.append("")
    return "\n".join(lines)


def ts_file(rng, k: int, dup: int | None) -> str:
    lines = []
    for j in range(rng.choice([1, 2])):
        lines.append(f"function fn_{k}_{j}(a: number, items: number[]) {{")
        if rng.random() < 0.4:
            lines += ["  if (a) {", "    for (const i of items) {", "      while (a) {", "        if (i) {",
                      f"          return {rng.randint(100, 999)};", "        }", "      }", "    }", "  }"]
        if rng.random() < 0.4:
            lines.append(f'  console.log("step {k} {j}");')
        for _ in range(rng.choice([0, 1, 2])):
            lines.append(f"  a = a + {rng.randint(100, 9999)};")
        lines.append("  return a;")
        lines.append("}")
        lines.append("")
    if rng.random() < 0.4:
        n_m = rng.choice([3, 4, 5, 8])
        lines.append(f"class Box{k} {{")
        lines += ["  items: number[] = [];"]
        for j in range(n_m):
            lines += [f"  step{j}(x: number) {{", f"    this.items.push(x + {j});", "    return this;", "  }"]
        lines += ["}", ""]
    if dup is not None:
        lines.append(f"function shared_{k}(items: number[], channel: string, storage: string) {{")
        lines += DUP_BLOCKS["ts"][0]
        lines.append("  return null;")
        lines.append("}")
        lines.append("")
    return "\n".join(lines)


def rs_file(rng, k: int) -> str:
    lines = []
    for j in range(rng.choice([1, 2])):
        lines.append(f"fn fn_{k}_{j}(a: i32, items: Vec<String>) -> i32 {{")
        if rng.random() < 0.5:
            lines.append("    let first = items.get(0).unwrap();")
        if rng.random() < 0.4:
            lines += ["    if a > 0 {", "        for s in items.iter() {", "            while a > 1 {", "                if a > 2 {",
                      "                    loop {", f"                        return {rng.randint(100, 999)};", "                    }",
                      "                }", "            }", "        }", "    }"]
        for _ in range(rng.choice([0, 1, 2])):
            lines.append(f"    let _v{_} = a + {rng.randint(100, 9999)};")
        lines.append("    a")
        lines.append("}")
        lines.append("")
    if rng.random() < 0.4:
        n_m = rng.choice([3, 4, 5, 8])
        lines += [f"struct Box{k} {{", "    items: Vec<i32>,", "}", "", f"impl Box{k} {{"]
        for j in range(n_m):
            lines += [f"    pub fn step_{j}(&mut self, x: i32) -> i32 {{", f"        self.items.push(x + {j});", "        x", "    }"]
        lines += ["}", ""]
    return "\n".join(lines)


def gen_project(rng, n_files: int, dup_share: float = 0.35, dirs=("", "pkg_a", "pkg_b", "pkg_c/inner")) -> list[tuple[str, str]]:
    """list of (relative path, text); several directories reuse the same base names"""
    files, used = [], set()
    k = 0
    while len(files) < n_files:
        lang = rng.choice(["py", "py", "py", "ts", "ts", "rs"])
        d = rng.choice(dirs)
        base = rng.choice(["mod", "util", "index", "lib", "handlers", f"m{k}"])
        rel = (d + "/" if d else "") + f"{base}.{lang}"
        k += 1
        if rel in used:
            continue
        used.add(rel)
        dup = rng.randint(0, 1) if rng.random() < dup_share else None
        text = py_file(rng, k, dup) if lang == "py" else ts_file(rng, k, dup) if lang == "ts" else rs_file(rng, k)
        files.append((rel, text))
    if rng.random() < 0.6:
        for rel, text in bait_files(rng, dirs, 7000 + k):
            if rel not in used:
                used.add(rel)
                files.append((rel, text))
    if rng.random() < 0.3 and any(dirs[1:]):
        # a .thailintignore below the project root is just a file: only the root's one is the repository ignore list
        rel = rng.choice([d for d in dirs if d]) + "/.thailintignore"
        if rel not in used:
            used.add(rel)
            files.append((rel, "*.py\n*.ts\n*.rs\n"))
    if rng.random() < 0.6:
        # extensionless files: language decided per file (python shebang or unknown), in whatever order they are met
        extra = [("LICENSE", "Permission is hereby granted, free of charge (4242 times)\n" * 3),
                 ("deploy", "#!/usr/bin/env python3\n" + py_file(rng, 9000 + k, None)),
                 ("AUTHORS", "Jane Doe <jane@example.org> 1999\n"),
                 ("zz_tool", "#!/usr/bin/python\n" + py_file(rng, 9100 + k, None))]
        rng.shuffle(extra)
        for rel, text in extra[: rng.choice([2, 3, 4])]:
            d = rng.choice(dirs)
            rel = (d + "/" if d else "") + rel
            if rel not in used:
                used.add(rel)
                files.append((rel, text))
    return files


# Pairs of files in which a name means one thing in the first file and another in the second: an analyzer that keeps
# what it learned from one file (aliases, imported names, variable kinds, "this is a definitions module") when it moves on to the
# next reports the second file differently depending on what was linted before it.
BAITS = {
    "regex-names": ("py", [
        "import re as regex", "from re import search, match", "", "", "def scan_{k}(items):", "    out = []", "    for it in items:",
        "        if search('a+', it) or regex.match('b', it):", "            out.append(it)", "    return out", ""], [
        "import regex", "", "", "def search(pattern, text):", "    return pattern in text", "", "", "def match(pattern, text):",
        "    return text.startswith(pattern)", "", "", "def scan_{k}(items):", "    out = []", "    for it in items:",
        "        if search('a', it) or match('b', it) or regex.match('c', it):", "            out.append(it)", "    return out", ""]),
    "string-kinds": ("py", [
        "def render_{k}(items):", "    result = ''", "    label = ''", "    for it in items:", "        result += str(it)", "        label += '.'",
        "    return result + label", ""], [
        "def total_{k}(items):", "    result = 0", "    label = 0", "    for it in items:", "        result += it", "        label += 1",
        "    return result + label", ""]),
    "definitions-module": ("py", ["ALPHA_{k} = 101", "BETA_{k} = 102", "GAMMA_{k} = 103", "DELTA_{k} = 104", "EPSILON_{k} = 105", "ZETA_{k} = 106",
                                  "ETA_{k} = 107", "THETA_{k} = 108", "IOTA_{k} = 109", "KAPPA_{k} = 110", "LAMBDA_{k} = 111", "", "",
                                  "def pick_{k}(a):", "    return a + 4321", ""],
                           ["LIMIT_{k} = 201", "", "", "def pick_{k}(a):", "    return a + 1234", ""]),
    "class-state": ("py", [
        "class Shared:", "    def __init__(self):", "        self.items = []", "", "    def add(self, x):", "        self.items.append(x)", "",
        "    def size(self):", "        return len(self.items)", ""], [
        "class Shared:", "    def add(self, x):", "        return x + 1", "", "    def size(self, x):", "        return x * 2", ""]),
    "rust-imports": ("rs", [
        "use tokio::fs;", "use tokio::time::sleep;", "", "async fn load_{k}(p: &str) {{", "    let _a = fs::read_to_string(p).await;", "}}", ""], [
        "use std::fs;", "", "async fn load_{k}(p: &str) {{", "    let _a = fs::read_to_string(p);", "}}", ""]),
    "ts-string-kinds": ("ts", [
        "function render_{k}(items: number[]) {{", "  let acc = \"\";", "  let tally = \"\";", "  for (const it of items) {{", "    acc += String(it);", "    tally += \".\";", "  }}",
        "  return acc + tally;", "}}", ""], [
        "function total_{k}(items: number[]) {{", "  let acc = 0;", "  let tally = 0;", "  for (const it of items) {{", "    acc += it;", "    tally += 1;", "  }}",
        "  return acc + tally;", "}}", ""]),
    "ts-consts": ("ts", [
        "const RETRIES = 7;", "const backoff_{k} = 1234;", "function wait_{k}(a: number) {{", "  return a + 4321;", "}}", ""], [
        "let RETRIES = 0;", "function wait_{k}(a: number) {{", "  RETRIES = a + 5678;", "  return RETRIES;", "}}", ""]),
}


def bait_files(rng, dirs, k0: int) -> list[tuple[str, str]]:
    out = []
    for n, kind in enumerate(rng.sample(sorted(BAITS), rng.choice([2, 3, 4]))):
        ext, first, second = BAITS[kind]
        d = rng.choice(dirs)
        pre = (d + "/" if d else "")
        # both traversal orders: the file that teaches the names sorts before and after the file that reuses them
        for j, (a, b) in enumerate((("aa_first", "zz_second"), ("zz_first", "aa_second"))):
            k = k0 + 2 * n + j
            out.append((f"{pre}{a}_{k}.{ext}", "\n".join(first).format(k=k)))
            out.append((f"{pre}{b}_{k}.{ext}", "\n".join(second).format(k=k)))
    return out


def write_project(root: Path, files, config_text: str | None) -> None:
    root.mkdir(parents=True, exist_ok=True)
    for rel, text in files:
        p = root / rel
        p.parent.mkdir(parents=True, exist_ok=True)
        p.write_text(text)
    if config_text is not None:
        (root / ".thailint.yaml").write_text(config_text)


DEFAULT_CFG = "dry:\n  enabled: true\n  min_duplicate_lines: 4\nstringly-typed:\n  enabled: true\n"


# Sections with a sub-section for one language only: files of the other languages must keep the section's own values whatever was
# linted before them (a configuration object that is updated in place while a run walks through files of several languages shows
# up as an order dependence)
LANG_CFGS = [
    "",
    "nesting:\n  max_nesting_depth: 2\n  python:\n    max_nesting_depth: 6\n",
    "nesting:\n  max_nesting_depth: 6\n  typescript:\n    max_nesting_depth: 2\n  rust:\n    max_nesting_depth: 3\n",
    "srp:\n  max_methods: 2\n  typescript:\n    max_methods: 9\n",
    "srp:\n  max_methods: 6\n  python:\n    max_methods: 2\n  rust:\n    max_methods: 3\n",
    "magic-numbers:\n  allowed_numbers: [0, 1]\n  python:\n    allowed_numbers: [0, 1, 2, 100, 101, 102, 103]\n    max_small_integer: 3\n",
    "nesting:\n  max_nesting_depth: 3\n  rust:\n    max_nesting_depth: 7\nmagic-numbers:\n  max_small_integer: 2\n  typescript:\n    allowed_numbers: []\n",
]


def lang_cfg(rng) -> str:
    return rng.choice(LANG_CFGS)
