#!/usr/bin/env python3
"""Regenerates /verif/MANIFEST.json from the table below (kept in one place so that the manifest is
always valid and current).  Run:  python3 harness/mkmanifest.py"""
import json
from pathlib import Path

VERIF = Path(__file__).resolve().parent.parent

# property id -> (claimed?, level text, level note, technique, design ref)
CLAIMS = {
    "C01": dict(
        text=("Kernel-checked theorems: for every control skeleton of the language family the TypeScript/JavaScript and "
              "Rust analyzers compute exactly the documented depth, the Python analyzer computes it minus one for every skeleton "
              "(known finding F01a, pinned by the suite; F01b, the double count of `match`, was repaired), the verdict is a threshold that flips at exactly one limit, wrapping "
              "raises depth by one; node-type tables are regenerated from /repo on every run and the model is run "
              "against the real linter (parse shapes, per-function depth, every limit, CLI) on generated files: plain / method / arrow / "
              "async / function-expression / generator forms, also declared under compound statements, namespaces, modules, inner classes "
              "and traits, with blank and comment lines in front of clauses."),
        note=("Trusted: Lean kernel; CPython ast and tree-sitter parsers (shape compared on each generated file); "
              "harness and T1 extractor. Theorems range over skeleton families (no control flow inside expressions)."),
        technique="Lean 4 proof by mutual structural induction over an executable model + differential correspondence check",
        ref="DESIGN.md §3 C01"),
    "C11": dict(
        text=("Kernel-checked theorems about the orchestrator's failure-isolation state machine, for every list of files and every behaviour of "
              "every rule (returns violations or raises an exception of some class): a contained file only adds its own violations and failure "
              "records to the run, the results for the files before and after it are those of the run without it (siblings_unaffected, "
              "without_file); the run exits 0/1 exactly when every file is contained, i.e. language detection succeeds and no rule raises a "
              "non-Unicode ValueError (exit_ok_iff_contained, lintFile_ok_iff); an empty failure log is equivalent to every rule having "
              "returned normally on every file it ran on (empty_log_iff_healthy); parallel mode reports the same on contained files "
              "(parallel_matches_sequential) and does not depend on the workers' completion order (parallel_order_independent); language detection is the one step outside the per-rule isolation (detection_is_not_isolated). "
              "Tied to /repo by fuzzing with the guarded failure tap H1: 27 kinds of offending file (raw damage, grammar-aware mutations, "
              "nesting / length blow-up, odd languages, every line-prefix of a valid file) among healthy files, two of 16 linter commands per "
              "case as subprocesses with a time limit; exit code, timeouts, the tap's log and the siblings' findings are judged against the "
              "specification, and the Lean model executed on the observed behaviours must predict exit code, violations and failure records. "
              "Three genuine defects recorded as known findings (F11a huge integer literal exits 2, F11b lone surrogates, F11c RecursionError "
              "on deep or long expressions)."),
        note=("that no rule raises on a given input is a fact about tree-sitter, ast and the analyzers: it is outside the theorems and only sampled "
              "by the fuzzing; hangs are observed through a 25 s limit per command; cross-file rules (dry, stringly-typed) are excluded from the "
              "sibling comparison because an offending file's own content legitimately takes part in them."),
        technique="Lean 4 proof (induction over file and rule lists, behaviours as parameters) + fuzzing correspondence through the failure tap",
        ref="DESIGN.md §3 C11"),
    "C12": dict(
        text=("Kernel-checked theorems about the coordinate arithmetic every violation goes through, for every text over any alphabet with a "
              "newline symbol (bytes or code points; with or without final newline; any line endings) and every offset: a node that starts on "
              "a character is published with 1 <= line <= number of lines and a column that indexes exactly that character in that line "
              "(reported_valid, point_char, point_row_lt), offsets and positions determine each other (offset_of_point), splitting into lines "
              "loses nothing (join_split, split_lines_clean, split_length), the line splitter of the code base (split_lines: LF, CRLF, CR and nothing "
              "else) agrees with it and a character that is no line end never changes the number of lines (splitRaw_no_cr, "
              "insert_keeps_line_count; compared with src.core.constants.split_lines on generated texts); and about DRY's "
              "original-line tracking for every normaliser/filter and window size: tracked numbers are valid, strictly increasing and survive "
              "the filter (tokenize_valid, tokenize_increasing), every window runs from the original number of its first kept line to that of its "
              "last and carries exactly those lines (windows_spec, dry_start_is_first_kept_line). Tied to /repo by linting generated py/ts/rs "
              "files of planted constructs with 16 linter commands: every violation's position is checked through the Lean model on the file's "
              "bytes, quoted names/literals must occur on the reported line, every planted construct must be reported at exactly its anchor "
              "line (def/function/fn header under decorators and multi-line signatures, class/struct header, literal inside multi-line calls, "
              "call of multi-line chains, first line of a duplicated block), and every Python dry line and `file:S-E` range must be a window "
              "of the Lean tracking model fed with the implementation's own normaliser. One genuine defect repaired (file-header column)."),
        note=("which syntax node a rule anchors on, and tree-sitter / ast positions themselves, are outside the theorems and covered only by the "
              "correspondence check on planted constructs; columns are checked for being inside the line (in bytes), not for pointing at the "
              "construct, because the rules follow different column conventions."),
        technique="Lean 4 proof (structural induction over texts and line lists, parametric in alphabet / filter / window size) + differential and anchor checks on planted constructs",
        ref="DESIGN.md §3 C12"),
    "C13": dict(
        text=("Kernel-checked theorems about the text-based steps of the linters (the only places where layout can reach a verdict), for every "
              "text, edit position, stateful normaliser and window size: inserting a line the tokenizer drops moves every tracked line below "
              "it by one and changes nothing else (tokenize_insert), so DRY sees the same snippets with shifted ends (dry_windows_insert, "
              "windows_renumber); count_loc is blind to inserted blank/comment lines, trailing white space, CR line ends and re-indentation "
              "(countLoc_insert, countLoc_layout with strip_trailing_ws / strip_leading_ws, blank_is_not_code); normalize_line is blind to "
              "trailing white space and indentation, and blank or comment-only lines are noise wherever indented (normalize_trailing_ws, "
              "normalize_leading_ws, blank_is_noise, comment_is_noise); the old line's text is found at "
              "its shifted position and several insertions move a line by the number inserted at or above it (insertAt_get, shiftMany_ge). "
              "Two genuine defects repaired (TypeScript class size counted raw lines; a BOM broke every Python rule). Tied to /repo by a "
              "metamorphic run: generated py/ts/rs projects are linted with 15 commands before and after random sequences of meaning-preserving "
              "edits (blank / comment lines, trailing white space, re-indentation, LF<->CRLF, BOM, appended code, project-wide renames of locals) "
              "and the second result must equal the first with every line — also the S-E ranges quoted by duplicate-code messages — mapped by the "
              "Lean shift; normalize_line and the count_loc line filter of the implementation are compared with the Lean functions on every "
              "line, and every inserted line must be noise for the model."),
        note=("layout-insensitivity of the tree-based analyses (tree-sitter, ast) is assumed and only sampled by the metamorphic run; the size stated "
              "in a duplicate-code message is the raw span of the block and follows its S-E range, so it is compared through the mapped range; "
              "renames are applied project-wide because DRY compares tokens across files; edits stay below the generated preamble (module docstring, "
              "imports), as the property allows for header-sensitive linters."),
        technique="Lean 4 proof (induction over line lists, parametric normaliser) + metamorphic differential check + line-by-line correspondence of the text-based steps",
        ref="DESIGN.md §3 C13"),
    "C14": dict(
        text=("Kernel-checked theorems: for every directory tree, recursive or not, from the root or a sub-directory, the "
              "walk collects exactly the files not below an always-excluded directory and not compiled artefacts "
              "(pruning = filtering, at every depth); every documented ignore-pattern form (name/, **/name/, *.ext, exact "
              "path, glob on a directory name, dir/sub/, **/name) is matched exactly as gitignore reads it (fnmatch re-stated in Lean, lemmas about * / literals); hence "
              "linted set = specified set (linted_eq_spec, no side conditions beyond well-formed names); a run with several targets lints the "
              "union of what each contributes, every file once, direct children only under --no-recursive (mem_lintedTargets, "
              "lintedTargets_nodup, nonrecursive_direct_children). Tables regenerated "
              "from /repo; model compared with the real CLI on generated trees through a deny-everything file-placement probe. "
              "Genuine defects found by the model were repaired in /repo (fix: commits a1ae4e9, bd0e3d3, ce97ca4, 9e3f507)."),
        note=("Trusted: Lean kernel; os.walk, fnmatch and pathlib are re-stated in Lean and only sampled against the real "
              "ones; patterns outside the documented forms ([seq] classes, negation) are not covered; symlinks only as a spelling of the target (C09)."),
        technique="Lean 4 proof (mutual structural induction over trees, list/glob lemmas) + differential correspondence check",
        ref="DESIGN.md §3 C14"),
    "C15": dict(
        text=("Kernel-decided theorems over tables regenerated from /repo on every run: for every linter command and every rule "
              "id the code base can emit, the command's filter passes the id iff the id belongs to that linter "
              "(command_filter_exact), commands are disjoint, the source-extracted filter predicate reproduces the behaviour "
              "observed by probing the real CLI with synthetic violations (filter_model_matches_behaviour); language detection is "
              "case-insensitive (proved for all suffixes), every mapped extension is recognised in any letter case, unknown types "
              "dispatch no checker. The CLI matrix (24 file-name variants x 3 content languages x 20 commands + config "
              "perturbations) checks own-rules-only, filter = restriction of the unfiltered run, language guards, case "
              "insensitivity and irrelevance of other linters' sections on the real tool."),
        note=("Ownership and supported-language tables are my reading of the docs (Lean `ownership`, `supported`). Individual rules' "
              "language guards are observed through the matrix, not modelled one by one. str.lower() modelled for ASCII."),
        technique="Lean 4 `decide +kernel` over regenerated finite tables + proofs about the detector model + exhaustive CLI matrix",
        ref="DESIGN.md §3 C15"),
    "C07": dict(
        text=("Kernel-checked theorems about the orchestrator state machine, for all rule plug-ins, file lists (repeated entries included), "
              "worker counts, completion orders and prior states of the object: the parallel run is a permutation of the sequential "
              "run - per-file and cross-file findings alike (parallel_eq_sequential) - with the same exit code and the same state left "
              "behind; below the threshold the parallel entry point is the sequential one; to_dict/from_dict round-trips every "
              "field, is injective, carries whole batches unchanged and rejects any other severity (the transfer-format model is itself run "
              "against Violation.to_dict/from_dict on produced, reordered, truncated and re-labelled records); the worker count is positive, "
              "bounded by the default and the CPU count, and an explicit --max-workers is taken as given. The pre-repair pooled branch (finding F07a, repaired by b158f57) is kept as lintFilesParallelOld with its witness. "
              "The model is run on the per-file and finalize results observed on the real tool and must give the multiset of the real "
              "pooled run for forced completion orders; CLI sequential vs --parallel compared field by field."),
        note=("Real OS scheduling, pickling and process start-up are sampled, not modelled; completion orders are forced after all "
              "futures finished."),
        technique="Lean 4 proof (list permutation lemmas over a parametric state-machine model) + differential runs through the real process pool",
        ref="DESIGN.md §3 C07"),
    "C08": dict(
        text=("Kernel-checked theorems about a long-lived Linter/Orchestrator as a state machine over an abstract file system, for all "
              "rule plug-ins and all histories of lint calls, edits, deletions and creations: the cross-file stores are empty between "
              "finalizing calls (invariant), so the next call returns exactly what a fresh object returns on the files as they are now "
              "(next_call_as_fresh), repetition is stable, lint operations never write the file system, and the result multiset is "
              "invariant under any permutation of the file list given order-insensitive finalize. The history model is executed on "
              "fresh per-file/finalize tables observed from /repo and must reproduce the long-lived object's outputs step by step; "
              "permutations, PYTHONHASHSEED values and project/TMPDIR snapshots are checked on the real tool. A genuine defect (stale "
              "DRY evidence) was repaired (fix: fdb2cb6); the lint_file leak is a known finding (F08b). Analyzer objects that live as long "
              "as their rule are modelled as well (SRule): a rule whose verdict ignores what the analyzer remembered is history- and "
              "order-independent (forgetful_loop, forgetful_history_independent, forgetful_order_independent), a leaking analyzer is the "
              "decided counter-example; the generated projects carry bait pairs that exercise exactly this obligation on the real rules."),
        note=("Interpreter hash seeds, SQLite temp files, mtimes and the real file system are observed through subprocess runs, not "
              "modelled. finalize order-insensitivity is a hypothesis of order_independent (it is C03's theorem for DRY)."),
        technique="Lean 4 proof (invariant by induction over operation histories) + history/permutation/hash-seed/side-effect differential runs",
        ref="DESIGN.md §3 C08"),
    "C10": dict(
        text=("Kernel-checked theorems over the orchestrator model, for all rule plug-ins: a run's per-file part is the in-order union of "
              "what each file reports alone and the rest is finalize on exactly the run's files; for per-file rules a directory / a file "
              "list reports exactly the union; Linter.lint and the CLI coincide for single files and directories; several CLI targets "
              "are one pass over the de-duplicated union (_merge_targets loses no file, lints none twice, keeps first positions, is idempotent; "
              "a file named explicitly and inside a directory argument is reported once; repeated targets change nothing for any rule "
              "set); for every linter command and every rule id (regenerated tables) the CLI filter "
              "and Linter.lint(rules=[linter]) pass the same ids. Model predictions (directory, subsets, mixed arguments) are compared "
              "with the real tool on generated trees; CLI vs API compared field by field. Three genuine defects were repaired "
              "(fix: 16a9498, 6a05b5c, 5e895cf)."),
        note=("Rule plug-ins are parameters: absence of hidden per-file state in the real rules is sampled (directory run vs fresh "
              "per-file runs). Suggestions are not compared (the CLI's JSON does not print them)."),
        technique="Lean 4 proof (list lemmas over a parametric orchestrator model, decide over regenerated tables) + differential runs",
        ref="DESIGN.md §3 C10"),
    "C05": dict(
        text=("Kernel-checked theorems about a model of configuration plumbing, for every set of carriers, documents, key spellings, "
              "command-line options and languages: the configuration in effect is the deciding carrier's document (--config, .thailint.yaml, "
              ".thailint.json, pyproject.toml) and the run exits 2 exactly when a consulted file is unparsable or --config is missing "
              "(load_meets_spec, exit2_iff_broken), every carrier gives the same configuration (carrier_independent), hyphen and underscore "
              "spellings are interchangeable and normalising is stable (spelling_independent, section_found_either_spelling, "
              "normalize_idempotent), a command-line threshold beats the file "
              "including every per-language override (cli_wins), overrides apply option by option (override_order), non-positive limits and "
              "unparsable files exit 2 (invalid_limit_exit2, unparsable_exit2), the ignore list counts from every carrier, and the three "
              "threshold shapes are monotone as sub-lists (upper/lower_limit_monotone, allow_list_monotone). Thirteen genuine defects repaired, "
              "the last recorded one (lazy-ignores never read its section) since repaired. Tied to /repo by running the real CLI for all 17 documented sections: "
              "result equal to the library run with the section the model resolves (per language), plus absolute checks per linter: "
              "enabled:false through 5 carriers x 2 spellings, threshold sweeps effective, monotone and carrier-independent, command-line "
              "option vs file, invalid values and unparsable files exit 2, top-level ignore through every carrier."),
        note=("YAML/JSON/TOML parsers are trusted; how each linter uses its resolved options is covered by the reference run and the absolute "
              "checks on designed trigger files, not by theorems (the per-linter decision logic is the subject of C01/C16/C17/C18); monotonicity "
              "for dry is compared per file by count because window positions move with the window size."),
        technique="Lean 4 proof (exhaustive case analysis over carriers, induction over option lists) + differential check against the library API + absolute per-linter checks",
        ref="DESIGN.md §3 C05"),
    "C06": dict(
        text=("Kernel-checked theorems about the renderers and the exit status, for every list of violations: exit 0/1/2 iff "
              "none / some / run-not-performed; the JSON document parses back to exactly the violations and total = their number; "
              "the SARIF document has one run whose results are exactly the violations with 1-based columns, every result's "
              "ruleId is declared, each rule once; the numbers printed after a path in text mode identify (line, column) exactly "
              "when not (line = 0 and column != 0); hence the three renderings describe the same list up to _sanitize_string. "
              "The model's documents are compared field by field with the real output of every command x format on awkward "
              "paths/messages, and 14 usage-error classes are run as real processes. One genuine defect repaired (fix: cf227a6)."),
        note=("json.dumps escaping, click option parsing and stream encoding are observed, not modelled; _sanitize_string is a "
              "parameter (checked: identity on surrogate-free text, output valid UTF-8). Text mode with a newline in a file name is "
              "not parseable and is skipped for the text comparison."),
        technique="Lean 4 proof (round-trip and invariant lemmas over abstract JSON) + exhaustive command x format differential runs",
        ref="DESIGN.md §3 C06"),
    "C09": dict(
        text=("Kernel-checked theorems about the path arithmetic of every exclusion / ignore / exemption site: built-in exclusion, "
              "the path handed to repository ignore patterns and path-string exemptions are functions of the path inside the project "
              "for every location of the project (hardExcluded_relocate, checkPath_relocate, markerHit_relocate), with a decided "
              "witness that a full-path substring test does depend on the location; every spelling of a location resolves to the same path "
              "(dot_is_neutral, name_dotdot_cancels, relative_eq_absolute, resolve_idempotent, spelling_does_not_change_decisions; the "
              "model's resolution, symbolic links included (walkSegsL, through_link), is compared with the operating system's on every spelling used). The modelled functions are run against /repo's "
              "(_directory_parts_in_project, _is_hardcoded_excluded, path_in_project) on generated (root, file) pairs, and the whole "
              "tool is run on one project under every excluded-directory name and test/ignore marker x 6 path spellings x every "
              "command (thorough: exhaustive, 3120 runs). Four genuine defects repaired (fix: bd0e3d3, 890ad2f, a20090b)."),
        note=("pathlib.resolve, os.walk and cwd handling are observed, not modelled; a parent directory literally named .git/.svn/.hg "
              "changes what the marker search calls the project root and is out of scope; user-configured per-linter ignore patterns "
              "(substring semantics) are not exercised here."),
        technique="Lean 4 proof (list prefix / suffix lemmas on component paths) + exhaustive relocation x spelling x command matrix",
        ref="DESIGN.md §3 C09"),
    "C02": dict(
        text=("Kernel-checked theorems over literal-site programs: in each language a literal is reported iff its value is not allowed "
              "and its position is not a documented exempt one (py/ts/rs_flag_eq_spec, for literals whose text is read as their "
              "value); allowing a value removes exactly the reports of that value, as a list law for every program (allowed_delta); "
              "raising max_small_integer never adds a report; unparsable literals are skipped; hexadecimal text is read as its base-16 "
              "value whatever its digits. Reading of literal text (Python's int(_, 0) / float re-stated) and the decision lists are "
              "executed by the Lean driver on every generated site and compared with the real CLI per line, including the delta law "
              "on the tool itself. The constants-definition-module exemption is modelled (definition_file_eq_spec over regenerated thresholds "
              "and name patterns, py_file_flag_eq_spec, small_dicts_never_exempt). Four genuine defects repaired (fix: 570cd14, 41e227d, "
              "aa276d1); F02e (legacy octal) recorded."),
        note=("CPython's literal evaluation and the tree-sitter grammars are trusted; suffix stripping and float reading are validated "
              "by sampling and decided examples, not proved for all texts; the facts a definition file is judged by (constant count, integer "
              "keys per dict) are computed by the generator, not by a model of the Python parser."),
        technique="Lean 4 proof (decision-list case analysis, list filter laws, digit-string lemmas) + per-site differential check",
        ref="DESIGN.md §3 C02"),
    "C03": dict(
        text=("Kernel-checked theorems about the DRY pipeline model on projects as token lists (original line, normalised text), for every "
              "project, window size and min_occurrences: every named location is a stored window with the same normalised text "
              "(refs_same_snippet), every violation is a real window and its count meets min_occurrences, the report only removes raw "
              "violations, no duplicated window text => no violation, both greedy passes are maximal (every input kept or overlapping a "
              "kept one), and - after the repair of the overlap test - every non-overlapping occurrence of every duplicated window is "
              "reported or starts inside a reported violation of its file (every_occurrence_covered: completeness and mutuality, no "
              "hypothesis about interleaved comments). The pipeline model is executed on the generator's token lists and compared with "
              "`thailint dry` on Python projects; an independent text oracle re-reads every reported/named range; coverage, mutuality and "
              "count are checked on the real output (TypeScript too). One genuine defect repaired (fix: 7307320)."),
        note=("hash() is modelled as collision-free (text oracle would expose a collision); single-statement detection and block filters "
              "are assumed identity on the Python statement pools; the TypeScript single-statement heuristics are not modelled (TS "
              "projects get the property oracles only); count = size of the greedy selection (maximal; optimality for equal-length "
              "windows is not proved); SQLite is trusted."),
        technique="Lean 4 proof (maximality / subset lemmas for the greedy passes, permutation of the sort) + pipeline differential check + text oracle",
        ref="DESIGN.md §3 C03"),
    "C04": dict(
        text=("Kernel-checked theorems about the generic suppression engine (modelled on real line text): a violation on an ordinary line is "
              "silenced by the block mechanism iff the nearest ignore-start/ignore-end marker above it is an ignore-start naming its rule "
              "(block_scope_exact: induction over the scan with a prefix invariant, every file and line); directives naming other rules "
              "change nothing; every documented spelling of every rule id of the code base matches it and never another linter's rule "
              "(regenerated tables, decide); all 64 directive cells (form x #,// x thailint/design-lint x case x bare) are honoured and "
              "do not leak. The Lean engine is run on the same text as the real IgnoreDirectiveParser for generated files, and 18 linter x "
              "language cells are exercised through the CLI with inserted directives. Six genuine defects repaired (fix: b019dd1, 941ccd3, "
              "caa0cf6, 52e96d9, method-property), and the four linters that had no ignore plumbing at all (F04p:*, first recorded) and the "
              "str.splitlines() line look-ups (F04q) since; later the same-line recogniser (another tool's ignore[...] before the directive, "
              "F04r_witness), rule lists swallowing a // remark and the bracketed ignore-start of the documentation (fix: c2adba9, c681ec1, b71c428)."),
        note=("Python's re is re-stated as string functions (validated on every generated file); which linters route their violations "
              "through the engine is observed per linter, not modelled; linter-specific extras (DRY inline ranges, TS noqa) are only "
              "exercised, not modelled; repository/linter-level ignore patterns are C14/C09's subject."),
        technique="Lean 4 proof (invariant induction over the line scan; decide over regenerated tables and the 64-cell matrix) + engine and CLI differential runs",
        ref="DESIGN.md §3 C04"),
    "C16": dict(
        text=("Kernel-checked theorems about the SRP decision logic for all counts, limits and switches: reported iff methods > max_methods "
              "or lines > max_loc or (keyword checking on and keyword in name); exactly on a limit is not reported and one above is; the "
              "message lists exactly the exceeded criteria with the counts, each once; more permissive thresholds never add a report; only "
              "countable members change the method count (a property's setter / deleter counts, only the getter is exempt), member order and the "
              "position of blank / comment lines are irrelevant, a growing class is never un-reported; blank/comment lines never change the measured size in any language (repaired: "
              "TypeScript used to count the raw span); language overrides apply only to their language. The counting functions and from_dict are executed by the "
              "Lean driver on generated class descriptions and compared with `thailint srp` (line, full message, exit code)."),
        note=("What counts as a public method per language is the implementation's notion, mirrored in `countable`; parsers trusted; "
              "nested classes only as separate top-level-like classes."),
        technique="Lean 4 proof (case analysis of the decision list, list filter lemmas) + differential check on generated classes",
        ref="DESIGN.md §3 C16"),
    "C17": dict(
        text=("Kernel-checked theorems about a model of the three Rust scans over arbitrary trees of frames (mod / fn with attributes, "
              "loops, closures, blocks, lets, enclosing calls, macro arguments) and call sites, for every option setting: test code is "
              "recognised exactly under any nesting and with comments between attribute and item (test_context_exact, on attributes proved "
              "plain by alphabet_plain), unwrap / clone / blocking verdicts equal the property's reading (unwrap_exact, clone_exact, "
              "blocking_exact with wrapper_exact, *_reported_iff, classify_priority), a short path whose first segment is imported from another "
              "crate is never reported (shadowed_never_reported), every visible call is judged exactly once "
              "(exactly_once, scan_eq_sites), detect_* switches remove exactly their category (clone_switch, blocking_switch), "
              "allow_in_tests=false makes attributes irrelevant, blocking API tables regenerated from /repo classify the documented calls. "
              "scan_meets_spec_partial: full agreement with the specification on files without calls inside macro arguments; those are the "
              "recorded finding F17c (F17c_witness). Four genuine defects repaired (config sections ignored, substring test detection, "
              "comments hiding attributes, method-style wrappers). The model is tied to /repo by running the real CLI of all three linters "
              "on generated Rust projects with options in .thailint.yaml."),
        note=("tree-sitter's Rust grammar is trusted and only sampled by the correspondence check; attribute texts are restricted to an "
              "alphabet proved plain; `never used afterwards` is read as: not in a later statement of the same block; calls inside macro "
              "arguments are not reported by the implementation (known finding F17c), so the full statement holds only on macro-free files."),
        technique="Lean 4 proof (mutual structural recursion over syntax trees, case analysis over options) + T1 tables + differential check",
        ref="DESIGN.md §3 C17"),
    "C18": dict(
        text=("Kernel-checked theorems about the file-placement decision procedure for every rule set, every path and every regex "
              "semantics (matching is a parameter): the governing directory rule really contains the file component-wise "
              "(governing_rule_contains, repaired matcher), an allow/deny pair yields a violation iff it is violated with deny taking "
              "precedence (pair_exact), files satisfying all applicable rules and all files under an empty configuration are never "
              "reported, at most one violation per rule family, the verdict is a function of the relative path and rule set only. The "
              "model is executed with Python's re.search matrix and compared with `thailint file-placement` (path, full message, exit) "
              "on generated rule sets x 20 paths, every third rule set also through a second Linter object on the same directory; invalid "
              "patterns must exit 2. Two genuine defects repaired (string-prefix matching; depth of keys with a trailing slash, 84fa986)."),
        note=("Python's re is a parameter of the theorems and trusted in the run; reading of the statement: global_deny / global_patterns "
              "apply to every file, also to files covered by a directory rule (the conjunctive reading)."),
        technique="Lean 4 proof (case analysis + induction over the rule list, regex semantics as a parameter) + differential check",
        ref="DESIGN.md §3 C18"),
    "C19": dict(
        text=("Kernel-checked theorems about the walk scheme of the pattern linters (full traversal; a node's verdict is a function of its subtree), "
              "for every tree, context, multiplicity and renaming: an embedded example keeps all its findings in order under any stack of enclosing "
              "nodes and between any siblings (findings_survive_embedding), the file reports exactly the example's findings when the surroundings "
              "are quiet, so an acceptable example stays unreported everywhere (findings_exact_in_quiet_context), k copies report k times "
              "(copies_report_k_times), a name-blind verdict is invariant under renaming (renaming_invariant), and a walk that stops descending "
              "loses nested examples (partial_walk_loses_nested_example). T1: the examples are extracted from docs/*-linter.md on every run, "
              "with the configuration the text states. Tied to /repo by running every labelled example of the 'Violation Examples' sections "
              "stand-alone (reported / not reported, documented rule ids) and, for the pattern linters, embedded in 10 Python / 4 TypeScript "
              "contexts x multiplicity 1-3 x same or renamed identifiers x varied filler code; the embedded findings must be those the Lean "
              "walk computes from the stand-alone ones (sub-list in loop contexts). Five genuine defects repaired, five recorded as known "
              "findings (documentation / implementation mismatches of file-header, lazy-ignores, stringly-typed; cqs for TypeScript)."),
        note=("which syntax nodes a documented example consists of, and each linter's verdict on it, come from the real run (stand-alone baseline), "
              "not from the model; only blocks that the documentation itself labels inside its 'Violation Examples' section are used, so examples "
              "elsewhere in the documents are not covered; stringly-typed, lazy-ignores and file-header examples are only checked stand-alone "
              "(cross-file evidence and header position make embeddings change their meaning)."),
        technique="Lean 4 proof (structural recursion over mutually inductive trees and contexts) + documentation-driven differential check",
        ref="DESIGN.md §3 C19"),
    "C20": dict(
        text=("Kernel-checked theorems about (I) the init-config merge at text level, for every existing text, template and YAML parser (the "
              "parser is a parameter): a written result parses and keeps every pre-existing top-level setting (written_keeps_settings), the old "
              "text is kept in order with one insertion (merge_keeps_text), added sections never shadow a user section under hyphen/underscore "
              "normalisation and settings stay in effect (added_do_not_shadow, settings_stay_in_effect), a second run finds nothing missing and writes nothing "
              "(second_run_complete, complete_means_untouched, second_run_is_noop), and the shipped template regenerated from /repo yields all 16 linter sections, "
              "each defining exactly its own top-level key (template_sections, by kernel evaluation of the model on the 442 template lines); "
              "(II) the config set/get/reset state machine over the file on disk: a rejected value leaves the file unchanged, every accepted "
              "value is returned by get after the save/load round trip for any key spelling, other keys are undisturbed, acceptance equals the "
              "documented validity (accepted_iff_valid), the file stays loadable under every command sequence (run_keeps_usable, induction), "
              "reset restores the regenerated defaults. Five genuine defects repaired. Tied to /repo by running the real CLI: exact merged text "
              "and outcome, second run, YAML validity, effective settings, every linter command on the generated file of every preset, and "
              "exit code / printed value / file content after every config command on YAML and JSON files."),
        note=("PyYAML and json save/load round trips and Python's int()/float() conversions are trusted (the parser is a parameter of the "
              "theorems) and sampled by the correspondence check; refusing a merge that cannot be done textually (flow-style or indented "
              "top-level mapping) counts as keeping the settings."),
        technique="Lean 4 proof (fold/induction over ordered dictionaries and command sequences, YAML parser as a parameter, kernel evaluation on the regenerated template) + T1 tables + differential check",
        ref="DESIGN.md §3 C20"),
}
ALL = [f"C{n:02d}" for n in range(1, 21)]
NOT_YET = "machinery for this property is not built yet in this revision of /verif (planned, see DESIGN.md §3); not claimed"


def main():
    checks = []
    for pid in ALL:
        c = CLAIMS.get(pid)
        if not c:
            continue
        checks.append({
            "property_id": pid,
            "quick_cmd": f"./check {pid} --tier quick",
            "thorough_cmd": f"./check {pid} --tier thorough",
            "evidence_file": f"evidence/{pid}.json",
            "replay_cmd_template": f"./check {pid} --replay {{path}}",
            "engine": "lean4-model+correspondence",
            "level_claimed": {"category": c.get("category", "proof"), "text": c["text"], "design_ref": c["ref"]},
            "level_note": c["note"],
            "technique": c["technique"],
        })
    m = {
        "version": 1,
        "setup_cmd": "cd lean && /venv/bin/python ../harness/extract_tables.py && lake build driver ThaiLintModel",
        "hooks": {
            "guard": "THAILINT_VERIF",
            "enable": "export THAILINT_VERIF=1 THAILINT_VERIF_FAILLOG=<file>  (set by ./check)",
            "baseline_off_cmd": "cd /repo && env -u THAILINT_VERIF /venv/bin/python -m pytest -ra -q -p no:cacheprovider --timeout=900 --continue-on-collection-errors",
            "source_commits": HOOK_COMMITS,
            "add_only": True,
        },
        "engines": [{
            "name": "lean4-model+correspondence",
            "path": "lean/ (Lean 4 models, theorems, driver) + harness/ (T1 table extractor, T2 correspondence, verdicts)",
            "serves_properties": [c["property_id"] for c in checks],
            "kind_free_text": "machine-checked proof in Lean 4 about an executable model, tied to /repo by regenerated tables and differential execution",
        }],
        "checks": checks,
        "not_applicable": [{"property_id": p, "reason": NA.get(p, NOT_YET)} for p in ALL if p not in CLAIMS],
        "notes": "Every check: regenerate Gen tables from /repo, lake build (re-checks proofs), axiom audit, correspondence run, verdict. Exit 2 = harness problem, never a violation.",
    }
    (VERIF / "MANIFEST.json").write_text(json.dumps(m, indent=1) + "\n")


HOOK_COMMITS: list = ["28cf2a1edd7dbacd06827b4466c71d0ab54ca81b"]
NA: dict = {}

if __name__ == "__main__":
    main()
