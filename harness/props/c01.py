"""C01 — nesting linter: correspondence check (T2) between /repo and the Lean model, and the
failing-input search against the specification.  See DESIGN.md §3 C01."""
from __future__ import annotations

import json
import multiprocessing as mp
import shutil
from pathlib import Path

from .. import core

PROP = "C01"
EXT = {"py": "py", "ts": "ts", "rs": "rs"}
LEVEL_NOTE = ("theorems range over control skeletons (wfB); parsers are trusted and their output shape is "
              "compared with toPy/toTs/toRs on every generated file; Python deviates by a characterised offset (F01a/F01b)")


# ----------------------------------------------------------------------------- generator

def gen_body(rng, lang: str, depth: int, in_async: bool, common: bool = False) -> list:
    n = rng.choice([1, 1, 2, 2, 3])
    return [gen_ctl(rng, lang, depth, in_async, common) for _ in range(n)]


def gen_ctl(rng, lang: str, depth: int, in_async: bool, common: bool):
    p_nest = [0.85, 0.75, 0.6, 0.5, 0.4, 0.3, 0.15, 0.0][min(depth, 7)]
    if rng.random() >= p_nest:
        return "s"
    sub = lambda: gen_body(rng, lang, depth + 1, in_async, common)  # noqa: E731
    if common:
        kind = rng.choice(["if", "for", "while", "match"])
    elif lang == "py":
        kind = rng.choice(["if", "if", "for", "while", "with", "try", "match"])
    elif lang == "ts":
        kind = rng.choice(["if", "if", "for", "while", "forIn", "forOf", "doWhile", "try", "match"])
    else:
        kind = rng.choice(["if", "if", "for", "while", "loop", "match", "clos"])
    if kind == "if":
        thn = sub()
        elifs = []
        els = sub() if rng.random() < 0.5 else []
        if lang == "py" and not common:
            elifs = [sub() for _ in range(rng.choice([0, 0, 1, 2, 3]))]
        if lang in ("ts", "rs") and not common and rng.random() < 0.4:
            els = [gen_if_only(rng, lang, depth + 1, in_async)]          # `else if`
        if (lang == "py" or common) and len(els) == 1 and isinstance(els[0], dict) and "if" in els[0]:
            els.append("s")   # keep python chains in normal form (an else holding only an if *is* an elif)
        return {"if": [thn, elifs, els]}
    if kind in ("for", "while", "forIn", "forOf", "doWhile", "loop"):
        els = sub() if (lang == "py" and not common and kind in ("for", "while") and rng.random() < 0.2) else []
        return {"loop": [kind, sub(), els]}
    if kind == "with":
        return {"with": [bool(in_async and rng.random() < 0.5), sub()]}
    if kind == "try":
        if lang == "py":
            hs = [sub() for _ in range(rng.choice([0, 1, 1, 2]))]
            fin = sub() if (not hs or rng.random() < 0.4) else []
            els = sub() if (hs and rng.random() < 0.3) else []
            return {"try": [sub(), hs, els, fin]}
        hs = [sub()] if rng.random() < 0.7 else []
        fin = sub() if (not hs or rng.random() < 0.4) else []
        return {"try": [sub(), hs, [], fin]}
    if kind == "match":
        return {"match": [[sub() for _ in range(rng.choice([1, 2, 3]))], sub() if rng.random() < 0.5 else []]}
    return {"clos": [sub()]}


def gen_if_only(rng, lang, depth, in_async):
    thn = gen_body(rng, lang, depth + 1, in_async)
    els = gen_body(rng, lang, depth + 1, in_async) if rng.random() < 0.5 else []
    if rng.random() < 0.3 and depth < 6:
        els = [gen_if_only(rng, lang, depth + 1, in_async)]
    return {"if": [thn, [], els]}


def gen_file(rng, lang: str, idx: int, common: bool = False) -> dict:
    wraps = {"py": ["plain", "plain", "method", "async", "underIf", "inner"],
             "ts": ["plain", "method", "arrow", "async", "funcExpr", "generator", "underIf", "inner"],
             "rs": ["plain", "plain", "method", "async", "underIf", "inner"]}[lang]
    fns = []
    for k in range(rng.choice([1, 2, 2, 3, 4, 6])):
        w = "plain" if common else rng.choice(wraps)
        fns.append({"name": f"fn{idx}_{k}", "wrap": w, "body": gen_body(rng, lang, 0, w == "async", common)})
    return {"prop": PROP, "lang": lang, "fns": fns}


def all_small_bodies(lang: str, max_nodes: int):
    """exhaustive: every skeleton with at most `max_nodes` constructs/statements (thorough tier)"""
    kinds = {"py": ["if", "ifelse", "elif", "for", "while", "with", "tryexc", "tryfin", "match", "matchd"],
             "ts": ["if", "ifelse", "for", "while", "forIn", "forOf", "doWhile", "trycatch", "tryfin", "match", "matchd"],
             "rs": ["if", "ifelse", "for", "while", "loop", "match", "matchd", "clos"]}[lang]

    def mk(kind, inner):
        if kind == "if":
            return {"if": [inner, [], []]}
        if kind == "ifelse":
            return {"if": [inner, [], ["s"]]}
        if kind == "elif":
            return {"if": [["s"], [inner], []]}
        if kind in ("for", "while", "forIn", "forOf", "doWhile", "loop"):
            return {"loop": [kind, inner, []]}
        if kind == "with":
            return {"with": [False, inner]}
        if kind == "tryexc":
            return {"try": [["s"], [inner], [], []]}
        if kind == "trycatch":
            return {"try": [inner, [["s"]], [], []]}
        if kind == "tryfin":
            return {"try": [inner, [], [], ["s"]]}
        if kind == "match":
            return {"match": [[["s"], inner], []]}
        if kind == "matchd":
            return {"match": [[["s"]], inner]}
        return {"clos": [inner]}

    def bodies(n):
        # chains of n nested constructs, each optionally followed by a sibling statement
        if n == 0:
            yield ["s"]
            return
        for k in kinds:
            for inner in bodies(n - 1):
                yield [mk(k, inner)]
                if n <= 2:
                    yield ["s", mk(k, inner), "s"]
    for n in range(0, max_nodes + 1):
        yield from bodies(n)


# ----------------------------------------------------------------------------- implementation side

def _sx_ts(n) -> str:
    if not n.children:
        return n.type
    return "(" + n.type + "".join(" " + _sx_ts(c) for c in n.children) + ")"


def _sx_py(n) -> str:
    import ast
    if isinstance(n, ast.If):
        return ("(If " + _sx_py(n.test) + " (body" + "".join(" " + _sx_py(c) for c in n.body) + ") (orelse"
                + "".join(" " + _sx_py(c) for c in n.orelse) + "))")
    kids = list(ast.iter_child_nodes(n))
    # (`async for` and `try / except*` are the skeleton's for loop and try statement in another spelling: add_async_variants)
    name = {"AsyncFor": "For", "TryStar": "Try"}.get(type(n).__name__, type(n).__name__)
    if not kids:
        return name
    return "(" + name + "".join(" " + _sx_py(c) for c in kids) + ")"


def impl_case(args) -> dict:
    """Runs in a worker process: the real linter on one rendered file."""
    idx, lang, text, limits, cli_limit, root = args
    core._reset_singletons()
    from src.orchestrator.core import Orchestrator
    d = Path(root) / f"c{idx}"
    d.mkdir(parents=True, exist_ok=True)
    f = d / f"m{idx}.{EXT[lang]}"
    f.write_text(text + "\n")
    out: dict = {"by_limit": {}, "fns": [], "errors": []}
    try:
        for L in limits:
            core._reset_singletons()
            orch = Orchestrator(project_root=d, config={"nesting": {"max_nesting_depth": L}})
            vs = [v for v in orch.lint_file(f) if v.rule_id.startswith("nesting")]
            out["by_limit"][str(L)] = sorted([v.line, v.message, v.rule_id] for v in vs)
        code, stdout = core.run_cli(["nesting", "--max-depth", str(cli_limit), "--format", "json", str(f)], cwd=d)
        vj = core.violations_json(stdout)
        out["cli"] = {"exit": code, "vs": None if vj is None else sorted([v["line"], v["message"], v["rule_id"]] for v in vj)}
        # direct look at the analyzers: depth of every function + parse shape of its body
        if lang == "py":
            import ast
            from src.linters.nesting.python_analyzer import PythonNestingAnalyzer
            an = PythonNestingAnalyzer()
            for fn in an.find_all_functions(ast.parse(text)):
                out["fns"].append({"name": fn.name, "line": fn.lineno, "depth": an.calculate_max_depth(fn)[0],
                                   "shape": "".join(" " + _sx_py(s) for s in fn.body)})
        elif lang == "ts":
            from src.linters.nesting.typescript_analyzer import TypeScriptNestingAnalyzer
            an = TypeScriptNestingAnalyzer()
            rootn = an.parse_typescript(text)
            for node, name in an.find_all_functions(rootn):
                if not node.is_named:
                    continue   # the extractor also "finds" the `function` keyword token (depth 0, never reportable)
                body = an._find_function_body(node)  # noqa: SLF001
                out["fns"].append({"name": name, "line": node.start_point[0] + 1, "depth": an.calculate_max_depth(node)[0],
                                   "shape": "".join(" " + _sx_ts(c) for c in body.children) if body else None})
        else:
            from src.linters.nesting.rust_analyzer import RustNestingAnalyzer
            an = RustNestingAnalyzer()
            rootn = an.parse_rust(text)
            for node, name in an.find_all_functions(rootn):
                body = an._find_function_body(node)  # noqa: SLF001
                out["fns"].append({"name": name, "line": node.start_point[0] + 1, "depth": an.calculate_max_depth(node)[0],
                                   "shape": "".join(" " + _sx_ts(c) for c in body.children) if body else None})
    except Exception as exc:  # noqa: BLE001
        out["errors"].append(f"{type(exc).__name__}: {exc}")
    finally:
        shutil.rmtree(d, ignore_errors=True)
    return out


def msg(name: str, depth: int) -> str:
    return f"Function '{name}' has excessive nesting depth ({depth})"


# ----------------------------------------------------------------------------- comparison

def compare(case: dict, lean: dict, impl: dict, limits: list[int], cli_limit: int, res: core.Result):
    """Returns (disagreement | None).  Updates histogram / findings."""
    lang = case["lang"]
    problems = []
    fails_spec = False
    if impl["errors"]:
        problems.append("implementation raised: " + "; ".join(impl["errors"]))
    mfns = lean["fns"]
    ifns = {f["name"]: f for f in impl["fns"]}
    if sorted(ifns) != sorted(f["name"] for f in mfns):
        problems.append(f"functions found by the implementation {sorted(ifns)} != functions in the file {sorted(f['name'] for f in mfns)}")
        fails_spec = True
    for mf in mfns:
        f = ifns.get(mf["name"])
        if f is None:
            continue
        if f["shape"] != mf["shape"]:
            problems.append(f"parse shape of {mf['name']} differs from toX: impl={f['shape']!r} model={mf['shape']!r}")
        if f["line"] != mf["line"]:
            problems.append(f"header line of {mf['name']}: impl {f['line']} model {mf['line']}")
            fails_spec = True
        if f["depth"] != mf["depth"]:
            problems.append(f"depth of {mf['name']}: impl {f['depth']} model {mf['depth']} documented {mf['doc']}")
            if f["depth"] != mf["doc"]:
                fails_spec = True
        elif mf["explain"]:
            for fid in mf["explain"]:
                res.findings.setdefault(fid, {"lang": lang, "function": mf["name"], "documented_depth": mf["doc"],
                                              "reported_depth": f["depth"], "case": case, "text": lean["text"]})
    for L in limits:
        exp = sorted([mf["line"], msg(mf["name"], mf["depth"]), "nesting.excessive-depth"] for mf in mfns if mf["depth"] > L)
        got = impl["by_limit"].get(str(L))
        if got != exp:
            problems.append(f"limit {L}: implementation reports {got}, model {exp}")
            spec = sorted([mf["line"], msg(mf["name"], mf["doc"]), "nesting.excessive-depth"] for mf in mfns if mf["doc"] > L)
            if got != spec:
                fails_spec = True
    exp_cli = sorted([mf["line"], msg(mf["name"], mf["depth"]), "nesting.excessive-depth"] for mf in mfns if mf["depth"] > cli_limit)
    cli = impl.get("cli")
    if cli is not None:
        want_exit = 1 if exp_cli else 0
        if cli["vs"] != exp_cli or cli["exit"] != want_exit:
            problems.append(f"CLI (--max-depth {cli_limit}): exit {cli['exit']} violations {cli['vs']}, model exit {want_exit} {exp_cli}")
            fails_spec = True
    if not problems:
        return None
    return core.Disagreement(case={**case, "limits": limits, "cli_limit": cli_limit, "text": lean["text"]},
                             impl=impl, model=[{k: f[k] for k in ("name", "line", "depth")} for f in mfns],
                             spec=[{"name": f["name"], "line": f["line"], "depth": f["doc"]} for f in mfns],
                             property_fails=fails_spec, note=" | ".join(problems)[:3000])


def add_layout_noise(rng, lang: str, lean: dict) -> None:
    """Blank lines (Python: also comment lines) in front of clause lines - elif / else / except / finally / case / a closing brace -
    and between statements: layout never changes a depth.  Rewrites lean["text"] and the header lines of lean["fns"]."""
    lines = lean["text"].split("\n")
    out, shift_at = [], []          # shift_at: original 1-based line numbers before which a line was inserted
    for n, ln in enumerate(lines, start=1):
        st = ln.strip()
        clause = st.startswith(("elif ", "else", "except", "finally", "case ", "} else", "} catch", "} finally", "}"))
        if n > 1 and st and rng.random() < (0.5 if clause else 0.08):
            ind = ln[: len(ln) - len(ln.lstrip())]
            out.append(ind + "# layout" if lang == "py" and rng.random() < 0.5 else "")
            shift_at.append(n)
        out.append(ln)
    lean["text"] = "\n".join(out)
    for f in lean["fns"]:
        f["line"] += sum(1 for k in shift_at if k <= f["line"])
    lean["layout_noise"] = len(shift_at)


def add_async_variants(rng, lean: dict) -> None:
    """Python: inside coroutines some `for` loops become `async for`, and in some files every `except E:` becomes `except* E:` - the same
    loops and try statements of the skeleton in another spelling, so no depth changes.  Rewrites lean["text"] (line numbers stay)."""
    import ast
    lines = lean["text"].split("\n")
    star = rng.random() < 0.3 and not any(ln.strip() == "except:" for ln in lines)
    stack, out, n_for, n_star = [], [], 0, 0          # stack of (indent of a def line, is it a coroutine)
    for ln in lines:
        st = ln.strip()
        ind = len(ln) - len(ln.lstrip())
        if st:
            while stack and ind <= stack[-1][0]:
                stack.pop()
        if st.startswith(("def ", "async def ")):
            stack.append((ind, st.startswith("async ")))
        elif st.startswith("for ") and stack and stack[-1][1] and rng.random() < 0.6:
            ln, n_for = ln[:ind] + "async " + st, n_for + 1
        elif star and st.startswith("except ") and st.endswith(":"):
            ln, n_star = ln[:ind] + "except* " + st[len("except "):], n_star + 1
        out.append(ln)
    text = "\n".join(out)
    try:
        ast.parse(text)
    except SyntaxError:
        return
    lean["text"] = text
    lean["async_for"], lean["except_star"] = n_for, n_star


def evaluate(cases: list[dict], rng, res: core.Result, procs: int = 16, full_sweep: bool = True):
    drv = core.Driver()
    leans = drv.batch(cases)
    drv.close()
    root = core.scratch_dir("c01")
    work = []
    for i, (c, l) in enumerate(zip(cases, leans)):
        if not l.get("wf"):
            raise RuntimeError(f"generator produced an ill-formed skeleton: {json.dumps(c)[:400]}")
        maxdoc = max(f["doc"] for f in l["fns"])
        limits = list(range(1, maxdoc + 3))
        if not full_sweep:   # quick tier: the limit values at which some function's verdict can flip
            keep = {1, maxdoc + 1} | {x for f in l["fns"] for x in (f["doc"] - 1, f["doc"], f["depth"] - 1, f["depth"])}
            limits = [x for x in limits if x in keep]
        cli_limit = rng.choice(limits)
        if c["lang"] == "py" and rng.random() < 0.5:
            add_async_variants(rng, l)
        if rng.random() < 0.35:
            add_layout_noise(rng, c["lang"], l)
        work.append((i, c["lang"], l["text"], limits, cli_limit, str(root)))
    try:
        if True:
            impls = core.pmap(impl_case, work, procs=procs, chunksize=4)
    finally:
        shutil.rmtree(root, ignore_errors=True)
    for c, l, im, w in zip(cases, leans, impls, work):
        res.evaluations += 1
        maxdoc = max(f["doc"] for f in l["fns"])
        res.bump("lang", c["lang"])
        res.bump("max_documented_depth", maxdoc)
        res.bump("functions_per_file", len(c["fns"]))
        res.bump("layout", "blank / comment lines inserted before clauses and statements" if l.get("layout_noise") else "as rendered")
        if l.get("async_for") or l.get("except_star"):
            res.bump("python spelling variants", ("async for " if l.get("async_for") else "") + ("except*" if l.get("except_star") else ""))
        for f in c["fns"]:
            res.bump("wrap", f["wrap"])
        for k in _kinds(c):
            res.bump("construct", k)
        if maxdoc >= 2:
            res.nontrivial.add(core.canon({"lang": c["lang"], "fns": [f["body"] for f in c["fns"]]}))
        d = compare(c, l, im, w[3], w[4], res)
        if d:
            res.disagreements.append(d)
        if len(res.samples) < 3 and maxdoc >= 3:
            res.samples.append({"lang": c["lang"], "text": l["text"], "documented_depths": [f["doc"] for f in l["fns"]],
                                "model_depths": [f["depth"] for f in l["fns"]], "limits_swept": w[3]})
    return leans, impls


def _kinds(c):
    out = []

    def walk(x):
        if isinstance(x, dict):
            for k, v in x.items():
                out.append(k if k != "loop" else v[0])
                walk(v)
        elif isinstance(x, list):
            for y in x:
                walk(y)
    for f in c["fns"]:
        walk(f["body"])
    return out


def cross_language(rng, n: int, res: core.Result):
    """same skeleton in the three languages: TS == Rust == documented; Python as characterised"""
    cases = []
    for i in range(n):
        base = gen_file(rng, "ts", 100000 + i, common=True)
        for lang in ("py", "ts", "rs"):
            cases.append({**base, "lang": lang})
    leans, impls = evaluate(cases, rng, res)
    for i in range(0, len(cases), 3):
        dts = [f["depth"] for f in impls[i + 1]["fns"]]
        drs = [f["depth"] for f in impls[i + 2]["fns"]]
        if dts != drs:
            res.disagreements.append(core.Disagreement(case=cases[i + 1], impl={"ts": dts, "rs": drs}, model=None, spec=None,
                                                       property_fails=True, note="TypeScript and Rust depths differ for the same skeleton"))
        res.bump("cross_language_triples")


LANGKEY = {"py": "python", "ts": "typescript", "rs": "rust"}


def impl_project(args) -> dict:
    """several languages in one run, per-language limits in .thailint.yaml"""
    idx, files, cfg, root = args
    import yaml
    core._reset_singletons()
    proj = Path(root) / f"prj{idx}"
    proj.mkdir(parents=True)
    out = {"errors": []}
    try:
        for name, text in files:
            (proj / name).write_text(text + "\n")
        (proj / ".thailint.yaml").write_text(yaml.safe_dump({"nesting": cfg}))
        code, stdout = core.run_cli(["nesting", "--format", "json", "."], cwd=proj)
        vs = core.violations_json(stdout)
        out["exit"] = code
        out["vs"] = None if vs is None else sorted([v["file_path"], v["line"], v["message"]] for v in vs)
        if vs is None:
            out["errors"].append(stdout[:300])
    except Exception as exc:  # noqa: BLE001
        out["errors"].append(f"{type(exc).__name__}: {exc}")
    finally:
        shutil.rmtree(proj, ignore_errors=True)
    return out


def project_mode(rng, n: int, res: core.Result):
    """one run over a directory holding Python, TypeScript and Rust files, with language-specific
    limits in the config: each file must be judged with the limit of *its* language, whatever the
    order in which the files are met"""
    reqs, metas = [], []
    for i in range(n):
        base = rng.randint(1, 6)
        cfg = {"max_nesting_depth": base}
        eff = {}
        for lang in ("py", "ts", "rs"):
            if rng.random() < 0.7:
                cfg[LANGKEY[lang]] = {"max_nesting_depth": rng.randint(1, 6)}
            eff[lang] = cfg.get(LANGKEY[lang], {}).get("max_nesting_depth", base)
        order = ["py", "ts", "rs"]
        rng.shuffle(order)
        files = []
        for k, lang in enumerate(order):   # os.walk order is directory order; vary names so every order occurs
            c = gen_file(rng, lang, 200000 + i * 10 + k)
            c["limit"] = eff[lang]
            reqs.append(c)
            files.append((f"{'abc'[k]}_{i}.{EXT[lang]}", lang))
        metas.append((cfg, eff, files))
    drv = core.Driver()
    leans = drv.batch(reqs)
    drv.close()
    root = core.scratch_dir("c01p")
    work = []
    doubled = {}
    for i, (cfg, eff, files) in enumerate(metas):
        texts = []
        for k, (name, _l) in enumerate(files):
            text = leans[3 * i + k]["text"]
            # a file may hold the same functions twice (same names: methods of re-declared classes, re-assigned callbacks):
            # they are separate functions, each judged on its own
            if rng.random() < 0.35:
                doubled[(i, k)] = len(text.split("\n"))
                text = text + "\n" + text
            texts.append((name, text))
        work.append((i, texts, cfg, str(root)))
    try:
        if True:
            impls = core.pmap(impl_project, work, procs=16, chunksize=2)
    finally:
        shutil.rmtree(root, ignore_errors=True)
    for i, ((cfg, eff, files), im) in enumerate(zip(metas, impls)):
        res.evaluations += 1
        res.bump("project_mode_runs")
        exp_m, exp_s = [], []
        for k, (name, lang) in enumerate(files):
            for f in leans[3 * i + k]["fns"]:
                for off in ([0, doubled[(i, k)]] if (i, k) in doubled else [0]):
                    if f["reported"]:
                        exp_m.append([name, f["line"] + off, msg(f["name"], f["depth"])])
                    if f["specReported"]:
                        exp_s.append([name, f["line"] + off, msg(f["name"], f["doc"])])
        exp_m.sort()
        exp_s.sort()
        if len(set(eff.values())) > 1:
            res.nontrivial.add(core.canon({"cfg": cfg, "files": [reqs[3 * i + k]["fns"] for k in range(3)]}))
        if im["errors"] or im["vs"] != exp_m or im["exit"] != (1 if exp_m else 0):
            res.disagreements.append(core.Disagreement(
                case={"mode": "project", "config": {"nesting": cfg}, "files": work[i][1]}, impl=im, model=exp_m, spec=exp_s,
                property_fails=bool(im["errors"]) or im["vs"] != exp_s,
                note=f"multi-language run with per-language limits {eff}: implementation {im.get('vs')} (exit {im.get('exit')}), model {exp_m}"[:3000]))


# documented constructs that the skeleton family does not contain: fixed examples (tests, not the unbounded claim)
RUST_ASYNC_PROBES = [
    ("async fn f(a: bool) {\n    let x = async {\n        if a {\n            for i in 0..3 {\n                g(i);\n            }\n        }\n    };\n}\n", "f", 4),
    ("fn k(a: bool) {\n    let y = async move {\n        while a {\n            h();\n        }\n    };\n}\n", "k", 3),
    ("fn m(a: bool) {\n    if a {\n        let z = async { loop { h(); } };\n    }\n}\n", "m", 4),
]


def construct_probes(res: core.Result):
    import re as _re
    root = core.scratch_dir("c01p")
    try:
        for i, (text, name, doc) in enumerate(RUST_ASYNC_PROBES):
            f = root / f"probe{i}.rs"
            f.write_text(text)
            code, stdout = core.run_cli(["nesting", "--max-depth", "1", "--format", "json", str(f)], cwd=root)
            vs = core.violations_json(stdout) or []
            got = [int(m.group(1)) for v in vs for m in [_re.search(r"'" + name + r"' has excessive nesting depth \((\d+)\)", v["message"])] if m]
            res.evaluations += 1
            res.bump("fixed examples", "rust async block")
            if got != [doc]:
                res.disagreements.append(core.Disagreement(case={"level": "fixed example", "lang": "rs", "text": text}, impl=got, model=None, spec=doc, property_fails=True,
                                                           note=f"Rust `async` block (documented as a nesting construct): function {name} has documented depth {doc}, implementation reports {got}"))
    finally:
        shutil.rmtree(root, ignore_errors=True)


def run(tier: str, seed: int, st: core.ProofStatus) -> core.Result:
    res = core.Result()
    res.rule = ("seeded random control skeletons (1-6 functions per file; plain / method / arrow / async / function-expression / generator forms, also declared under a compound statement, in a namespace / module, an inner class or a trait; all "
                "constructs of the language, depth <= 9) rendered by the Lean model; limits 1..depth+2 (quick: the flip points of every function); "
                "Python: some loops of coroutines spelled `async for`, some files with `except*` handlers; three fixed Rust examples with `async` blocks; "
                "a case is non-trivial when some function has documented depth >= 2; distinct = distinct skeleton lists")
    rng = core.sub_rng(seed, PROP, tier)
    n = 100 if tier == "quick" else 2500
    cases = []
    # corpus first
    corpus = core.VERIF / "harness" / "corpus" / PROP
    if corpus.is_dir():
        for f in sorted(corpus.glob("*.json")):
            cases.append(json.loads(f.read_text()))
    for lang in ("py", "ts", "rs"):
        for i in range(n):
            cases.append(gen_file(rng, lang, i))
    if tier == "thorough":
        for lang in ("py", "ts", "rs"):
            for k, b in enumerate(all_small_bodies(lang, 4)):
                cases.append({"prop": PROP, "lang": lang, "fns": [{"name": f"ex{k}", "wrap": "plain", "body": b}]})
        res.notes.append("thorough: plus every chain skeleton of <= 4 nested constructs over the language's construct alphabet")
    evaluate(cases, rng, res, full_sweep=(tier == "thorough"))
    cross_language(rng, 25 if tier == "quick" else 400, res)
    project_mode(rng, 40 if tier == "quick" else 600, res)
    construct_probes(res)
    res.assumptions += ["CPython ast / tree-sitter grammars are trusted; their output on rendered skeletons is compared with the model's shape functions",
                        "expressions never contain control flow (comprehensions, lambdas, ternaries are outside the program family)"]
    return res


def replay(path: str, st: core.ProofStatus) -> int:
    data = json.loads(Path(path).read_text())
    case = data.get("case") or (data.get("witness") or {}).get("case")
    if not case:
        print("replay file has no case (names a proof obligation only):", json.dumps(data.get("no_longer_checks")))
        return 1
    if case.get("mode") == "project":
        root = core.scratch_dir("c01r")
        im = impl_project((0, [tuple(x) for x in case["files"]], case["config"]["nesting"], str(root)))
        shutil.rmtree(root, ignore_errors=True)
        print(json.dumps({"impl": im, "model": data.get("model"), "spec": data.get("spec")}, indent=1)[:3000])
        if im["errors"] or im["vs"] != data.get("model"):
            print(f"VIOLATION property={PROP} replay={path}")
            return 1
        print("replay: implementation agrees with the model on this case")
        return 0
    res = core.Result()
    c = {k: case[k] for k in ("prop", "lang", "fns")}
    rng = core.sub_rng(0, "replay")
    evaluate([c], rng, res, procs=1)
    for d in res.disagreements:
        print("DISAGREEMENT:", d.note)
        print(json.dumps({"impl": d.impl, "model": d.model, "spec": d.spec}, indent=1)[:4000])
    for fid, w in res.findings.items():
        print(f"finding {fid} reproduced: documented {w['documented_depth']} reported {w['reported_depth']}")
    if res.disagreements or res.findings:
        print(f"VIOLATION property={PROP} replay={path}")
        return 1
    print("replay: implementation, model and specification agree on this case")
    return 0
