"""C02 — magic-number linter.  Generated programs in Python, TypeScript and Rust place literal sites of
every lexical form in every position kind (one site per line) plus non-literal look-alikes; the real
CLI is run with random allowed_numbers / max_small_integer and with allowed ± v (delta law); reports
are matched to sites by line and compared with the Lean model's and the specification's verdicts."""
from __future__ import annotations

import json
import re
import shutil
from fractions import Fraction
from pathlib import Path

from .. import core

PROP = "C02"
LEVEL_NOTE = ("theorems range over literal-site programs (position kinds x values); reading of literal text is modelled for "
              "TS/Rust (Python's int/float re-stated), CPython's own literal evaluation and the parsers are trusted; float "
              "literals are kept to <= 6 significant digits so that double equality = decimal equality")
EXT = {"python": "py", "typescript": "ts", "javascript": "js", "rust": "rs"}


# ----------------------------------------------------------------------------- literals

def gen_literal(rng, lang: str):
    """(text, value as (mant, scale), is_float_node, form)"""
    form = rng.choice({
        "python": ["dec", "dec", "dec", "hex", "oct", "bin", "under", "float", "exp", "small"],
        "typescript": ["dec", "dec", "dec", "hex", "hexe", "oct", "bin", "under", "float", "exp", "bigint", "legacy", "legacy_dec", "small"],
        "javascript": ["dec", "dec", "hex", "hexe", "float", "exp", "small"],
        "rust": ["dec", "dec", "dec", "hex", "oct", "bin", "under", "suffix", "suffix", "float", "fsuffix", "exp", "hexf32", "small"],
    }[lang])
    n = rng.choice([6, 7, 9, 11, 12, 17, 42, 64, 77, 99, 128, 241, 254, 255, 256, 365, 404, 1024, 4242, 65535, 86400, 123456])
    if form == "small":
        n = rng.randint(0, 12)
        return str(n), (n, 0), False, form
    if form == "dec":
        return str(n), (n, 0), False, form
    if form == "hex":
        t = format(n, rng.choice(["x", "X"]))
        if "e" in t.lower():
            t = t.lower().replace("e", "d")
        return "0x" + t, (int(t, 16), 0), False, form
    if form == "hexe":
        t = rng.choice(["FE", "e", "1e", "bee", "E0", "face"])
        return "0x" + t, (int(t, 16), 0), False, form
    if form == "oct":
        return "0o" + format(n, "o"), (n, 0), False, form
    if form == "bin":
        return "0b" + format(n, "b"), (n, 0), False, form
    if form == "under":
        big = rng.choice([1000, 10000, 1234567, 65_536])
        s = str(big)
        t = s[:-3] + "_" + s[-3:] if len(s) > 3 else s
        return t, (big, 0), False, form
    if form == "float":
        a, b = rng.randint(0, 999), rng.choice(["5", "25", "75", "125", "001", "5"])
        return f"{a}.{b}", (int(f"{a}{b}"), len(b)), True, form
    if form == "exp":
        m, e = rng.randint(2, 9), rng.choice([2, 3, 4, -1, -2])
        if e >= 0:
            return f"{m}e{e}", (m * 10 ** e, 0), True, form
        return f"{m}e{e}", (m, -e), True, form
    if form == "bigint":
        return f"{n}n", (n, 0), False, form
    if form == "legacy":
        return "0" + format(n, "o"), (n, 0), False, form
    if form == "legacy_dec":      # a leading zero followed by a digit 8 or 9: JavaScript reads it as decimal
        v = rng.choice([89, 98, 128, 809, 1998, 65538])
        return "0" + str(v), (v, 0), False, form
    if form == "suffix":
        suf = rng.choice(["u8", "u16", "u32", "u64", "u128", "usize", "i8", "i16", "i32", "i64", "i128", "isize"])
        v = n % 120 + 6 if suf in ("u8", "i8") else n
        return f"{v}{rng.choice(['', '_'])}{suf}", (v, 0), False, form
    if form == "fsuffix":
        a, b = rng.randint(0, 99), rng.choice(["5", "25", "75"])
        return f"{a}.{b}{rng.choice(['f32', 'f64'])}", (int(f"{a}{b}"), len(b)), True, form
    if form == "hexf32":
        t = rng.choice(["af32", "1f64", "bf32"])
        return "0x" + t, (int(t, 16), 0), False, form
    raise AssertionError(form)


def py_number(v):
    m, s = v
    return Fraction(m, 10 ** s)


# ----------------------------------------------------------------------------- programs

def gen_program(rng, lang: str, idx: int, max_small: int = 10):
    """returns (lines, sites) — sites carry the 1-based line, the literal and its position kind"""
    lines, sites = [], []

    def site(line_text, pos, lit, **kw):
        lines.append(line_text)
        text, value, fnode, form = lit
        sites.append({"line": len(lines), "text": text, "value": {"m": value[0], "s": value[1]}, "floatNode": fnode, "pos": pos,
                      "form": form, "testFile": False, "inTest": kw.get("inTest", False), "kind": "literal"})

    def lookalike(line_text, what):
        lines.append(line_text)
        sites.append({"line": len(lines), "kind": "lookalike", "what": what})

    L = lambda: gen_literal(rng, lang)  # noqa: E731
    n_sites = rng.randint(6, 24)
    facts = {"upperConsts": 0, "dictIntKeys": []}

    def py_dict(ind):
        """a multi-line dict display, one key per line; integer-constant keys are what is_definition_file counts"""
        size = rng.choice([2, 3, 3, 4, 4, 5, 6])
        lines.append(f"{ind}table_{len(lines)} = {{")
        ints = 0
        for _ in range(size):
            r = rng.random()
            if r < 0.12:
                lines.append(f"{ind}    'k{len(lines)}': 'v',")
                continue
            lit = L()
            if r < 0.8:
                while lit[2]:
                    lit = L()
            site(f"{ind}    «LIT»: 'v',", "plain", lit)
            ints += (not lit[2])
        lines.append(f"{ind}}}")
        facts["dictIntKeys"].append(ints)

    if lang == "python":
        lines += [f'"""module {idx}"""', "import os", ""]
        n_consts = rng.choice([0, 1, 2]) if rng.random() < 0.7 else rng.choice([7, 8, 9, 9, 9, 10, 10, 12])
        for _ in range(n_consts):
            site(f"MAX_{len(lines)} = «LIT»", "upperConstDirect", L())
        facts["upperConsts"] = n_consts
        for _ in range(rng.choice([0, 0, 1, 2])):     # annotated definitions: constant definitions like the others (not counted by the definition-module heuristic)
            site(f"TYPED_{len(lines)}: int = «LIT»", "upperConstDirect", L())
        lookalike('VERSION = "1.2.3"', "digit string")
        n_dicts = rng.choice([1, 2, 2, 3]) if rng.random() < 0.35 else 0
        inner_dicts = 0
        for _ in range(n_dicts):
            if rng.random() < 0.6:
                py_dict("")
            else:
                inner_dicts += 1
        lines += ["", "", "class Config:"]
        lookalike("    ENABLED = True", "boolean")
        for _ in range(rng.choice([1, 1, 2, 3])):      # class-level constants: exempt positions, but not what makes a definitions *module*
            site("    LIMIT_%d = «LIT»" % len(lines), "upperConstDirect", L())
        lines += ["    def run(self, xs, a, compute):"]
        for _ in range(inner_dicts):
            py_dict("        ")
        body = []
        for _ in range(n_sites):
            k = rng.choice(["plain_call", "plain_ret", "plain_list", "plain_binop", "plain_cmp", "plain_kw", "plain_comp", "plain_sub", "range", "range", "enumerate", "enumerate", "repeat",
                            "nested_const", "deep_const", "lower_assign", "lambda", "dict", "ann_const", "ann_lower"])
            lit = L()
            ind = "        "
            if k == "plain_call":
                site(f"{ind}a = compute(«LIT»)", "plain", lit)
            elif k == "plain_ret":
                site(f"{ind}if a: return «LIT»", "plain", lit)
            elif k == "plain_list":
                site(f"{ind}items = [a, «LIT»]", "plain", lit)
            elif k == "plain_binop":
                site(f"{ind}a = a + «LIT»", "plain", lit)
            elif k == "plain_cmp":
                site(f"{ind}ok = a > «LIT»", "plain", lit)
            elif k == "plain_kw":
                site(f"{ind}a = compute(limit=«LIT»)", "plain", lit)
            elif k == "plain_comp":
                site(f"{ind}ys = [i * «LIT» for i in xs]", "plain", lit)
            elif k == "plain_sub":
                site(f"{ind}first = xs[«LIT»]", "plain", lit)
            elif k == "range":
                if rng.random() < 0.7:     # boundary of the small-integer exemption
                    b = max(0, max_small + rng.choice([-1, 0, 0, 1]))
                    lit = (str(b), (b, 0), False, "small")
                site(f"{ind}for i in range(«LIT»): a += i", "rangeArg", lit)
            elif k == "enumerate":
                if rng.random() < 0.7:
                    b = max(0, max_small + rng.choice([-1, 0, 0, 1]))
                    lit = (str(b), (b, 0), False, "small")
                site(f"{ind}for i, x in enumerate(xs, «LIT»): a += i", "enumerateArg", lit)
            elif k == "repeat":
                if lit[1][1] == 0:
                    site(f'{ind}line = "-" * «LIT»', "strRepeat", lit)
                else:
                    site(f"{ind}a = a * «LIT»", "plain", lit)
            elif k == "nested_const":
                site(f"{ind}LIMITS = [«LIT»]", "upperConstNested", lit)
            elif k == "deep_const":
                site(f"{ind}RETRY = compute(max(a, «LIT»))", "upperConstDeep", lit)
            elif k == "lower_assign":
                site(f"{ind}timeout = «LIT»", "plain", lit)
            elif k == "ann_const":
                site(f"{ind}RATE_{len(lines)}: float = «LIT»", "upperConstDirect", lit)
            elif k == "ann_lower":
                site(f"{ind}rate_{len(lines)}: float = «LIT»", "plain", lit)
            elif k == "lambda":
                site(f"{ind}f = lambda z: z + «LIT»", "plain", lit)
            else:
                site(f"{ind}d = {{'k': «LIT»}}", "plain", lit)
        lookalike('        label = "route 66"', "digit string")
        lookalike("        flag = a is True or False", "boolean")
        lines += ["        return a", ""]
        site("def helper(a=«LIT»): return a", "plain", L())
    elif lang in ("typescript", "javascript"):
        ts = lang == "typescript"
        for _ in range(rng.randint(0, 2)):
            site("const MAX_%d = «LIT»;" % len(lines), "upperConstDirect", L())
        lookalike('const VERSION = "1.2.3";', "digit string")
        lookalike("const ENABLED = true;", "boolean")
        if ts:
            lines.append("enum Color {")
            site("  RED = «LIT»,", "enumMember", L())
            site("  GREEN = «LIT»,", "enumMember", L())
            lines.append("}")
        lines.append("class Config {")
        lines.append("  run(xs, a, compute) {" if not ts else "  run(xs: number[], a: number, compute: any) {")
        for _ in range(n_sites):
            k = rng.choice(["call", "ret", "arr", "binop", "cmp", "lower", "nested_const", "nested_arr", "deep_const", "pair", "lowerpair", "idx", "arrow", "multi_decl", "multi_decl_rev", "multi_let"])
            lit = L()
            ind = "    "
            if k == "call":
                site(f"{ind}a = compute(«LIT»);", "plain", lit)
            elif k == "ret":
                site(f"{ind}if (a) {{ return «LIT»; }}", "plain", lit)
            elif k == "arr":
                site(f"{ind}const items = [a, «LIT»];", "plain", lit)
            elif k == "binop":
                site(f"{ind}a = a + «LIT»;", "plain", lit)
            elif k == "cmp":
                site(f"{ind}const ok = a > «LIT»;", "plain", lit)
            elif k == "lower":
                site(f"{ind}const timeout = «LIT»;", "plain", lit)
            elif k == "nested_const":
                site(f"{ind}const TIMEOUT_MS = a * «LIT»;", "upperConstNested", lit)
            elif k == "nested_arr":
                site(f"{ind}const LIMITS = [«LIT»];", "upperConstNested", lit)
            elif k == "deep_const":
                site(f"{ind}const RETRY = compute(a, [«LIT»]);", "upperConstDeep", lit)
            elif k == "pair":
                site(f"{ind}const cfg = {{ TIMEOUT: «LIT» }};", "upperConstDirect", lit)
            elif k == "lowerpair":
                site(f"{ind}const opts = {{ timeout: «LIT» }};", "plain", lit)
            elif k == "idx":
                site(f"{ind}const first = xs[«LIT»];", "plain", lit)
            elif k == "multi_decl":      # one declaration, several declarators: each name decides for its own value only
                site(f"{ind}const MAX_RETRIES_{len(lines)} = «LIT»,", "upperConstDirect", lit)
                site(f"{ind}  backoff_{len(lines)} = «LIT»;", "plain", L())
            elif k == "multi_decl_rev":
                site(f"{ind}const delay_{len(lines)} = «LIT»,", "plain", lit)
                site(f"{ind}  LIMIT_{len(lines)} = «LIT»;", "upperConstDirect", L())
            elif k == "multi_let":
                site(f"{ind}for (let START_{len(lines)} = «LIT»,", "upperConstDirect", lit)
                site(f"{ind}  stop_{len(lines)} = «LIT»; a < stop_{len(lines)}; a++) {{ a += xs.length; }}", "plain", L())
            else:
                site(f"{ind}const f = (z) => z + «LIT»;", "plain", lit)
        lookalike('    const label = "route 66";', "digit string")
        lines += ["    return a;", "  }", "}"]
        site("function helper(a = «LIT») { return a; }", "plain", L())
    else:
        site("const MAX_A: u64 = «LIT»;", "upperConstDirect", L())
        site("static LIMIT_B: u64 = «LIT»;", "upperConstDirect", L())
        site("const NESTED_C: u64 = BASE_Z * «LIT»;", "upperConstNested", L())
        site("const DEEP_D: u64 = compute(min(BASE_Z, «LIT»));", "upperConstDeep", L())
        lookalike('const VERSION: &str = "1.2.3";', "digit string")
        lookalike("const ENABLED: bool = true;", "boolean")
        lines.append("fn run(xs: Vec<f64>, a: f64) -> f64 {")
        for _ in range(n_sites):
            k = rng.choice(["call", "let", "binop", "cmp", "arr", "ret", "closure", "idx"])
            lit = L()
            ind = "    "
            if k == "call":
                site(f"{ind}let v{len(lines)} = compute(«LIT»);", "plain", lit)
            elif k == "let":
                site(f"{ind}let v{len(lines)} = «LIT»;", "plain", lit)
            elif k == "binop":
                site(f"{ind}let v{len(lines)} = a + «LIT» as f64;", "plain", lit)
            elif k == "cmp":
                site(f"{ind}let v{len(lines)} = a > «LIT» as f64;", "plain", lit)
            elif k == "arr":
                site(f"{ind}let v{len(lines)} = [a, «LIT»];", "plain", lit)
            elif k == "ret":
                site(f"{ind}if flag {{ return «LIT» as f64; }}", "plain", lit)
            elif k == "closure":
                site(f"{ind}let v{len(lines)} = |z: f64| z + «LIT» as f64;", "plain", lit)
            else:
                site(f"{ind}let v{len(lines)} = xs.get(«LIT»);", "plain", lit)
        lookalike('    let label = "route 66";', "digit string")
        lines += ["    a", "}", ""]
        lines += ["#[test]", "fn check_it() {"]
        site("    let expected = «LIT»;", "plain", L(), inTest=True)
        lines += ["}", "", "#[cfg(test)]", "mod tests {", "    fn helper() -> u64 {"]
        site("        «LIT»", "plain", L(), inTest=True)
        lines += ["    }", "}"]
    # fill the literal text in
    out_lines = []
    bysite = {s["line"]: s for s in sites if s["kind"] == "literal"}
    for i, l in enumerate(lines, 1):
        out_lines.append(l.replace("«LIT»", bysite[i]["text"]) if i in bysite else l)
    return out_lines, sites, facts


def val_json(fr: Fraction):
    # exact decimal of a short literal
    s = 0
    while (fr * 10 ** s).denominator != 1:
        s += 1
    return {"m": int(fr * 10 ** s), "s": s}


def gen_cfg(rng, sites):
    vals = [py_number((s["value"]["m"], s["value"]["s"])) for s in sites if s["kind"] == "literal"]
    base = rng.choice([[-1, 0, 1, 2, 3, 4, 5, 10, 100, 1000], [0, 1], [2, 7], [0, 1, 2, 255, 3.75], list(range(0, 11))])
    allowed = [Fraction(str(x)) for x in base] + rng.sample(vals, min(len(vals), rng.randint(0, 3)))
    return {"allowed": allowed, "maxSmall": rng.choice([1, 3, 7, 10, 10, 12, 20])}


def cfg_yaml(cfg) -> str:
    nums = ", ".join(str(int(a)) if a.denominator == 1 else str(float(a)) for a in cfg["allowed"])
    return f"magic-numbers:\n  allowed_numbers: [{nums}]\n  max_small_integer: {cfg['maxSmall']}\n"


MSG = re.compile(r"Magic number (.+?) should be a named constant")


NUM_TOKEN = re.compile(r"(?<![\w.])(?:\d+\.\d+(?:[eE][+-]?\d+)?|\d+[eE][+-]?\d+|\d+|True|False)(?![\w])")


def named_number(message: str) -> str:
    """the value a differently worded message names: its first numeric token"""
    m = NUM_TOKEN.search(message)
    return m.group(0) if m else message


def impl_case(args) -> dict:
    idx, lang, text, cfgs, fname, root = args
    proj = Path(root) / f"g{idx}"
    proj.mkdir(parents=True)
    out = {"errors": [], "runs": []}
    try:
        f = proj / fname
        f.write_text(text)
        for cfg_text in cfgs:
            (proj / ".thailint.yaml").write_text(cfg_text)
            code, stdout = core.run_cli(["--project-root", str(proj), "magic-numbers", "--format", "json", str(f)], cwd=proj)
            vs = core.violations_json(stdout)
            if vs is None:
                out["errors"].append(f"exit {code}: {stdout[:300]}")
                out["runs"].append(None)
                continue
            rep = []
            for v in vs:
                m = MSG.search(v["message"])
                rep.append([v["line"], m.group(1) if m else named_number(v["message"]), v["rule_id"]])
            out["runs"].append({"exit": code, "reports": sorted(rep)})
    except Exception as exc:  # noqa: BLE001
        out["errors"].append(f"{type(exc).__name__}: {exc}")
    finally:
        shutil.rmtree(proj, ignore_errors=True)
    return out


def parse_reported(txt: str):
    if txt in ("True", "False"):
        return txt
    try:
        return Fraction(txt) if "e" not in txt.lower() and "." not in txt else Fraction(str(float(txt))) if "e" in txt.lower() else Fraction(txt)
    except (ValueError, ZeroDivisionError):
        return txt


def run(tier: str, seed: int, st: core.ProofStatus) -> core.Result:
    res = core.Result()
    res.rule = ("seeded programs per language (python, typescript, javascript, rust) with 8-30 literal sites, one per line, over every "
                "lexical form (dec, hex with/without e, 0o, 0b, underscore, float, exponent, BigInt, legacy octal, Rust suffixes, hex "
                "ending in f32) x position kinds, plus digit strings and booleans; 3 configs per program: random allowed_numbers / "
                "max_small_integer, the same + v, the same - v'; test-file names for a share of the programs; Python files also vary "
                "what makes a constants-definition module (file name patterns and near misses, 0-12 module-level constants, 0-3 "
                "dict displays with 0-6 integer keys each, module level or nested); TS/JS declarations with several declarators; non-trivial = at least "
                "one reported and one exempt/allowed site; distinct by program text + config")
    rng = core.sub_rng(seed, PROP, tier)
    n = 400 if tier == "quick" else 3000
    work, metas = [], []
    root = core.scratch_dir("c02")
    for i in range(n):
        lang = ["python", "typescript", "rust", "javascript"][i % 4] if rng.random() < 0.9 else rng.choice(["python", "typescript", "rust"])
        ms = rng.choice([1, 3, 6, 7, 9, 10, 10, 12, 20])
        lines, sites, facts = gen_program(rng, lang, i, ms)
        cfg = gen_cfg(rng, sites)
        cfg["maxSmall"] = ms
        lits = [s for s in sites if s["kind"] == "literal"]
        v_add = py_number((lambda s: (s["value"]["m"], s["value"]["s"]))(rng.choice(lits)))
        cfg_add = {"allowed": cfg["allowed"] + [v_add], "maxSmall": cfg["maxSmall"]}
        v_rm = rng.choice(cfg["allowed"])
        cfg_rm = {"allowed": [a for a in cfg["allowed"] if a != v_rm], "maxSmall": cfg["maxSmall"]}
        testfile = rng.random() < 0.12
        fname = {"python": "test_mod%d.py" if testfile else "mod%d.py", "typescript": "mod%d.test.ts" if testfile else "mod%d.ts",
                 "javascript": "mod%d.spec.js" if testfile else "mod%d.js", "rust": "mod%d.rs"}[lang] % i
        if lang == "python" and not testfile and rng.random() < 0.15:
            # definition-file names (any letter case) and near misses
            fname = rng.choice(["status_codes.py", "constants.py", "app_constants.py", "Error_Codes.py", "CONSTANTS.py",
                                "codes.py", "constantsx.py", "status_codes_v2.py", "myconstants.py"])
        facts["name"] = fname
        if testfile and lang != "rust":
            for s in lits:
                s["testFile"] = True
        cfgs = [cfg, cfg_add, cfg_rm]
        work.append((i, lang, "\n".join(lines) + "\n", [cfg_yaml(c) for c in cfgs], fname, str(root)))
        metas.append({"lang": lang, "lines": lines, "sites": sites, "cfgs": cfgs, "fname": fname, "v_add": v_add, "v_rm": v_rm, "facts": facts})
    try:
        impls = core.pmap(impl_case, work, procs=16)
    finally:
        shutil.rmtree(root, ignore_errors=True)
    drv = core.Driver()
    for (i, lang, text, _c, fname, _r), meta, im in zip(work, metas, impls):
        lits = [s for s in meta["sites"] if s["kind"] == "literal"]
        looks = [s for s in meta["sites"] if s["kind"] == "lookalike"]
        mlang = "typescript" if lang == "javascript" else lang
        prev_reports = None
        for k, cfg in enumerate(meta["cfgs"]):
            res.evaluations += 1
            case = {"lang": lang, "file": fname, "text": text, "config": cfg_yaml(cfg), "config_index": k}
            run_ = im["runs"][k] if k < len(im["runs"]) else None
            if run_ is None:
                res.disagreements.append(core.Disagreement(case=case, impl=im["errors"], model=None, spec=None, property_fails=True, note=(im["errors"] or ["no output"])[0][:500]))
                continue
            m = drv.call({"prop": PROP, "lang": mlang, "allowed": [val_json(a) for a in cfg["allowed"]], "maxSmall": cfg["maxSmall"], "sites": lits, "file": meta["facts"]})
            if lang == "python":
                res.bump("python file", "definition file" if m["definitionFile"] else "ordinary file")
                if meta["facts"]["dictIntKeys"]:
                    ks = meta["facts"]["dictIntKeys"]
                    res.bump("int-keyed dicts", "one >= 5" if max(ks) >= 5 else "all < 5, sum >= 5" if sum(ks) >= 5 else "all < 5")
            by_line = {}
            for line, val, rid in run_["reports"]:
                by_line.setdefault(line, []).append(val)
            problems, fails = [], False
            n_flag = n_noflag = 0
            for s, ms in zip(lits, m["sites"]):
                res.bump("form", s["form"])
                res.bump("pos", s["pos"])
                got = by_line.pop(s["line"], [])
                want_m, want_s = ms["flag"], ms["spec"]
                n_flag += want_m
                n_noflag += (not want_m)
                if len(got) > 1:
                    problems.append(f"line {s['line']} ({s['text']} as {s['pos']}): reported {len(got)} times")
                    fails = True
                rep = bool(got)
                if rep != want_m:
                    problems.append(f"line {s['line']}: literal {s['text']} in position {s['pos']}: implementation {'reports' if rep else 'does not report'}, "
                                    f"model {'reports' if want_m else 'does not'}, specification {'reports' if want_s else 'does not'}")
                    if rep != want_s:
                        fails = True
                elif want_m != want_s:
                    for fid in ms["explain"]:
                        res.findings.setdefault(fid, {"lang": lang, "literal": s["text"], "position": s["pos"], "line": s["line"], "reported": rep,
                                                      "file_text": text, "config": cfg_yaml(cfg)})
                if rep and ms["parsed"] is not None:
                    named = parse_reported(got[0])
                    if named != py_number((ms["parsed"]["m"], ms["parsed"]["s"])):
                        problems.append(f"line {s['line']}: message names {got[0]}, the literal {s['text']} is read as {ms['parsed']}")
                        if named != py_number((s["value"]["m"], s["value"]["s"])):
                            fails = True
            for s in looks:
                got = by_line.pop(s["line"], [])
                if got:
                    problems.append(f"line {s['line']}: a {s['what']} was reported as magic number {got}")
                    fails = True
            if by_line:
                problems.append(f"reports on lines without a literal site: {by_line}")
                fails = True
            if run_["exit"] != (1 if run_["reports"] else 0):
                problems.append(f"exit {run_['exit']} with {len(run_['reports'])} reports")
                fails = True
            # delta law on the real tool: config 1 = config 0 + v_add ; config 2 = config 0 - v_rm
            if k == 0:
                prev_reports = run_["reports"]
            elif k == 1 and prev_reports is not None:
                expect = [r for r in prev_reports if parse_reported(r[1]) != meta["v_add"]]
                if sorted(run_["reports"]) != sorted(expect):
                    problems.append(f"allowing {meta['v_add']} changed the report by more/less than the literals of that value: "
                                    f"{[r for r in run_['reports'] if r not in expect][:2]} / {[r for r in expect if r not in run_['reports']][:2]}")
                    fails = True
            elif k == 2 and prev_reports is not None:
                kept = [r for r in run_["reports"] if parse_reported(r[1]) != meta["v_rm"]]
                if sorted(kept) != sorted(prev_reports):
                    problems.append(f"removing {meta['v_rm']} from allowed_numbers changed reports of other values")
                    fails = True
            if n_flag and n_noflag:
                res.nontrivial.add(core.canon([text, cfg_yaml(cfg)]))
            if problems:
                res.disagreements.append(core.Disagreement(case=case, impl=run_["reports"][:12], model=[ms["flag"] for ms in m["sites"]], spec=[ms["spec"] for ms in m["sites"]],
                                                           property_fails=fails, note=" | ".join(problems)[:3000]))
            if len(res.samples) < 3 and k == 0 and n_flag >= 3:
                res.samples.append({"lang": lang, "config": cfg_yaml(cfg), "sites": [[s["line"], s["text"], s["pos"]] for s in lits[:10]], "reports": run_["reports"][:8]})
    drv.close()
    return res


def replay(path: str, st: core.ProofStatus) -> int:
    data = json.loads(Path(path).read_text())
    case = data.get("case") or data.get("witness")
    if not case or "file_text" not in case and "text" not in case:
        print(json.dumps(data, indent=1)[:2000])
        return 1
    text = case.get("text") or case.get("file_text")
    lang = case.get("lang", "python")
    root = core.scratch_dir("c02r")
    im = impl_case((0, lang, text, [case["config"]], case.get("file", "mod." + EXT[lang]), str(root)))
    shutil.rmtree(root, ignore_errors=True)
    print(json.dumps(im, indent=1)[:2500])
    print(f"VIOLATION property={PROP} replay={path}")
    return 1
