"""C03 — duplicate-code findings are sound, mutual and complete.  Projects built from statement pools
with planted duplicate runs (any length, position, multiplicity, indentation, interleaved comments and
blank lines); the real `thailint dry` is compared with the Lean pipeline model on the token lists, an
independent text oracle re-reads every reported and referenced range from disk, and coverage /
mutuality / count are evaluated on the real output."""
from __future__ import annotations

import json
import re
import shutil
from pathlib import Path

from .. import core

PROP = "C03"
LEVEL_NOTE = ("theorems range over projects as token lists (original line, normalised text) with collision-free hashing; "
              "single-statement detection and block filters are assumed to be the identity on the statement pools used; "
              "hash() collisions would be exposed by the independent text oracle")


# ----------------------------------------------------------------------------- generator

def py_stmt(i: int) -> str:
    forms = ["value_{i} = compute(alpha, {i})", "result_{i} = transform(value, beta_{i})", "store.append(item_{i})", "total = total + weight_{i}",
             "handle(event_{i}, context)", "name_{i} = str(owner) + suffix", "count_{i} = len(items) + {i}", "emit(signal_{i})",
             # statements that merely *begin* like an import / export line
             "from_addr_{i} = lookup(total)", "imported_{i} = value + {i}", "importer.load(item_{i})", "exported_{i} = str(total)"]
    return forms[i % len(forms)].format(i=i)


def ts_stmt(i: int) -> str:
    forms = ["const value{i} = compute(alpha, {i});", "result{i} = transform(value, beta{i});", "store.push(item{i});", "total = total + weight{i};",
             "handle(event{i}, context);", "emit(signal{i});", "exports.total{i} = total;", "importScripts(url{i});", "fromEvent(node, name{i});", "exportAll(store, {i});"]
    return forms[i % len(forms)].format(i=i)


def gen_project(rng, lang_mix=True):
    """returns (files: [(name, lines)], tokens: [[(line, text)]]) — lines already rendered"""
    n_files = rng.randint(2, 6)
    # shared runs
    runs = []
    for r in range(rng.randint(1, 3)):
        length = rng.randint(2, 9)
        base = 100 * (r + 1)
        runs.append({"lang": "ts" if (lang_mix and rng.random() < 0.3) else "py", "stmts": list(range(base, base + length))})
    files = []
    uniq = [1000]

    def fresh():
        uniq[0] += 1
        return uniq[0]

    for fi in range(n_files):
        lang = rng.choice(["py", "py", "ts"]) if lang_mix else "py"
        stmt = py_stmt if lang == "py" else ts_stmt
        out = []       # (text or None for blank/comment-only, rendered line)
        if lang == "py":
            out.append((None, f'"""module {fi}"""'))
            out.append((None, ""))
        for fn in range(rng.randint(1, 3)):
            ind = "    " if lang == "py" else "  "
            # where the statements live: a plain function, a coroutine, a method or coroutine method of a class that has no other
            # member, a function declared under a compound statement; TypeScript: function, async function, arrow function, method
            kind = rng.choice(["def", "def", "async", "method", "async_method", "under_if"] if lang == "py" else ["function", "function", "async", "arrow", "method"])
            closers = []
            if lang == "py":
                params = "(alpha, value, items, store, owner, context):"
                if kind in ("method", "async_method"):
                    out.append((f"class K_{fi}_{fn}:", None))
                    out.append((("async def" if kind == "async_method" else "def") + f" run_{fi}_{fn}" + params.replace("(", "(self, "), "    " + ("async def" if kind == "async_method" else "def") + f" run_{fi}_{fn}" + params.replace("(", "(self, ")))
                    ind = "        "
                elif kind == "under_if":
                    out.append((f"if FEATURE_{fi}_{fn}:", None))
                    out.append((f"def fn_{fi}_{fn}" + params, f"    def fn_{fi}_{fn}" + params))
                    ind = "        "
                else:
                    out.append((("async def" if kind == "async" else "def") + f" fn_{fi}_{fn}" + params, None))
            else:
                params = "(alpha, value, items, store, context)"
                if kind == "method":
                    out.append((f"class K_{fi}_{fn} {{", None))
                    out.append((f"run_{fi}_{fn}{params} {{", f"  run_{fi}_{fn}{params} {{"))
                    ind, closers = "    ", [("}", "  }"), ("}", "}")]
                elif kind == "arrow":
                    out.append((f"const fn_{fi}_{fn} = {params} => {{", None))
                    closers = [("};", "};")]
                else:
                    out.append((("async " if kind == "async" else "") + f"function fn_{fi}_{fn}{params} {{", None))
                    closers = [("}", "}")]
            body = []
            for _ in range(rng.randint(0, 4)):
                body.append(stmt(fresh()))
            for run in runs:
                if run["lang"] == lang and rng.random() < 0.6:
                    a = rng.randint(0, max(0, len(run["stmts"]) - 2))
                    b = rng.randint(a + 2, len(run["stmts"])) if rng.random() < 0.5 else len(run["stmts"])
                    body += [stmt(s) for s in run["stmts"][a:b]]
                    for _ in range(rng.randint(0, 2)):
                        body.append(stmt(fresh()))
                    if rng.random() < 0.25:       # the same run twice in one file
                        body += [stmt(s) for s in run["stmts"]]
            if rng.random() < 0.25:
                # periodic run inside one function: windows of the same text that share lines (A B A B A ...)
                period = [stmt(900 + rng.randint(0, 3)) for _ in range(rng.choice([1, 2, 2, 3]))]
                body += (period * rng.randint(2, 5))[: rng.randint(3, 9)]
            if not body:
                body.append(stmt(fresh()))
            for b in body:
                # interleave blank / comment-only lines, trailing comments, indentation noise
                r = rng.random()
                if r < 0.04:
                    # characters that str.splitlines() treats as line ends but compilers, editors and `\n`-counting do not: a form
                    # feed page separator, a comment holding NEL / LINE SEPARATOR / FILE SEPARATOR
                    out.append((None, rng.choice(["\x0c", ind + ("# " if lang == "py" else "// ") + "page\u2028break", ind + ("# " if lang == "py" else "// ") + "a\x85b", ind + ("# " if lang == "py" else "// ") + "x\x1cy"])))
                elif r < 0.15:
                    out.append((None, ""))
                elif r < 0.3:
                    out.append((None, ind + ("# note" if lang == "py" else "// note")))
                    if rng.random() < 0.3:
                        for _ in range(rng.randint(1, 6)):
                            out.append((None, ind + ("# more" if lang == "py" else "// more")))
                extra = rng.choice(["", "", " ", "  # trailing" if lang == "py" else "  // trailing"])
                spaces = ind + (" " * rng.choice([0, 0, 0, 4]) if lang == "ts" else "")
                out.append((b, spaces + b.replace(" = ", rng.choice([" = ", "  =  "])) + extra))
            if lang == "py":
                out.append(("return total", ind + "return total"))
                out.append((None, ""))
            else:
                out += closers
                out.append((None, ""))
        if lang == "py" and rng.random() < 0.12:
            # a file the running interpreter cannot parse (a Python 2 print statement at its very end): duplicate-code detection
            # works on text, so the runs of such a file count like any other
            out.append(('print "legacy %d"' % fi, None))
        lines, toks = [], []
        for text, rendered in out:
            if rendered is None:
                rendered = text
            lines.append(rendered)
            if text is not None:
                toks.append((len(lines), " ".join(text.split())))
        files.append((f"f{fi}.{lang}", lines, toks))
    return files


# ----------------------------------------------------------------------------- implementation side
# the message must carry the block length, the occurrence count and the other locations; its wording is not the property's
# business, so the three are read wherever they stand
MSG_SPAN = re.compile(r"(\d+)\s+lines?\b")
MSG_COUNT = re.compile(r"(\d+)\s+(?:occurrences?|times|places|copies)\b")
MSG_REF = re.compile(r"([^\s,;()]+?):(\d+)-(\d+)")


def normalise_range(path: Path, a: int, b: int):
    """independent text oracle: comment-stripped, whitespace-collapsed non-empty lines of a range"""
    out = []
    for line in path.read_text().split("\n")[a - 1:b]:
        if "#" in line and path.suffix == ".py":
            line = line[: line.index("#")]
        if "//" in line and path.suffix != ".py":
            line = line[: line.index("//")]
        line = " ".join(line.split())
        if line:
            out.append(line)
    return out


def impl_case(args) -> dict:
    idx, files, k, min_occ, root = args
    proj = Path(root) / f"d{idx}"
    proj.mkdir(parents=True)
    out = {"errors": [], "vs": None}
    try:
        for name, lines, _ in files:
            (proj / name).write_text("\n".join(lines) + "\n")
        (proj / ".thailint.yaml").write_text(
            f"dry:\n  enabled: true\n  min_duplicate_lines: {k}\n  min_occurrences: {min_occ}\n  ignore_patterns: []\n  detect_duplicate_constants: false\n")
        code, stdout = core.run_cli(["dry", "--format", "json", "."], cwd=proj)
        vs = core.violations_json(stdout)
        if vs is None:
            out["errors"].append(f"exit {code}: {stdout[:300]}")
            return out
        recs = []
        for v in vs:
            m1, m2 = MSG_SPAN.search(v["message"]), MSG_COUNT.search(v["message"])
            if not m1 or not m2:
                out["errors"].append("unparsable message: " + v["message"][:200])
                continue
            refs = [[Path(p).name, int(a), int(b)] for p, a, b in MSG_REF.findall(v["message"])]
            rec = {"file": Path(v["file_path"]).name, "line": v["line"], "span": int(m1.group(1)), "count": int(m2.group(1)), "refs": sorted(refs), "column": v["column"]}
            own = normalise_range(proj / rec["file"], rec["line"], rec["line"] + rec["span"] - 1)
            rec["text_ok"] = all(normalise_range(proj / rf, ra, rb) == own for rf, ra, rb in refs) and len(own) >= k
            recs.append(rec)
        out["vs"] = recs
        out["exit"] = code
    except Exception as exc:  # noqa: BLE001
        import traceback
        out["errors"].append(f"{type(exc).__name__}: {exc} {traceback.format_exc()[-300:]}")
    finally:
        shutil.rmtree(proj, ignore_errors=True)
    return out


F03A_FILES = [("f0.py", ["def a(alpha, store):", "    x1 = compute(alpha, 1)", "    x2 = compute(alpha, 2)", "    x3 = compute(alpha, 3)", "    y1 = compute(alpha, 4)"]
               + ["    # spacer"] * 8 + ["    y2 = compute(alpha, 5)", "    y3 = compute(alpha, 6)", "    z9 = other(alpha)"], None),
              ("f1.py", ["def b(alpha, store):", "    x1 = compute(alpha, 1)", "    x2 = compute(alpha, 2)", "    x3 = compute(alpha, 3)"], None),
              ("f2.py", ["def c(alpha, store):", "    y1 = compute(alpha, 4)", "    y2 = compute(alpha, 5)", "    y3 = compute(alpha, 6)"], None)]


def tokens_of(files):
    ids = {}
    out = []
    for name, lines, toks in files:
        if toks is None:
            toks = [(i, " ".join(l.split())) for i, l in enumerate(lines, 1) if l.strip() and not l.strip().startswith(("#", "//"))]
        out.append([[ln, ids.setdefault(t, len(ids))] for ln, t in toks])
    return out


def run(tier: str, seed: int, st: core.ProofStatus) -> core.Result:
    res = core.Result()
    res.rule = ("seeded projects of 2-6 Python/TypeScript files built from one-line statement pools with 1-3 planted runs (length 2-9, "
                "partial overlaps, 1-2 occurrences per file, varied indentation, trailing comments, interleaved blank / comment lines) x "
                "min_duplicate_lines 2..6 x min_occurrences 2..4; oracle = Lean pipeline model on the token lists + independent text "
                "oracle + coverage/mutuality on the real output; non-trivial = at least one violation; distinct by (files, k, minOcc)")
    rng = core.sub_rng(seed, PROP, tier)
    n = 240 if tier == "quick" else 2500
    cases = [{"files": F03A_FILES, "k": 3, "minOcc": 2, "probe": True}]
    corpus = core.VERIF / "harness" / "corpus" / PROP
    for _ in range(n):
        mix = rng.random() < 0.3     # TypeScript files: the TS single-statement heuristics are not modelled -> property oracles only
        cases.append({"files": gen_project(rng, lang_mix=mix), "k": rng.choice([2, 3, 3, 4, 5, 6]), "minOcc": rng.choice([2, 2, 2, 3, 4]), "mixed": mix})
    root = core.scratch_dir("c03")
    try:
        impls = core.pmap(impl_case, [(i, c["files"], c["k"], c["minOcc"], str(root)) for i, c in enumerate(cases)], procs=16)
    finally:
        shutil.rmtree(root, ignore_errors=True)
    drv = core.Driver()
    # probe: which overlap test does the implementation use? (finding F03a when it is the candidate's own span)
    probe = impls[0]
    kept_span = True
    if probe["vs"] is not None:
        kept_span = any(v["file"] == "f0.py" and v["line"] == 5 for v in probe["vs"])
    res.extra["observed_overlap_test"] = "kept violation's span (repaired)" if kept_span else "candidate's own span (finding F03a)"
    for c, im in zip(cases, impls):
        res.evaluations += 1
        names = sorted(n for n, _, _ in c["files"])
        files_sorted = sorted(c["files"], key=lambda f: f[0])
        case = {"files": [[n, l] for n, l, _ in files_sorted], "k": c["k"], "minOcc": c["minOcc"]}
        if im["errors"] or im["vs"] is None:
            res.disagreements.append(core.Disagreement(case=case, impl=im["errors"], model=None, spec=None, property_fails=True, note=(im["errors"] or ["no output"])[0][:600]))
            continue
        m = drv.call({"prop": PROP, "files": tokens_of(files_sorted), "k": c["k"], "minOcc": c["minOcc"], "keptSpan": kept_span})

        def canon(vs, from_model):
            out = []
            for v in vs:
                if from_model:
                    out.append([names[v["file"]], v["line"], v["span"], v["count"], sorted([names[r[0]], r[1], r[2]] for r in v["refs"])])
                else:
                    out.append([v["file"], v["line"], v["span"], v["count"], v["refs"]])
            return sorted(out)
        got, want, fixed = canon(im["vs"], False), canon(m["report"], True), canon(m["reportFixed"], True)
        res.bump("k", c["k"])
        res.bump("minOcc", c["minOcc"])
        res.bump("violations", min(len(got), 12))
        if got:
            res.nontrivial.add(core.canon(case))
        problems, fails = [], False
        modelled = not c.get("mixed")
        res.bump("model_compared", modelled)
        if modelled and got != want:
            problems.append(f"implementation reports {len(got)} violations, model {len(want)}: only-impl {[v for v in got if v not in want][:2]} only-model {[v for v in want if v not in got][:2]}")
        # property oracles on the real output
        for v in im["vs"]:
            if not v["refs"]:
                problems.append(f"{v['file']}:{v['line']} names no other location")
                fails = True
            if not v["text_ok"]:
                problems.append(f"{v['file']}:{v['line']}: a named location does not carry the same normalised text as the reported block")
                fails = True
            if v["count"] != len(v["refs"]) + 1:
                problems.append(f"{v['file']}:{v['line']}: message says {v['count']} occurrences but names {len(v['refs'])} other locations")
                fails = True
            for rf, ra, rb in v["refs"]:
                if not any(w["file"] == rf and w["line"] <= rb and ra <= w["line"] + w["span"] - 1 for w in im["vs"]):
                    if kept_span:
                        problems.append(f"{v['file']}:{v['line']} names {rf}:{ra}-{rb}, which no reported violation covers")
                        fails = True
                    else:
                        res.findings.setdefault("F03a", {"named": [rf, ra, rb], "by": [v["file"], v["line"]], "case": case})
        if modelled and m["dupSnippets"] == 0 and got:
            problems.append("violations although no window text occurs twice")
            fails = True
        # completeness against the raw occurrences of the model (one per non-overlapping occurrence of each duplicated window)
        for r in (m["raw"] if modelled else []):
            fn = names[r["file"]]
            if not any(w["file"] == fn and w["line"] <= r["line"] + r["span"] - 1 and r["line"] <= w["line"] + w["span"] - 1 for w in im["vs"]):
                if kept_span:
                    problems.append(f"occurrence {fn}:{r['line']} (+{r['span']}) of a duplicated block is covered by no violation")
                    fails = True
                else:
                    res.findings.setdefault("F03a", {"uncovered": [fn, r["line"], r["span"]], "case": case})
        if modelled and got != want and got != fixed:
            fails = True
        if problems:
            res.disagreements.append(core.Disagreement(case=case, impl=got[:10], model=want[:10], spec=fixed[:10], property_fails=fails, note=" | ".join(problems)[:3000]))
        if len(res.samples) < 2 and len(got) >= 3:
            res.samples.append({"files": {n: l[:14] for n, l, _ in files_sorted[:2]}, "k": c["k"], "minOcc": c["minOcc"], "violations": got[:4]})
    drv.close()
    return res


def replay(path: str, st: core.ProofStatus) -> int:
    data = json.loads(Path(path).read_text())
    case = data.get("case") or (data.get("witness") or {}).get("case")
    if not case:
        print(json.dumps(data, indent=1)[:2000])
        return 1
    files = [(n, l, None) for n, l in case["files"]]
    root = core.scratch_dir("c03r")
    im = impl_case((0, files, case["k"], case["minOcc"], str(root)))
    shutil.rmtree(root, ignore_errors=True)
    print(json.dumps(im, indent=1)[:3000])
    print(f"VIOLATION property={PROP} replay={path}")
    return 1
