"""C04 — suppression directives silence exactly what they name, in every linter.
(A) engine level: generated files with directives of every form x comment style x prefix x letter case x
    bare/bracket/space syntax x rule spelling x placement, through IgnoreDirectiveParser.should_ignore_violation
    and through the Lean model of the engine on the same text; specification = what was planted.
(B) linter level: for every linter command, a file with several violations, then one directive inserted
    for one violation (same line / line before / block around / file header; naming the rule, another rule):
    the real CLI before/after must differ by exactly the violations of that rule in scope."""
from __future__ import annotations

import json
import shutil
from pathlib import Path

from .. import core

PROP = "C04"
LEVEL_NOTE = ("the regular expressions of ignore.py are re-stated as string functions in Lean and compared with the real engine on "
              "every generated file; per-linter plumbing (which linters route violations through the engine) is observed, not modelled")
DATA = core.VERIF / "harness" / "data"

RULES = ["magic-numbers.numeric-literal", "nesting.excessive-depth", "srp.violation", "improper-logging.print-statement", "file-placement",
         "dry.duplicate-code", "lbyl.dict-key-check"]


def spellings(rng, rule: str):
    lint = rule.split(".")[0]
    opts = [rule, lint, lint + ".*", rule.upper(), lint.title(), lint.upper() + ".*"]
    if rule == "improper-logging.print-statement":
        opts += ["print-statements.detected", "print-statements", "print-statements.*"]
    return rng.choice(opts)


def name_hits(named: str, rid: str) -> bool:
    """does a directive that names `named` cover the rule `rid`?  (exact rule id, its linter, `linter.*`, any letter case, deprecated aliases)"""
    n, r = named.lower(), rid.lower()
    lint = r.split(".")[0]
    if n == "print-statements.detected":
        return r == "improper-logging.print-statement"
    if n in ("print-statements", "print-statements.*"):
        return lint == "improper-logging"
    return n in (r, lint, lint + ".*")


def other_rule(rng, rule: str):
    return rng.choice([r for r in RULES if r.split(".")[0] != rule.split(".")[0]])


def gen_engine_case(rng):
    """a file of code lines with directives; returns (lines, queries, planted expectation per query)"""
    cm = rng.choice(["#", "#", "//"])
    n = rng.randint(6, 30)
    lines = [f"x{i} = compute({i})" for i in range(n)]
    rule = rng.choice(RULES)
    directives = []   # (kind, line index (0-based), rules spec)
    k = rng.choice(["same", "next", "block", "file", "block", "none", "two-blocks", "unclosed"])
    pre = rng.choice(["thailint:", "thailint:", "design-lint:"])
    named = rng.choice(["rule", "rule", "other", "bare", "multi"])

    def rules_txt(bracket: bool):
        if named == "bare":
            return ""
        names = {"rule": [spellings(rng, rule)], "other": [other_rule(rng, rule)], "multi": [other_rule(rng, rule), spellings(rng, rule)]}[named]
        if bracket:
            return "[" + rng.choice([", ", ","]).join(names) + "]"
        return " " + rng.choice([" ", ", "]).join(names)

    suppress_scope = set()
    names_rule = named in ("rule", "bare", "multi")
    why = rng.choice(["", "", f"  {cm} legacy code"])        # a further comment after the directive
    if k == "same":
        i = rng.randrange(n)
        # (a third of the lines also carry another tool's comment with an `ignore[...]` of its own, before or after the directive)
        foreign = rng.choice(["", "", "before", "after"])
        tool = rng.choice(["type: ignore[arg-type]", "pyright: ignore[reportGeneralTypeIssues]", "type: ignore[" + rule + "]"])
        mine = f"{cm} {pre} ignore{rules_txt(True)}"
        lines[i] += "  " + (f"{cm} {tool}  {mine}" if foreign == "before" else f"{mine}  {cm} {tool}" if foreign == "after" else mine + why)
        suppress_scope = {i + 1}
    elif k == "next":
        i = rng.randrange(1, n)
        lines.insert(i, f"{cm} {pre} ignore-next-line{rules_txt(True)}")
        suppress_scope = {i + 2}
    elif k in ("block", "two-blocks", "unclosed"):
        a = rng.randrange(1, max(2, n - 3))
        b = rng.randrange(a + 1, n)
        lines.insert(a, f"    {cm} {pre} ignore-start{rules_txt(rng.random() < 0.3)}{why}")
        if k != "unclosed":
            lines.insert(b + 1, f"{cm} {pre} ignore-end")
            suppress_scope = set(range(a + 2, b + 2))
        else:
            suppress_scope = set(range(a + 2, len(lines) + 1))
        if k == "two-blocks" and b + 4 < len(lines):
            c = rng.randrange(b + 3, len(lines))
            lines.insert(c, f"{cm} {pre} ignore-start {other_rule(rng, rule)}")
            lines.append(f"{cm} {pre} ignore-end")
    elif k == "file":
        i = rng.choice([0, 1, 3, 8, 9, 10, 11, 15])
        i = min(i, len(lines))
        lines.insert(i, f"{cm} {pre} ignore-file{rules_txt(rng.random() < 0.7)}{why}")
        if i < 10:
            suppress_scope = set(range(1, len(lines) + 1))
    odd = False
    if rng.random() < 0.2:
        # characters that only str.splitlines() takes for line ends (form feed, vertical tab, FS, NEL, LINE SEPARATOR) inside
        # ordinary code lines: line numbers - and with them the scope of every directive - are what LF alone says they are
        odd = True
        for _ in range(rng.randint(1, 3)):
            i = rng.randrange(len(lines))
            if "ignore" not in lines[i]:
                lines[i] += f"  {cm} page" + rng.choice(["\x0c", "\x0b", "\x1c", "\x85", "\u2028"]) + "break"
    # queries: every code line, for the planted rule
    queries = [{"rule": rule, "line": ln} for ln in range(1, len(lines) + 1) if not lines[ln - 1].lstrip().startswith(("#", "//"))]
    spec = [bool(names_rule and q["line"] in suppress_scope) for q in queries]
    return {"lines": lines, "queries": queries, "spec": spec, "kind": k, "style": cm, "named": named, "prefix": pre, "odd_line_ends": odd}


def engine_impl(args):
    idx, lines, queries, root = args
    core._reset_singletons()
    from src.core.types import Violation
    from src.linter_config.ignore import IgnoreDirectiveParser
    d = Path(root) / f"e{idx}"
    d.mkdir(parents=True)
    try:
        f = d / "mod.py"
        content = "\n".join(lines) + "\n"
        f.write_text(content)
        p = IgnoreDirectiveParser(d)
        return [bool(p.should_ignore_violation(Violation(rule_id=q["rule"], file_path=str(f), line=q["line"], column=0, message="m"), content)) for q in queries]
    except Exception as exc:  # noqa: BLE001
        return {"error": f"{type(exc).__name__}: {exc}"}
    finally:
        shutil.rmtree(d, ignore_errors=True)


# ----------------------------------------------------------------------------- linter level

LINTERS = [  # command, file name, content key, comment style, rule prefix of interest
    ("magic-numbers", "m.py", "py", "#"), ("nesting", "m.py", "py", "#"), ("srp", "m.py", "py", "#"), ("print-statements", "m.py", "py", "#"),
    ("method-property", "m.py", "py", "#"), ("stateless-class", "m.py", "py", "#"), ("lbyl", "m.py", "py", "#"), ("perf", "m.py", "py", "#"),
    ("magic-numbers", "m.ts", "ts", "//"), ("nesting", "m.ts", "ts", "//"), ("srp", "m.ts", "ts", "//"), ("print-statements", "m.ts", "ts", "//"),
    ("magic-numbers", "m.rs", "rs", "//"), ("nesting", "m.rs", "rs", "//"), ("srp", "m.rs", "rs", "//"),
    ("unwrap-abuse", "m.rs", "rs", "//"), ("clone-abuse", "m.rs", "rs", "//"), ("blocking-async", "m.rs", "rs", "//"),
]


def _parses(text: str) -> bool:
    import ast
    try:
        ast.parse(text)
        return True
    except (SyntaxError, ValueError):
        return False


def linter_impl(args):
    idx, cmd, fname, text, variants, root = args[:6]
    proj = Path(root) / f"l{idx}"
    proj.mkdir(parents=True)
    out = {"errors": [], "runs": []}
    try:
        if len(args) > 6 and args[6]:
            (proj / ".thailint.yaml").write_text(args[6])
        f = proj / fname
        for label, body in [("base", text)] + variants:
            f.write_text(body)
            code, stdout = core.run_cli(["--project-root", str(proj), cmd, "--format", "json", str(f)], cwd=proj)
            vs = core.violations_json(stdout)
            out["runs"].append({"label": label, "vs": None if vs is None else [[v["rule_id"], v["line"], v["message"]] for v in vs], "raw": "" if vs is not None else stdout[:200]})
    except Exception as exc:  # noqa: BLE001
        out["errors"].append(f"{type(exc).__name__}: {exc}")
    finally:
        shutil.rmtree(proj, ignore_errors=True)
    return out


def gen_crossfile_case(rng):
    """(C) constants defined in two files: the cross-file pass reports each definition; directives in the first file"""
    lang = rng.choice(["py", "py", "ts"])
    n = rng.randint(3, 6)
    names = [f"{rng.choice(['DEFAULT', 'MAX', 'CACHE', 'UPLOAD', 'RETRY'])}_{rng.choice(['TIMEOUT', 'LIMIT', 'BYTES', 'TTL', 'COUNT'])}_{i}" for i in range(n)]
    kinds = [rng.choice(["none", "same", "next", "block", "same-other"] if lang == "py" else ["none", "same", "same-other", "block"]) for _ in range(n)]
    cm = "#" if lang == "py" else "//"
    a, b, expect_a, expect_b = [], [], [], []
    if lang == "py":
        a.append('"""Module a."""')
        b.append('"""Module b."""')
    for name, kind in zip(names, kinds):
        val = 1000 + len(a) * 7
        line = f"{name} = {val}" if lang == "py" else f"export const {name} = {val};"
        b.append(line)
        expect_b.append(len(b))
        other = rng.choice(["nesting", "magic-numbers", "srp"])
        if kind == "same":
            a.append(f"{line}  {cm} thailint: ignore[{rng.choice(['dry', 'dry.duplicate-code', 'dry.*', 'DRY'])}]")
        elif kind == "same-other":
            a.append(f"{line}  {cm} thailint: ignore[{other}]")
            expect_a.append(len(a))
        elif kind == "next":
            a.append(f"{cm} thailint: ignore-next-line[dry]")
            a.append(line)
        elif kind == "block":
            a.append(f"{cm} thailint: ignore-start dry")
            a.append(line)
            a.append(f"{cm} thailint: ignore-end")
        else:
            a.append(line)
            expect_a.append(len(a))
    ext = lang
    return {"files": {f"pkg/a.{ext}": "\n".join(a) + "\n", f"pkg/b.{ext}": "\n".join(b) + "\n"}, "kinds": kinds, "lang": lang,
            "expect": sorted([[f"a.{ext}", ln] for ln in expect_a] + [[f"b.{ext}", ln] for ln in expect_b])}


def crossfile_impl(args):
    idx, case, root = args
    proj = Path(root) / f"x{idx}"
    out = {"errors": [], "runs": {}}
    try:
        (proj / "pkg").mkdir(parents=True)
        (proj / ".thailint.yaml").write_text("dry:\n  enabled: true\n  detect_duplicate_constants: true\n")
        for rel, text in case["files"].items():
            (proj / rel).write_text(text)
        for label, cwd, target in (("relative", proj, "pkg"), ("absolute", proj, str(proj / "pkg")), ("dot", proj / "pkg", ".")):
            code, stdout = core.run_cli(["--project-root", str(proj), "dry", "--format", "json", target], cwd=cwd)
            vs = core.violations_json(stdout)
            out["runs"][label] = None if vs is None else sorted([Path(v["file_path"]).name, v["line"]] for v in vs if "constant" in v["message"].lower())
            if vs is None:
                out["errors"].append(f"{label}: exit {code}: {stdout[:200]}")
    except Exception as exc:  # noqa: BLE001
        out["errors"].append(f"{type(exc).__name__}: {exc}")
    finally:
        shutil.rmtree(proj, ignore_errors=True)
    return out


def run(tier: str, seed: int, st: core.ProofStatus) -> core.Result:
    res = core.Result()
    res.rule = ("(A) seeded files with one or two directives: form (same line, next line, block, two blocks, unclosed block, file header at "
                "lines 1..16) x # / // x thailint / design-lint x rule naming (full id, linter, linter.*, upper/title case, deprecated alias, "
                "other rule, bare, lists) queried on every code line; real engine vs Lean engine vs planted scope. (B) 18 linter x language "
                "cells: for the first violations of a trigger file, a directive naming the rule / another rule is inserted on the line, "
                "before it, around it, in the header; CLI before/after. (C) constants defined in two files (Python, TypeScript) with same-line / next-line / "
                "block directives naming dry or another rule in the first file, `thailint dry` on the directory spelled relative, absolute and `.`. Non-trivial = a case in which some line is suppressed and some is not")
    rng = core.sub_rng(seed, PROP, tier)
    # ---------------- A
    nA = 400 if tier == "quick" else 8000
    casesA = [gen_engine_case(rng) for _ in range(nA)]
    root = core.scratch_dir("c04")
    try:
        implsA = core.pmap(engine_impl, [(i, c["lines"], c["queries"], str(root)) for i, c in enumerate(casesA)], procs=16, chunksize=8)
        drv = core.Driver()
        leansA = drv.batch([{"prop": PROP, "op": "engine", "lines": c["lines"], "queries": c["queries"], "trackStart": True} for c in casesA])
        cells = drv.call({"prop": PROP, "op": "cells", "rule": "magic-numbers.numeric-literal"})
        # the recognised-cells matrix on the real engine
        cell_work = []
        for ci, c in enumerate(cells):
            code = "x = compute(4242)"
            cm = "//" if c["slashes"] else "#"
            if c["form"] == "sameLine":
                lines, q = [code + "  " + c["text"]], 1
            elif c["form"] == "nextLine":
                lines, q = [c["text"], code], 2
            elif c["form"] == "blockStart":
                lines, q = [c["text"], code, f"{cm} thailint: ignore-end"], 2
            else:
                lines, q = [c["text"], code], 2
            cell_work.append((100000 + ci, lines, [{"rule": "magic-numbers.numeric-literal", "line": q}], str(root)))
        cell_impl = core.pmap(engine_impl, cell_work, procs=16, chunksize=4)
        # ---------------- B
        workB, metaB = [], []
        # two texts per linter: the fixed trigger file, and a seeded file with every planted-construct kind three times, under strict limits, so that
        # the rule in question has findings before and after the suppressed one ("changes no other violation")
        from ..gen_constructs import gen_file_all
        rich = {key: gen_file_all(rng, key, f"r{key}", reps=3) for key in ("py", "ts", "rs")}
        strict = ("nesting:\n  max_nesting_depth: 1\nsrp:\n  max_methods: 1\n  max_loc: 4\nmagic-numbers:\n  allowed_numbers: []\n  max_small_integer: 1\n"
                  "stateless-class:\n  min_methods: 1\nmethod-property:\n  max_body_statements: 9\n")
        items = [(cmd, fname, key, cm, (core.VERIF / "harness" / "data" / f"trig.{key}.txt").read_text(), None) for cmd, fname, key, cm in LINTERS]
        items += [(cmd, fname, key, cm, rich[key], strict) for cmd, fname, key, cm in LINTERS]
        for li, (cmd, fname, key, cm, text, cfg) in enumerate(items):
            workB.append((li, cmd, fname, text, [], str(root), cfg))
        baseB = core.pmap(linter_impl, workB, procs=16)
        work2 = []
        for li, ((cmd, fname, key, cm, text, cfg), b) in enumerate(zip(items, baseB)):
            base = (b["runs"][0]["vs"] or []) if b["runs"] else []
            src = text.split("\n")
            variants, plan = [], []
            targets = [v for v in base if v[1] >= 1][: (2 if tier == "quick" else 6)]
            for v in targets:
                rule, line = v[0], v[1]
                for form in ("same", "next", "block", "file", "same-other", "block-other", "file-late"):
                    named = other_rule(rng, rule) if form.endswith("other") else spellings(rng, rule)
                    s = list(src)
                    if form.startswith("same"):
                        s[line - 1] = s[line - 1] + f"  {cm} thailint: ignore[{named}]"
                        shift, scope = (lambda ln: ln), {line}
                    elif form == "next":
                        s.insert(line - 1, f"{cm} thailint: ignore-next-line[{named}]")
                        shift, scope = (lambda ln, L=line: ln + (1 if ln >= L else 0)), {line}
                    elif form.startswith("block"):
                        s.insert(line - 1, f"{cm} thailint: ignore-start {named}")
                        s.insert(line + 1, f"{cm} thailint: ignore-end")
                        shift, scope = (lambda ln, L=line: ln + (1 if ln >= L else 0) + (1 if ln > L else 0)), {line}
                    elif form == "file":
                        s.insert(0, f"{cm} thailint: ignore-file[{named}]")
                        shift, scope = (lambda ln: ln + 1), None     # whole file
                    else:  # file-late: beyond the header window -> no effect
                        pad = max(12, 0)
                        s = s[:pad] + [f"{cm} thailint: ignore-file[{named}]"] + s[pad:] if len(s) > pad else s + [f"{cm} thailint: ignore-file[{named}]"]
                        shift, scope = (lambda ln, P=pad: ln + (1 if ln > P else 0)), set()
                    if key == "py" and not _parses("\n".join(s)):
                        continue      # the comment landed inside a continued line or a bracketed expression: not a placement a user could make
                    variants.append((f"{form}:{rule}@{line}", "\n".join(s)))
                    plan.append({"form": form, "rule": rule, "line": line, "named": named, "shift": shift, "scope": scope})
            work2.append((1000 + li, cmd, fname, text, variants, str(root), cfg))
            res.bump("B_findings_in_base_file", f"{cmd}/{key}{'/rich' if cfg else ''}: {len(base)}")
            metaB.append({"cmd": cmd, "fname": fname, "plan": plan, "base": base})
        implsB = core.pmap(linter_impl, work2, procs=16)
        # ---------------- C
        casesC = [gen_crossfile_case(rng) for _ in range(30 if tier == "quick" else 300)]
        implsC = core.pmap(crossfile_impl, [(i, c, str(root)) for i, c in enumerate(casesC)], procs=16)
    finally:
        shutil.rmtree(root, ignore_errors=True)
    # ---- evaluate A
    for c, im, le in zip(casesA, implsA, leansA):
        res.evaluations += 1
        res.bump("A_kind", c["kind"])
        res.bump("A_named", c["named"])
        res.bump("A_style", c["style"])
        res.bump("A_odd_line_end_characters", bool(c.get("odd_line_ends")))
        case = {"level": "engine", "lines": c["lines"], "rule": c["queries"][0]["rule"] if c["queries"] else None, "kind": c["kind"]}
        if isinstance(im, dict):
            res.disagreements.append(core.Disagreement(case=case, impl=im, model=None, spec=None, property_fails=True, note=im["error"]))
            continue
        if any(c["spec"]) and not all(c["spec"]):
            res.nontrivial.add(core.canon(c["lines"]))
        if im != le["ignored"]:
            bad = [(q["line"], a, b, s) for q, a, b, s in zip(c["queries"], im, le["ignored"], c["spec"]) if a != b]
            res.disagreements.append(core.Disagreement(case=case, impl=im, model=le["ignored"], spec=c["spec"],
                                                       property_fails=any(a != s for _, a, _, s in bad),
                                                       note=f"engine vs model differ on lines {[(l, 'impl', a, 'model', b, 'planted', s) for l, a, b, s in bad[:4]]}"))
        elif im != c["spec"]:
            # engine == model but != what was planted: explained by an unrecognised cell of the matrix?
            unrec = (c["style"] == "//" and c["kind"] in ("next", "file")) or (c["named"] == "bare" and c["kind"] in ("same", "file"))
            if unrec:
                res.findings.setdefault("F04d", {"example": c["lines"][:12], "kind": c["kind"], "style": c["style"], "named": c["named"]})
            else:
                bad = [(q["line"], a, s) for q, a, s in zip(c["queries"], im, c["spec"]) if a != s]
                res.disagreements.append(core.Disagreement(case=case, impl=im, model=le["ignored"], spec=c["spec"], property_fails=True,
                                                           note=f"{c['kind']} directive ({c['style']}, {c['named']}): lines {bad[:4]} (line, suppressed, planted)"))
        if len(res.samples) < 2 and c["kind"] == "two-blocks":
            res.samples.append({"lines": c["lines"][:14], "rule": case["rule"], "suppressed_lines": [q["line"] for q, a in zip(c["queries"], im) if a]})
    unrec_cells = []
    for c, im in zip(cells, cell_impl):
        res.evaluations += 1
        got = im[0] if isinstance(im, list) else None
        if got != c["honoured"]:
            res.disagreements.append(core.Disagreement(case={"level": "cell", **{k: c[k] for k in ("form", "slashes", "designLint", "upper", "bare", "text")}},
                                                       impl=got, model=c["honoured"], spec=True, property_fails=(got is not True),
                                                       note=f"directive {c['text']!r}: engine honours it = {got}, model {c['honoured']}"))
        elif not got:
            unrec_cells.append(c["text"])
    res.extra["unrecognised_directive_cells"] = unrec_cells
    if unrec_cells:
        res.findings.setdefault("F04d", {"unrecognised_cells": unrec_cells})
    # ---- evaluate B
    for meta, im in zip(metaB, implsB):
        cmd = meta["cmd"]
        if im["errors"] or not im["runs"] or im["runs"][0]["vs"] is None:
            res.disagreements.append(core.Disagreement(case={"level": "linter", "cmd": cmd, "file": meta["fname"]}, impl=im["errors"] or im["runs"][:1], model=None, spec=None,
                                                       property_fails=True, note=f"`thailint {cmd}` produced no JSON on the trigger file"))
            continue
        base = im["runs"][0]["vs"]
        for p, r in zip(meta["plan"], im["runs"][1:]):
            res.evaluations += 1
            res.bump("B_form", p["form"])
            key = f"{cmd}/{meta['fname'].split('.')[-1]}"
            if r["vs"] is None:
                res.disagreements.append(core.Disagreement(case={"level": "linter", "cmd": cmd, "variant": r["label"]}, impl=r["raw"], model=None, spec=None, property_fails=True,
                                                           note="no JSON after inserting a directive"))
                continue
            lint = p["rule"].split(".")[0]
            names_rule = not p["form"].endswith("other") and p["form"] != "file-late"
            expect = []
            for rid, ln, msg in base:
                in_scope = (p["scope"] is None) or (ln in p["scope"])
                hit = names_rule and in_scope and name_hits(p["named"], rid)
                if not hit:
                    expect.append([rid, p["shift"](ln)])
            got = [[rid, ln] for rid, ln, _ in r["vs"]]
            if sorted(got) != sorted(expect):
                missing = [e for e in expect if e not in got]
                extra = [g for g in got if g not in expect]
                no_effect = sorted(got) == sorted([rid, p["shift"](ln)] for rid, ln, _ in base)
                engine_form = {"same": "sameLine", "next": "nextLine", "block": "blockStart", "file": "fileLevel"}.get(p["form"])
                slashes = meta["fname"].split(".")[-1] != "py"
                cell_ok = any(c["form"] == engine_form and c["slashes"] == slashes and not c["designLint"] and not c["upper"] and not c["bare"] and c["honoured"] for c in cells)
                if names_rule and no_effect and not cell_ok:
                    res.findings.setdefault("F04d", {"linter": cmd, "file": meta["fname"], "form": p["form"]})   # the engine does not recognise this cell at all
                elif names_rule and no_effect:
                    res.findings.setdefault(f"F04p:{key}", {"linter": cmd, "file": meta["fname"], "form": p["form"], "directive_names": p["named"], "rule": p["rule"]})
                    res.bump("B_no_plumbing", key)
                else:
                    res.disagreements.append(core.Disagreement(case={"level": "linter", "cmd": cmd, "file": meta["fname"], "variant": r["label"], "named": p["named"]},
                                                               impl=got[:10], model=None, spec=expect[:10], property_fails=True,
                                                               note=f"`thailint {cmd}` after inserting {p['form']} directive naming {p['named']!r} for {p['rule']}@{p['line']}: "
                                                                    f"should have disappeared but did not / vanished wrongly: still-there {extra[:3]} wrongly-gone {missing[:3]}"))
            res.nontrivial.add(core.canon([cmd, meta["fname"], r["label"]]))
    # ---- evaluate C
    for c, im in zip(casesC, implsC):
        res.evaluations += 1
        res.bump("C_language", c["lang"])
        for k in c["kinds"]:
            res.bump("C_directive", k)
        case = {"level": "cross-file", "files": c["files"]}
        if im["errors"]:
            res.disagreements.append(core.Disagreement(case=case, impl=im["errors"], model=None, spec=c["expect"], property_fails=True, note="; ".join(im["errors"])[:600]))
            continue
        if any(k in ("same", "next", "block") for k in c["kinds"]) and any(k in ("none", "same-other") for k in c["kinds"]):
            res.nontrivial.add(core.canon(c["files"]))
        for label, got in im["runs"].items():
            if got != c["expect"]:
                res.disagreements.append(core.Disagreement(
                    case={**case, "target": label}, impl=got, model=None, spec=c["expect"], property_fails=True,
                    note=f"`thailint dry` ({label} target), constants defined in two files with directives in the first: still-there "
                         f"{[g for g in got if g not in c['expect']][:4]} wrongly-gone {[e for e in c['expect'] if e not in got][:4]}"))
                break
    drv.close()
    return res


def replay(path: str, st: core.ProofStatus) -> int:
    data = json.loads(Path(path).read_text())
    print(json.dumps(data, indent=1, default=str)[:3000])
    print("re-run `./check C04` to re-evaluate")
    return 1
