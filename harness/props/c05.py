"""C05 — configuration is honoured identically in every format and for every linter.

Part 1 (plumbing, against the Lean model): random (linter, section options incl. per-language overrides,
enabled flag, top-level ignore) written into 1-3 carriers (.thailint.yaml / .thailint.json / pyproject.toml /
--config yaml|json, some unparsable or missing) with hyphen or underscore section keys, plus command-line
threshold options; the Lean model resolves the configuration in effect (or exit 2); the real CLI must then
behave exactly like the same linter given that resolved section through the library API.
Part 2 (absolute, per linter): `enabled: false` silences the linter through every carrier and spelling;
every documented threshold takes effect and is monotone (violation sets form a chain along the sweep);
documented-invalid values and unparsable files end with exit 2."""
from __future__ import annotations

import json
import shutil
from pathlib import Path

from .. import core

PROP = "C05"
LEVEL_NOTE = ("theorems hold for every set of carriers, documents, spellings, command-line options and languages; YAML/JSON/TOML parsers are "
              "trusted; each linter's use of its resolved section is tied by the reference run through the library API and by absolute checks")

PY_NEST = '''
def d2(a):
    if a:
        return 1
    return 0

def d3(a, b):
    if a:
        for i in b:
            return i
    return 0

def d4(a, b):
    if a:
        for i in b:
            while a:
                return i
    return 0

def d5(a, b):
    if a:
        for i in b:
            while a:
                if i:
                    return i
    return 0

def d6(a, b):
    if a:
        for i in b:
            while a:
                if i:
                    with open(i) as f:
                        return f
    return 0
'''
TS_NEST = '''
export function t5(a: boolean, b: number[]): number {
  if (a) {
    for (const i of b) {
      while (a) {
        if (i) {
          return i;
        }
      }
    }
  }
  return 0;
}
'''
RS_NEST = '''
fn r5(a: bool, b: Vec<i32>) -> i32 {
    if a {
        for i in b {
            while a {
                if i > 0 {
                    return i;
                }
            }
        }
    }
    0
}
'''


def py_class(name, n):
    body = "".join(f"    def m{i}(self):\n        return {i % 2}\n\n" for i in range(n))
    return f"class {name}:\n    def __init__(self):\n        self.v = 0\n\n{body}\n"


def ts_class(name, n):
    body = "".join(f"  m{i}(): number {{\n    return {i % 2};\n  }}\n" for i in range(n))
    return f"export class {name} {{\n  v = 0;\n{body}}}\n"


def dup_block(tag, n):
    lines = [f"def dup_{tag}_{n}(a, b, c):", "    total = a + b"]
    ops = ["+", "-", "*", "//", "%", "^", "&", "|"]
    for i in range(n - 3):
        lines.append(f"    total = (total {ops[(i + n) % 8]} c) {ops[(i * 3 + n) % 8]} ({i + 2 + 10 * n} {ops[(i + 2 * n) % 8]} a) - b * {n + i}")
    lines.append("    return total")
    return "\n".join(lines) + "\n\n"


PIPE = '''
def p1(items):
    out = []
    for it in items:
        if not it:
            continue
        out.append(it)
    return out

def p2(items):
    out = []
    for it in items:
        if not it:
            continue
        if it < 0:
            continue
        out.append(it)
    return out
'''
STATELESS = '''
class S2:
    def a(self, x):
        return x + 1

    def b(self, x):
        return x * 2


class S4:
    def a(self, x):
        return x + 1

    def b(self, x):
        return x * 2

    def c(self, x):
        return x - 1

    def d(self, x):
        return x
'''
METHODPROP = '''
class Box:
    def __init__(self):
        self._a = 1
        self._b = 2

    def get_a(self):
        return self._a

    def get_b(self):
        value = self._b
        return value

    def get_c(self):
        value = self._a
        other = self._b
        return value + other
'''
STRINGLY_A = '''
def handle_a(mode):
    if mode in ("fast", "slow", "auto"):
        return 1
    return 0
'''
STRINGLY_B = '''
def handle_b(mode):
    if mode in ("fast", "slow", "auto"):
        return 2
    return 0
'''
MISC = '''
import re


def printing(x):
    print("value", x)
    return x


def lbyl(d):
    if "key" in d:
        return d["key"]
    return None


def perf(items):
    out = ""
    for i in items:
        out += str(i)
    return out


def magic(items):
    total = 4242 + 42 + 7
    for i in range(25):
        total += i
    return total


def lazy(x):
    return x  # noqa
'''
RS_SAFETY = '''
use std::fs;
async fn work(x: Option<i32>, v: Vec<i32>) -> i32 {
    let d = std::fs::read_to_string("a");
    for i in 0..3 {
        let w = v.clone();
    }
    x.unwrap()
}
'''

# linter table: command, documented section names, rule-id prefix, trigger files, base options, thresholds (option, sweep in
# permissive order), command-line options, language of the trigger files that per-language overrides may name
LINTERS = {
    "nesting": dict(cmd="nesting", sections=["nesting"], prefix="nesting", files={"src/n.py": PY_NEST, "src/n.ts": TS_NEST, "src/n.rs": RS_NEST},
                    base={}, sweeps={"max_nesting_depth": [1, 2, 3, 4, 5, 6, 7]}, cli={"max_nesting_depth": "--max-depth"},
                    langs=["python", "typescript", "rust"], limits=["max_nesting_depth"], invalid={"max_nesting_depth": [0, -3]}),
    "srp": dict(cmd="srp", sections=["srp"], prefix="srp", files={"src/c.py": py_class("A3", 3) + py_class("A6", 6) + py_class("A9", 9) + py_class("A12", 12),
                                                                 "src/c.ts": ts_class("T9", 9)},
                base={"check_keywords": False}, sweeps={"max_methods": [2, 5, 8, 11, 14], "max_loc": [5, 15, 25, 45, 300]},
                cli={"max_methods": "--max-methods", "max_loc": "--max-loc"}, langs=["python", "typescript"], limits=["max_methods", "max_loc"],
                invalid={"max_methods": [0, -1], "max_loc": [0]}),
    "dry": dict(cmd="dry", sections=["dry"], prefix="dry", files={"src/d1.py": dup_block("x", 4) + dup_block("x", 7) + dup_block("x", 12),
                                                                 "src/d2.py": "import os\n\n" + dup_block("x", 4) + dup_block("x", 7) + dup_block("x", 12)},
                base={"enabled": True, "detect_duplicate_constants": False}, sweeps={"min_duplicate_lines": [3, 5, 8, 13, 20]}, cli={"min_duplicate_lines": "--min-lines"},
                langs=[], limits=[], invalid={}),
    "magic-numbers": dict(cmd="magic-numbers", sections=["magic-numbers"], prefix="magic-numbers", files={"src/m.py": MISC}, base={},
                          sweeps={"max_small_integer": [5, 30], "allowed_numbers": [[0, 1], [0, 1, 7], [0, 1, 7, 42], [0, 1, 7, 42, 4242]]}, cli={}, langs=["python"],
                          lang_opts=["max_small_integer", "allowed_numbers"], ignore_opt=True,
                          limits=["max_small_integer"], invalid={"max_small_integer": [0, -2]}),
    "print-statements": dict(cmd="print-statements", sections=["print-statements", "improper-logging"], prefix="improper-logging", files={"src/m.py": MISC}, base={}, sweeps={}, cli={}, langs=[],
                             limits=[], invalid={}),
    "file-header": dict(cmd="file-header", sections=["file-header"], prefix="file-header", files={"src/m.py": MISC}, base={}, sweeps={}, cli={}, langs=[], limits=[], invalid={}),
    "method-property": dict(cmd="method-property", sections=["method-property"], prefix="method-property", files={"src/mp.py": METHODPROP}, base={},
                            sweeps={"max_body_statements": [3, 2, 1]}, cli={}, langs=[], limits=[], invalid={}),
    "stateless-class": dict(cmd="stateless-class", sections=["stateless-class"], prefix="stateless-class", files={"src/s.py": STATELESS}, base={},
                            sweeps={"min_methods": [1, 2, 3, 5]}, cli={}, langs=[], limits=[], invalid={}),
    "pipeline": dict(cmd="pipeline", sections=["pipeline", "collection-pipeline"], prefix="collection-pipeline", files={"src/p.py": PIPE}, base={},
                     sweeps={"min_continues": [1, 2, 3]}, cli={"min_continues": "--min-continues"}, langs=[], limits=["min_continues"], invalid={"min_continues": [0]}),
    "lazy-ignores": dict(cmd="lazy-ignores", sections=["lazy-ignores"], prefix="lazy-ignores", files={"src/m.py": MISC}, base={},
                         sweeps={"check_noqa": [True, False]}, cli={}, langs=[], limits=[], invalid={}),
    "performance": dict(cmd="perf", sections=["performance"], prefix="performance", files={"src/m.py": MISC}, base={}, sweeps={}, cli={}, langs=[], limits=[], invalid={}),
    "stringly-typed": dict(cmd="stringly-typed", sections=["stringly-typed"], prefix="stringly-typed", files={"src/sa.py": STRINGLY_A, "src/sb.py": STRINGLY_B}, base={},
                           sweeps={"min_occurrences": [1, 2, 3], "min_values_for_enum": [2, 3, 4]}, cli={}, langs=["python"], lang_opts=["min_occurrences", "min_values_for_enum"],
                           ignore_opt=True, limits=["min_occurrences"],
                           invalid={"min_occurrences": [0], "min_values_for_enum": [1]}),
    "lbyl": dict(cmd="lbyl", sections=["lbyl"], prefix="lbyl", files={"src/m.py": MISC}, base={}, sweeps={"detect_dict_key": [True, False]}, cli={}, langs=[], limits=[], invalid={}),
    "unwrap-abuse": dict(cmd="unwrap-abuse", sections=["unwrap-abuse"], prefix="unwrap-abuse", files={"src/r.rs": RS_SAFETY}, base={}, sweeps={}, cli={}, langs=[], limits=[], invalid={}),
    "clone-abuse": dict(cmd="clone-abuse", sections=["clone-abuse"], prefix="clone-abuse", files={"src/r.rs": RS_SAFETY}, base={}, sweeps={}, cli={}, langs=[], limits=[], invalid={}),
    "blocking-async": dict(cmd="blocking-async", sections=["blocking-async"], prefix="blocking-async", files={"src/r.rs": RS_SAFETY}, base={}, sweeps={}, cli={}, langs=[], limits=[],
                           invalid={}),
    "file-placement": dict(cmd="file-placement", sections=["file-placement"], prefix="file-placement", files={"src/m.py": MISC, "src/x.ts": TS_NEST},
                           base={"global_deny": [{"pattern": r".*\.ts$", "reason": "no ts"}]}, sweeps={}, cli={}, langs=[], limits=[], invalid={}),
}
CARRIERS = ["yaml", "json", "pyproject", "explicit-yaml", "explicit-json"]
CARRIER_FILES = {"yaml": ".thailint.yaml", "json": ".thailint.json", "pyproject": "pyproject.toml", "explicit-yaml": "custom-config.yaml", "explicit-json": "custom-config.json"}
KNOWN_UNCONFIGURABLE: set = set()     # (finding F05g, lazy-ignores never read its section: repaired)


def toml_dump(cfg):
    def val(v):
        if isinstance(v, bool):
            return "true" if v else "false"
        if isinstance(v, (int, float)):
            return str(v)
        if isinstance(v, str):
            return json.dumps(v)
        if isinstance(v, list):
            return "[" + ", ".join(val(x) for x in v) + "]"
        if isinstance(v, dict):
            return "{" + ", ".join(f"{json.dumps(k)} = {val(x)}" for k, x in v.items()) + "}"
        raise TypeError(v)
    out = ["[project]", 'name = "demo"', "", "[tool.thailint]"]
    for k, v in cfg.items():
        if not isinstance(v, dict):
            out.append(f"{json.dumps(k)} = {val(v)}")
    for k, v in cfg.items():
        if isinstance(v, dict):
            out.append(f"[tool.thailint.{json.dumps(k)}]")
            for kk, vv in v.items():
                out.append(f"{json.dumps(kk)} = {val(vv)}")
    return "\n".join(out) + "\n"


def write_carrier(proj: Path, carrier: str, content):
    """content: dict, or the string 'unparsable'"""
    import yaml
    f = proj / CARRIER_FILES[carrier]
    if content == "unparsable":
        f.write_text({"yaml": "nesting: [unclosed\n", "json": '{"nesting": ', "pyproject": "[tool.thailint\nx = ", "explicit-yaml": "a: [b\n", "explicit-json": "{,}"}[carrier])
    elif carrier in ("yaml", "explicit-yaml"):
        f.write_text(yaml.safe_dump(content, sort_keys=False))
    elif carrier in ("json", "explicit-json"):
        f.write_text(json.dumps(content))
    else:
        f.write_text(toml_dump(content))


def clean_carriers(proj: Path):
    for f in CARRIER_FILES.values():
        (proj / f).unlink(missing_ok=True)


def cli_run(proj: Path, linter: dict, carriers: dict, cli_opts: dict, explicit_missing=False):
    """carriers: {carrier: dict|'unparsable'}; returns (exit, sorted violations or None)"""
    clean_carriers(proj)
    args = []
    for c, content in carriers.items():
        write_carrier(proj, c, content)
        if c.startswith("explicit"):
            args = ["--config", CARRIER_FILES[c]]
    if explicit_missing:
        args = ["--config", "does-not-exist.yaml"]
    extra = []
    for opt, v in cli_opts.items():
        extra += [linter["cli"][opt], str(v)]
    code, out = core.run_cli([linter["cmd"], *args, *extra, "--format", "json", "src"], cwd=proj)
    vs = core.violations_json(out)
    got = None if vs is None else sorted([v["file_path"], v["line"], v["rule_id"]] for v in vs if v["rule_id"].startswith(linter["prefix"]))
    clean_carriers(proj)
    return code, got, out[-300:]


def reference_run(proj: Path, linter: dict, section_key: str, section: dict, ignore: list):
    """the same linter given the resolved section through the library API (no configuration files on disk)"""
    from src.orchestrator.core import Orchestrator
    clean_carriers(proj)
    core._reset_singletons()
    cfg = {section_key: section}
    if ignore:
        cfg["ignore"] = list(ignore)
    old = Path.cwd()
    import os
    os.chdir(proj)
    try:
        orch = Orchestrator(project_root=proj, config=cfg)
        vs = orch.lint_directory(Path("src"))
        return sorted([str(v.file_path), v.line, v.rule_id] for v in vs if v.rule_id.startswith(linter["prefix"]))
    finally:
        os.chdir(old)
        core._reset_singletons()


def make_project(root: Path, tag: str, linter: dict) -> Path:
    proj = root / tag
    for rel, text in linter["files"].items():
        f = proj / rel
        f.parent.mkdir(parents=True, exist_ok=True)
        f.write_text(text)
    (proj / ".git").mkdir(exist_ok=True)       # a project root marker that is not a configuration carrier
    return proj


# ---------------------------------------------------------------- model encoding
def enc_val(v, others):
    if isinstance(v, bool) or isinstance(v, int):
        return v
    key = json.dumps(v, sort_keys=True)
    if key not in others:
        others[key] = (len(others) + 1, v)
    return {"other": others[key][0]}


def dec_val(j, others):
    if isinstance(j, (bool, int)):
        return j
    for _k, (i, v) in others.items():
        if i == j["other"]:
            return v
    raise KeyError(j)


def enc_section(sec: dict, lang_names, others):
    opts, langs = [], []
    for k, v in sec.items():
        if k in lang_names and isinstance(v, dict):
            langs.append([k, [[kk, enc_val(vv, others)] for kk, vv in v.items()]])
        else:
            opts.append([k, enc_val(v, others)])
    return {"opts": opts, "langs": langs}


def dec_section(j, others):
    d = {k: dec_val(v, others) for k, v in j["opts"]}
    # a language key without a table under it (`python:` left empty) overrides nothing: the reference run gets the section without it
    for lang in ("python", "typescript", "javascript", "rust"):
        if lang in d and not isinstance(d[lang], dict):
            del d[lang]
    for lang, o in j["langs"]:
        d[lang] = {k: dec_val(v, others) for k, v in o}
    return d


def enc_doc(doc, lang_names, others):
    if doc == "unparsable":
        return "unparsable"
    return {"sections": [dict(k=k, **enc_section(v, lang_names, others)) for k, v in doc.items() if k != "ignore" and isinstance(v, dict)],
            "ignore": list(doc.get("ignore", []))}


# ---------------------------------------------------------------- part 1: plumbing cases
def gen_case(rng):
    names = list(LINTERS)
    name = rng.choices(names, [5 if n == "srp" else 4 if n == "nesting" else 2 if n in ("dry", "pipeline", "magic-numbers") else 1 for n in names])[0]
    lt = LINTERS[name]
    lang_names = lt["langs"]

    def gen_section():
        sec = dict(lt["base"])
        if rng.random() < 0.25:
            sec["enabled"] = False
        elif rng.random() < 0.2:
            sec["enabled"] = True
        for opt, sweep in lt["sweeps"].items():
            if rng.random() < 0.6:
                sec[opt] = rng.choice(sweep)
        inv = [o for o in lt["invalid"] if o in lt["limits"]]
        if rng.random() < 0.12 and inv:
            opt = rng.choice(inv)
            sec[opt] = rng.choice(lt["invalid"][opt])
        if lt.get("ignore_opt") and rng.random() < 0.25:
            # the linter's own ignore list (file patterns), next to - not inside - any language sub-section
            sec["ignore"] = [rng.choice(sorted(lt["files"]) + ["src/", "nothing/**"])]
        for lang in lang_names:
            if rng.random() < 0.3:
                # a sub-section for the language that sets only some options: the others fall back to the section's own values
                opt = rng.choice(lt.get("lang_opts", lt["limits"]))
                sec[lang] = {opt: rng.choice(lt["sweeps"][opt] + ([0] if rng.random() < 0.1 and opt in lt["invalid"] else []))}
        return sec

    def gen_doc():
        key = lt["sections"][0]
        if rng.random() < 0.5:
            key = key.replace("-", "_")
        doc = {key: gen_section()}
        if rng.random() < 0.15:
            other = rng.choice([n for n in LINTERS if n != name])
            doc[other] = {"enabled": False}
        if rng.random() < 0.25:
            doc["ignore"] = [rng.choice(sorted(lt["files"]))] if rng.random() < 0.7 else ["nothing/**"]
        return doc

    carriers = {}
    present = rng.sample(["yaml", "json", "pyproject"], rng.choice([0, 1, 1, 1, 2, 2, 3]))
    for c in present:
        carriers[c] = "unparsable" if rng.random() < 0.08 else gen_doc()
    explicit_missing = False
    if rng.random() < 0.3:
        c = rng.choice(["explicit-yaml", "explicit-json"])
        carriers[c] = "unparsable" if rng.random() < 0.08 else gen_doc()
    elif rng.random() < 0.03:
        explicit_missing = True
    cli = {}
    for opt in lt["cli"]:
        if rng.random() < 0.3:
            cli[opt] = rng.choice(lt["sweeps"][opt] + ([0] if rng.random() < 0.08 and opt in lt["invalid"] else []))
    return {"linter": name, "carriers": carriers, "cli": cli, "explicit_missing": explicit_missing}


def model_request(case, lang):
    lt = LINTERS[case["linter"]]
    others: dict = {}
    cj = {}
    for c, doc in case["carriers"].items():
        slot = "explicit" if c.startswith("explicit") else c
        cj[slot] = enc_doc(doc, lt["langs"], others)
    if case["explicit_missing"]:
        cj["explicit"] = "missing"
    return {"prop": PROP, "carriers": cj, "name": lt["sections"][0], "cli": [[k, v] for k, v in case["cli"].items()], "lang": lang,
            "limits": lt["limits"] + [o for o in lt.get("lang_opts", []) if o not in lt["limits"]]}, others


def plumbing_case(args):
    idx, case, root = args
    lt = LINTERS[case["linter"]]
    out = {"errors": []}
    proj = make_project(Path(root), f"pl{idx}", lt)
    try:
        code, got, tail = cli_run(proj, lt, case["carriers"], case["cli"], case["explicit_missing"])
        out.update({"exit": code, "got": got, "tail": tail})
        refs = {}
        ext = {"python": ".py", "typescript": ".ts", "rust": ".rs"}
        for tag, (key, sec, ign) in case["expect"].items():
            if isinstance(sec, list):
                got_ref = []
                for lang, flat in sec:
                    got_ref += [v for v in reference_run(proj, lt, key, flat, ign) if v[0].endswith(ext[lang])]
                refs[tag] = sorted(got_ref)
            else:
                refs[tag] = reference_run(proj, lt, key, sec, ign)
        out["refs"] = refs
    except Exception as exc:  # noqa: BLE001
        out["errors"].append(f"{type(exc).__name__}: {exc}")
    finally:
        shutil.rmtree(proj, ignore_errors=True)
    return out


# ---------------------------------------------------------------- part 2: absolute checks per linter
def absolute_case(args):
    name, root, seed = args
    import random
    rng = random.Random(f"{seed}-{name}")
    lt = LINTERS[name]
    proj = make_project(Path(root), f"abs_{name}", lt)
    res = {"linter": name, "problems": [], "known": [], "checked": 0}
    try:
        base_key = lt["sections"][0]
        code0, base, tail = cli_run(proj, lt, {"yaml": {base_key: dict(lt["base"])}} if lt["base"] else {}, {})
        if not base:
            res["problems"].append({"what": f"trigger files produce no {name} violation with default options (exit {code0}: {tail})", "fails": False})
            return res
        # enabled: false through every carrier, spelling and documented section name
        for carrier in CARRIERS:
            for sec_name in lt["sections"]:
                for key in (sec_name, sec_name.replace("-", "_")):
                    code, got, tail = cli_run(proj, lt, {carrier: {key: {**lt["base"], "enabled": False}}}, {})
                    res["checked"] += 1
                    if got != [] or code != 0:
                        item = {"what": f"`{key}: {{enabled: false}}` in {CARRIER_FILES[carrier]}: exit {code}, {None if got is None else len(got)} violations ({tail[-120:] if got is None else ''})",
                                "config": {key: {**lt["base"], "enabled": False}}, "carrier": carrier, "fails": True}
                        (res["known"] if name in KNOWN_UNCONFIGURABLE else res["problems"]).append(item)
        # thresholds: take effect, monotone, identical across carriers
        for opt, sweep in lt["sweeps"].items():
            carrier = rng.choice(CARRIERS)
            key = rng.choice(lt["sections"])
            if rng.random() < 0.5:
                key = key.replace("-", "_")
            sets = []
            for v in sweep:
                code, got, tail = cli_run(proj, lt, {carrier: {key: {**lt["base"], opt: v}}}, {})
                res["checked"] += 1
                if got is None:
                    res["problems"].append({"what": f"{key}.{opt}={v} via {carrier}: exit {code} {tail[-150:]}", "fails": True})
                    got = []
                sets.append(got)
                other = rng.choice([c for c in CARRIERS if c != carrier])
                code2, got2, _ = cli_run(proj, lt, {other: {key: {**lt["base"], opt: v}}}, {})
                if got2 != got:
                    res["problems"].append({"what": f"{key}.{opt}={v}: {carrier} gives {len(got)} violations, {other} gives {None if got2 is None else len(got2)}",
                                            "config": {key: {**lt["base"], opt: v}}, "fails": True})
            for a, b, va, vb in zip(sets, sets[1:], sweep, sweep[1:]):
                if name == "dry":
                    # a duplicated region is reported at window positions that move with the window size: compare per file by count
                    bad = [f for f in {x[0] for x in b} if sum(1 for x in b if x[0] == f) > sum(1 for x in a if x[0] == f)]
                    if bad:
                        res["problems"].append({"what": f"{opt}: making it more permissive ({va} -> {vb}) adds violations in {bad}", "config": {key: {**lt["base"], opt: vb}},
                                                "carrier": carrier, "fails": True})
                    continue
                if any(x not in a for x in b):
                    res["problems"].append({"what": f"{opt}: making it more permissive ({va} -> {vb}) adds violations {[x for x in b if x not in a][:2]}",
                                            "config": {key: {**lt["base"], opt: vb}}, "carrier": carrier, "fails": True})
            if sets[0] == sets[-1]:
                res["problems"].append({"what": f"{key}.{opt} has no effect over {sweep} via {carrier} ({len(sets[0])} violations throughout)",
                                        "config": {key: {**lt["base"], opt: sweep[-1]}}, "carrier": carrier, "fails": True})
            # the command-line option against the same value in the file
            if opt in lt["cli"]:
                # ... through every carrier (a discovered file and a file named with --config are different code paths)
                for car in CARRIERS:
                    v = rng.choice(sweep)
                    other = rng.choice([x for x in sweep if x != v] or sweep)
                    code, got, tail = cli_run(proj, lt, {car: {key: {**lt["base"], opt: other}}}, {opt: v})
                    want = sets[sweep.index(v)]
                    res["checked"] += 1
                    if got != want:
                        res["problems"].append({"what": f"{lt['cli'][opt]} {v} over the value {other} in {CARRIER_FILES[car]}: {None if got is None else len(got)} violations, expected {len(want)}",
                                                "config": {key: {**lt["base"], opt: other}}, "carrier": car, "fails": True})
        # documented-invalid values end the run with exit 2, from a file and from the command line
        for opt, bad in lt["invalid"].items():
            for v in bad:
                carrier = rng.choice(CARRIERS)
                code, got, tail = cli_run(proj, lt, {carrier: {lt["sections"][0]: {**lt["base"], opt: v}}}, {})
                res["checked"] += 1
                if code != 2:
                    res["problems"].append({"what": f"{opt}={v} (documented as invalid) via {carrier}: exit {code} instead of 2", "config": {lt["sections"][0]: {opt: v}},
                                            "carrier": carrier, "fails": True})
                if opt in lt["cli"]:
                    code, got, tail = cli_run(proj, lt, {}, {opt: v})
                    if code != 2:
                        res["problems"].append({"what": f"{lt['cli'][opt]} {v}: exit {code} instead of 2", "fails": True})
        # unparsable files
        for carrier in CARRIERS:
            code, got, tail = cli_run(proj, lt, {carrier: "unparsable"}, {})
            res["checked"] += 1
            if code != 2:
                res["problems"].append({"what": f"unparsable {CARRIER_FILES[carrier]}: exit {code} instead of 2", "carrier": carrier, "fails": True})
        # top-level ignore through every carrier
        target = sorted(lt["files"])[0]
        for carrier in CARRIERS:
            code, got, tail = cli_run(proj, lt, {carrier: {lt["sections"][0]: dict(lt["base"]), "ignore": [target]}}, {})
            res["checked"] += 1
            if got is None or any(x[0] == target for x in got):
                res["problems"].append({"what": f"top-level ignore [{target}] in {CARRIER_FILES[carrier]} not honoured (exit {code})", "carrier": carrier, "fails": True})
    except Exception as exc:  # noqa: BLE001
        res["problems"].append({"what": f"{type(exc).__name__}: {exc}", "fails": False})
    finally:
        shutil.rmtree(proj, ignore_errors=True)
    return res


def run(tier: str, seed: int, st: core.ProofStatus) -> core.Result:
    res = core.Result()
    res.rule = ("part 1: random linter (17 documented sections), section content (base options, enabled flag, 0-3 thresholds from their sweeps, "
                "documented-invalid values, per-language overrides for nesting/srp), key spelling, top-level ignore, written into 0-3 of "
                ".thailint.yaml/.thailint.json/pyproject.toml plus optionally --config yaml|json (8% unparsable, 3% missing --config), and "
                "command-line thresholds; the CLI result must equal the library run with the section the Lean model resolves, or exit 2 where the "
                "model says so. part 2, per linter: enabled:false through 5 carriers x 2 spellings x documented section names; every threshold sweep "
                "monotone, effective and carrier-independent; command-line option vs file value; invalid values and unparsable files -> exit 2; "
                "top-level ignore through 5 carriers. non-trivial = a plumbing case whose resolved section changes the linter's result w.r.t. defaults")
    rng = core.sub_rng(seed, PROP, tier)
    drv = core.Driver()
    n = 400 if tier == "quick" else 3000
    cases = [gen_case(rng) for _ in range(n)]
    # corpus: witnesses of the repaired defects
    cases.insert(0, {"linter": "srp", "carriers": {"yaml": {"srp": {"check_keywords": False, "max_methods": 11, "python": {"max_methods": 14}}}}, "cli": {"max_methods": 2}, "explicit_missing": False})
    cases.insert(1, {"linter": "srp", "carriers": {"pyproject": {"srp": {"check_keywords": False, "max_loc": 15, "python": {"max_methods": 11}, "typescript": {"max_loc": 300}}}},
                     "cli": {}, "explicit_missing": False})
    cases.insert(1, {"linter": "nesting", "carriers": {"json": {"nesting": {"max_nesting_depth": 2}, "ignore": ["src/n.py"]}}, "cli": {}, "explicit_missing": False})
    cases.insert(2, {"linter": "nesting", "carriers": {"pyproject": "unparsable"}, "cli": {}, "explicit_missing": False})
    cases.insert(3, {"linter": "stateless-class", "carriers": {"explicit-json": {"stateless_class": {"min_methods": 3}}}, "cli": {}, "explicit_missing": False})
    # systematic: a language sub-section that sets only one option, next to section-level values of the other options and the
    # linter's own ignore list - everything the sub-section does not set must still come from the section
    for name, lt in LINTERS.items():
        opts = lt.get("lang_opts", lt["limits"])
        for lang in lt["langs"]:
            for sub_opt in opts:
                sec = dict(lt["base"])
                for o in lt["sweeps"]:
                    if o != sub_opt:
                        sec[o] = lt["sweeps"][o][min(1, len(lt["sweeps"][o]) - 1)]     # non-default section-level values
                sec[lang] = {sub_opt: lt["sweeps"][sub_opt][0]}                      # the strict end of the sweep: findings stay visible
                for ign in ([None] + ([sorted(lt["files"])[0]] if lt.get("ignore_opt") else [])):
                    sec2 = dict(sec)
                    if ign:
                        sec2["ignore"] = [ign]
                    cases.append({"linter": name, "carriers": {rng.choice(["yaml", "json", "pyproject"]): {lt["sections"][0]: sec2}}, "cli": {}, "explicit_missing": False})
    # ... and a language sub-section that is present but empty (`python:` with nothing under it): no override at all
    for name, lt in LINTERS.items():
        for lang in lt["langs"]:
            sec = dict(lt["base"])
            for o in lt["sweeps"]:
                sec[o] = lt["sweeps"][o][0]
            sec[lang] = None
            cases.append({"linter": name, "carriers": {rng.choice(["yaml", "json"]): {lt["sections"][0]: sec}}, "cli": {}, "explicit_missing": False})
    models = []
    for case in cases:
        lt = LINTERS[case["linter"]]
        # the model judges limits per language of the files present; the section itself does not depend on the language
        per_lang = {}
        langs = lt["langs"] or ["python"]
        for lang in langs:
            req, others = model_request(case, lang)
            per_lang[lang] = (drv.call(req), others)
        m0 = list(per_lang.values())[0][0]
        ext_of = {"python": ".py", "typescript": ".ts", "rust": ".rs"}
        if lt["langs"] and not m0["broken"]:
            # a limit is validated when a file of that language is linted: languages whose files are all ignored do not count
            alive = {lang: mm for lang, mm in per_lang.items() if any(f.endswith(ext_of[lang]) and f not in m0["ignoreInEffect"] for f in lt["files"])}
            per_lang = alive or per_lang
        models.append(per_lang)
        expect = {}
        for tag in ("new", "old"):
            outs = [m[tag] for m, _ in per_lang.values()]
            if any(o["outcome"] == "exit2" for o in outs):
                continue
            others = list(per_lang.values())[0][1]
            if lt["langs"]:
                # the model's reading of per-language overrides is the oracle: for each language a flat section holding the
                # limits in effect for that language, judged on that language's files only
                parts = []
                for lang, (m, oth) in per_lang.items():
                    flat = {k: dec_val(v, oth) for k, v in m[tag]["section"]["opts"]}
                    for k, v in m[tag]["eff"]:
                        if v is None:
                            flat.pop(k, None)
                        else:
                            flat[k] = dec_val(v, oth)
                    for lg in ("python", "typescript", "javascript", "rust"):
                        if lg in flat and not isinstance(flat[lg], dict):
                            del flat[lg]       # `python:` left empty overrides nothing
                    parts.append((lang, flat))
                expect[tag] = (lt["sections"][0].replace("-", "_"), parts, outs[0]["ignore"])
            else:
                expect[tag] = (lt["sections"][0].replace("-", "_"), dec_section(outs[0]["section"], others), outs[0]["ignore"])
        if "new" in expect:
            expect["default"] = (lt["sections"][0].replace("-", "_"), dict(lt["base"]), [])
        case["expect"] = expect
    root = core.scratch_dir("c05")
    try:
        impls = core.pmap(plumbing_case, [(i, c, str(root)) for i, c in enumerate(cases)], procs=16, chunksize=2)
        absolute = core.pmap(absolute_case, [(name, str(root), seed) for name in LINTERS], procs=16)
    finally:
        shutil.rmtree(root, ignore_errors=True)
    drv.close()
    for case, per_lang, im in zip(cases, models, impls):
        res.evaluations += 1
        lt = LINTERS[case["linter"]]
        show = {k: v for k, v in case.items() if k != "expect"}
        res.bump("linter", case["linter"])
        res.bump("carriers", "+".join(sorted(case["carriers"])) or "none")
        if im["errors"]:
            res.disagreements.append(core.Disagreement(case=show, impl=im["errors"], model=None, spec=None, property_fails=True, note=im["errors"][0][:400]))
            continue
        m0 = list(per_lang.values())[0][0]
        new_exit2 = any(m["new"]["outcome"] == "exit2" for m, _ in per_lang.values())      # per_lang holds the live languages only (see above)
        old_exit2 = any(m["old"]["outcome"] == "exit2" for m, _ in per_lang.values())
        if new_exit2 and not m0["broken"] and set(lt["files"]) <= set(m0["ignoreInEffect"]):
            # an invalid limit is noticed when a file is linted; with every file of the run ignored nothing is linted at all
            res.bump("model_outcome", "invalid-limit-but-all-files-ignored")
            if im["exit"] not in (0, 2) or im["got"]:
                res.disagreements.append(core.Disagreement(case=show, impl={"exit": im["exit"], "violations": im["got"]}, model="exit 2, or exit 0 without findings (all files ignored)",
                                                           spec=None, property_fails=True, note=f"{case['linter']}: all files ignored, CLI exit {im['exit']}"))
            continue
        res.bump("model_outcome", "exit2" if new_exit2 else "run")

        def matches(exit2, tag):
            if exit2:
                return im["exit"] == 2
            want = im["refs"].get(tag)
            return im["got"] is not None and im["got"] == want and im["exit"] == (1 if want else 0)
        if not new_exit2 and im["refs"].get("new") is not None:
            # non-trivial: the configuration changes the outcome
            if im["refs"]["new"] != im["refs"].get("default", None) and case["carriers"]:
                res.nontrivial.add(core.canon(show))
        if matches(new_exit2, "new"):
            # specification: an effective enabled:false means silence
            sec_new = case["expect"]["new"][1] if not new_exit2 else {}
            if isinstance(sec_new, list):
                sec_new = sec_new[0][1]
            if not new_exit2 and sec_new.get("enabled") is False and im["got"] and case["linter"] not in KNOWN_UNCONFIGURABLE:
                res.disagreements.append(core.Disagreement(case=show, impl=im["got"][:5], model="run with enabled=false", spec="no violations", property_fails=True,
                                                           note="enabled: false in effect but the linter still reports"))
            continue
        if matches(old_exit2, "old") and (old_exit2 != new_exit2 or im["refs"].get("old") != im["refs"].get("new")):
            res.findings.setdefault("F05bcd", {"case": show, "got": {"exit": im["exit"], "violations": None if im["got"] is None else len(im["got"])}})
            continue
        want = "exit 2" if new_exit2 else f"{len(im['refs'].get('new') or [])} violations like the library run with {case['expect'].get('new', ('', {}, []))[1]} ignore={case['expect'].get('new', ('', {}, []))[2]}"
        res.disagreements.append(core.Disagreement(case=show, impl={"exit": im["exit"], "violations": im["got"][:8] if im["got"] else im["got"], "tail": im["tail"][-200:]},
                                                   model=want, spec=None, property_fails=True,
                                                   note=f"{case['linter']}: CLI exit {im['exit']} with {None if im['got'] is None else len(im['got'])} violations, model expects {want}"[:1200]))
    for a in absolute:
        res.evaluations += a["checked"]
        res.bump("absolute_checks", a["linter"], a["checked"])
        for item in a["known"][:1]:
            res.findings.setdefault(f"F05g:{a['linter']}", {"linter": a["linter"], "what": item["what"], "config": item.get("config"), "carrier": item.get("carrier"),
                                                            "count": len(a["known"])})
        for item in a["problems"]:
            res.disagreements.append(core.Disagreement(case={"linter": a["linter"], "config": item.get("config"), "carrier": item.get("carrier")}, impl=item["what"], model=None,
                                                       spec="C05 statement", property_fails=item["fails"], note=f"{a['linter']}: {item['what']}"[:1200]))
    if not res.samples:
        res.samples.append({k: v for k, v in cases[5].items() if k != "expect"})
    return res


def replay(path: str, st: core.ProofStatus) -> int:
    data = json.loads(Path(path).read_text())
    case = data.get("case") or data.get("witness") or {}
    print(json.dumps(data, indent=1)[:3000])
    if isinstance(case, dict) and "case" in case:
        case = case["case"]
    if isinstance(case, dict) and case.get("linter") in LINTERS and "carriers" in case and isinstance(case["carriers"], dict):
        root = core.scratch_dir("c05r")
        lt = LINTERS[case["linter"]]
        proj = make_project(root, "r", lt)
        print(cli_run(proj, lt, case["carriers"], case.get("cli", {}), case.get("explicit_missing", False)))
        shutil.rmtree(root, ignore_errors=True)
    print(f"VIOLATION property={PROP} replay={path}")
    return 1
