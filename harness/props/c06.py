"""C06 — exit code and text/JSON/SARIF renderings.  Every linter command x every --format on inputs
with zero / one / many violations and awkward paths and messages (non-ASCII, quotes, spaces, tab,
newline, surrogate-escaped bytes), compared field by field with the documents the Lean model
renders from the violations the orchestrator returns; usage-error classes must exit 2."""
from __future__ import annotations

import json
import os
import re
import shutil
import subprocess
from pathlib import Path

from .. import core

PROP = "C06"
LEVEL_NOTE = ("renderers and exit status are modelled on abstract JSON values; json.dumps escaping, click's option parsing and "
              "stdout encoding are observed on the real tool, not modelled; _sanitize_string is a parameter of the theorems")

NAMES = ["plain.py", "naïve café.py", "quo\"te'.py", "sp ace.py", "日本語.py", "tab\tname.py", "new\nline.py",
         os.fsdecode(b"bad\xe2name.py"), "emoji\U0001F600.py", "back\\slash.py"]

PY_MANY = '''def café_naïve(a, items):
    print("début \\"quoted\\"")
    if a:
        for i in items:
            while a:
                if i:
                    with open(i) as f:
                        return 4242
    return 3.75


class DataManager:
    def m1(self): return 11
    def m2(self): return 12
    def m3(self): return 13
    def m4(self): return 14
    def m5(self): return 15
    def m6(self): return 16
    def m7(self): return 17
    def m8(self): return 18
'''
PY_ONE = "def f():\n    return 4242\n"
PY_ZERO = '"""clean"""\n\n\ndef f():\n    return 1\n'
RS_MANY = "fn f(v: Vec<String>) -> i32 {\n    let a = v.get(0).unwrap();\n    for s in v.iter() {\n        let t = s.clone();\n    }\n    4242\n}\n"
CMDS_FMT = ["text", "json", "sarif"]
DATA = core.VERIF / "harness" / "data"


# command-line threshold options per command (the documented ones), used for the option runs on the rich project
CMD_OPTS = {"nesting": ["--max-depth", "2"], "srp": ["--max-methods", "3", "--max-loc", "40"], "dry": ["--min-lines", "3"],
            "pipeline": ["--min-continues", "1"]}


def write_rich(proj: Path) -> None:
    """a project in which (nearly) every rule id of every linter fires: the per-linter trigger files of C15 plus a showcase
    for the cross-file and configuration-dependent rules (stringly-typed kinds, file-placement, lbyl kinds, cqs, pipeline ...)"""
    (proj / "pkg").mkdir()
    for n, k in (("one.py", "py"), ("two.py", "py"), ("web.ts", "ts"), ("web2.ts", "ts"), ("lib.rs", "rs")):
        (proj / n).write_text((DATA / f"trig.{k}.txt").read_text(), encoding="utf-8")
    for n in ("show_a.py", "show_b.py", "lib2.rs", "syntax_bad.py"):
        (proj / "pkg" / n).write_text((DATA / "show" / f"{n}.txt").read_text(), encoding="utf-8")
    (proj / ".thailint.yaml").write_text((DATA / "show" / "thailint.yaml.txt").read_text())


def enc(o):
    """lone surrogates cannot travel through the Lean driver's JSON: carry them as plane-15 private-use code points"""
    if isinstance(o, str):
        return "".join(chr(0xF0000 + ord(ch)) if 0xD800 <= ord(ch) <= 0xDFFF else ch for ch in o)
    if isinstance(o, list):
        return [enc(x) for x in o]
    if isinstance(o, dict):
        return {k: enc(v) for k, v in o.items()}
    return o


def dec(o):
    if isinstance(o, str):
        return "".join(chr(ord(ch) - 0xF0000) if 0xFD800 <= ord(ch) <= 0xFDFFF else ch for ch in o)
    if isinstance(o, list):
        return [dec(x) for x in o]
    if isinstance(o, dict):
        return {k: dec(v) for k, v in o.items()}
    return o


def commands():
    from src.cli_main import cli
    return sorted(c for c in cli.commands if c not in ("config", "hello", "init-config"))


def run_cli_bytes(args, cwd):
    from click.testing import CliRunner
    from src.cli_main import cli
    old = os.getcwd()
    os.chdir(cwd)
    try:
        core._reset_singletons()
        r = CliRunner().invoke(cli, args, catch_exceptions=True)
        exc = None if (r.exception is None or isinstance(r.exception, SystemExit)) else f"{type(r.exception).__name__}: {r.exception}"
        return r.exit_code, r.stdout_bytes, exc
    finally:
        os.chdir(old)


TEXT_LOC = re.compile(r"^  (?P<path>.*?)(?::(?P<a>\d+))?(?::(?P<b>\d+))?$", re.S)
TEXT_MSG = re.compile(r"^    \[(?P<sev>[A-Z]+)\] (?P<rule>[^:]+?): (?P<msg>.*)$", re.S)


def parse_text(out: str):
    """entries of the human-readable rendering: (path, [numbers], rule, message)"""
    if out.strip().startswith("✓ No violations found"):
        return []
    lines = out.split("\n")
    if not lines or not lines[0].startswith("Found "):
        return None
    m0 = re.match(r"Found (\d+) violation\(s\):", lines[0])
    entries, i = [], 2
    while i < len(lines):
        if not lines[i].strip():
            i += 1
            continue
        if i + 1 >= len(lines):
            return None
        ml, mm = TEXT_LOC.match(lines[i]), TEXT_MSG.match(lines[i + 1])
        if not ml or not mm:
            return None
        nums = [int(x) for x in (ml.group("a"), ml.group("b")) if x is not None]
        entries.append({"path": ml.group("path"), "nums": nums, "rule_id": mm.group("rule"), "message": mm.group("msg")})
        i += 2
    if m0 and int(m0.group(1)) != len(entries):
        return None
    return entries


def impl_case(args) -> dict:
    idx, name_i, variant, cmds, root = args
    from src.core.cli_utils import _sanitize_string
    from src.orchestrator.core import Orchestrator
    proj = Path(root) / f"f{idx}" / "proj"
    out = {"errors": [], "runs": []}
    try:
        proj.mkdir(parents=True)
        name = NAMES[name_i]
        body = {"many": PY_MANY, "one": PY_ONE, "zero": PY_ZERO, "rich": PY_ZERO}[variant]
        (proj / name).write_text(body, encoding="utf-8")
        if variant == "rich":
            write_rich(proj)
        elif variant == "many":
            (proj / (name[:-3] + "_two.py")).write_text(body.replace("café_naïve", "other_über"), encoding="utf-8")
            (proj / "lib.rs").write_text(RS_MANY)
        # (a surrogate-escaped file name makes the DRY rule's SQLite insert raise: that crash is C11's subject, see F11b)
        surrogate = any(0xD800 <= ord(ch) <= 0xDFFF for ch in name)
        if variant != "rich":
            (proj / ".thailint.yaml").write_text("{}\n" if surrogate else "dry:\n  enabled: true\n  min_duplicate_lines: 4\n")
        core._reset_singletons()
        allv = Orchestrator(project_root=proj).lint_directory(proj)
        out["all"] = [{"rule_id": v.rule_id, "file_path": str(v.file_path), "line": v.line, "column": v.column, "message": v.message} for v in allv]
        strs = {d[k] for d in out["all"] for k in ("file_path", "message")}
        out["san"] = [[s, _sanitize_string(s)] for s in strs if _sanitize_string(s) != s]
        out["san_identity_ok"] = all(_sanitize_string(s) == s for s in strs if not any(0xD800 <= ord(ch) <= 0xDFFF for ch in s))
        for c in cmds:
            for fmt in CMDS_FMT:
                code, raw, exc = run_cli_bytes(["--project-root", str(proj), c, "--format", fmt, str(proj)], cwd=proj)
                rec = {"cmd": c, "fmt": fmt, "exit": code, "exc": exc}
                try:
                    txt = raw.decode("utf-8")
                    rec["utf8"] = True
                except UnicodeDecodeError as e:
                    txt = raw.decode("utf-8", "replace")
                    rec["utf8"] = False
                    rec["utf8_err"] = str(e)[:100]
                if fmt == "text":
                    rec["doc"] = parse_text(txt.rstrip("\n"))
                else:
                    try:
                        rec["doc"] = json.loads(txt)
                    except Exception as e:  # noqa: BLE001
                        rec["doc"] = None
                        rec["parse_err"] = str(e)[:100]
                rec["raw"] = txt[:300] if rec.get("doc") is None else ""
                out["runs"].append(rec)
        # option runs (rich project only): the same command with its threshold options, quietly and with the global --verbose
        out["optruns"] = []
        if variant == "rich":
            for c in cmds:
                opts = CMD_OPTS.get(c, [])
                for fmt in CMDS_FMT:
                    rec = {"cmd": c, "fmt": fmt, "opts": opts}
                    for mode, pre in (("quiet", []), ("verbose", ["--verbose"])):
                        code, raw, exc = run_cli_bytes(pre + ["--project-root", str(proj), c] + opts + ["--format", fmt, str(proj)], cwd=proj)
                        rec[mode] = {"exit": code, "exc": exc, "out": raw.decode("utf-8", "replace")}
                    out["optruns"].append(rec)
    except Exception as exc:  # noqa: BLE001
        import traceback
        out["errors"].append(f"{type(exc).__name__}: {exc} {traceback.format_exc()[-500:]}")
    finally:
        shutil.rmtree(Path(root) / f"f{idx}", ignore_errors=True)
    return out


def usage_cases(root: Path):
    """(description, args, project files, expected outcome class)"""
    ok_py = {"a.py": PY_ONE}
    return [
        ("missing path", ["nesting", "nope.py"], ok_py, "pathMissing"),
        ("missing path among several", ["nesting", "a.py", "nope.py"], ok_py, "pathMissing"),
        ("missing --config", ["nesting", "--config", "nope.yaml", "a.py"], ok_py, "configMissing"),
        ("missing --config next to pyproject.toml", ["magic-numbers", "--config", "nope.yaml", "a.py"], {**ok_py, "pyproject.toml": "[tool.other]\nx = 1\n"}, "configMissing"),
        ("malformed --config yaml", ["nesting", "--config", "bad.yaml", "a.py"], {**ok_py, "bad.yaml": "nesting: [unclosed\n"}, "configMalformed"),
        ("malformed --config json", ["srp", "--config", "bad.json", "a.py"], {**ok_py, "bad.json": "{\"srp\": "}, "configMalformed"),
        ("malformed .thailint.yaml", ["magic-numbers", "a.py"], {**ok_py, ".thailint.yaml": "magic-numbers: {allowed_numbers: [1,\n"}, "configMalformed"),
        ("malformed .thailint.json", ["magic-numbers", "a.py"], {**ok_py, ".thailint.json": "{\"magic-numbers\": "}, "configMalformed"),
        # the global spelling (before the command name) names the application configuration
        ("malformed global --config yaml", ["--config", "bad.yaml", "nesting", "a.py"], {**ok_py, "bad.yaml": "nesting: [unclosed\n"}, "configMalformed"),
        ("malformed global -c json, sarif", ["-c", "bad.json", "srp", "--format", "sarif", "a.py"], {**ok_py, "bad.json": "{\"srp\": "}, "configMalformed"),
        ("invalid value in global --config", ["--config", "loud.yaml", "magic-numbers", "--format", "json", "a.py"], {**ok_py, "loud.yaml": "log_level: LOUD\n"}, "configMalformed"),
        ("unsupported global --config format", ["--config", "conf.ini", "magic-numbers", "a.py"], {**ok_py, "conf.ini": "x=1\n"}, "configMalformed"),
        ("unknown option", ["nesting", "--no-such-option", "a.py"], ok_py, "usageError"),
        ("bad --format value", ["srp", "--format", "xml", "a.py"], ok_py, "usageError"),
        ("bad --max-depth value", ["nesting", "--max-depth", "abc", "a.py"], ok_py, "usageError"),
        ("non-positive limit in config", ["nesting", "a.py"], {**ok_py, ".thailint.yaml": "nesting:\n  max_nesting_depth: 0\n"}, "invalidValue"),
        ("non-positive --max-depth", ["nesting", "--max-depth", "0", "a.py"], ok_py, "invalidValue"),
        ("unknown command", ["no-such-linter", "a.py"], ok_py, "usageError"),
    ]


def run(tier: str, seed: int, st: core.ProofStatus) -> core.Result:
    res = core.Result()
    res.rule = ("every linter command x {text,json,sarif} on projects with zero / one / many violations whose file names carry "
                "non-ASCII, quotes, space, tab, newline, backslash, emoji and surrogate-escaped bytes (quick: seeded sample of "
                "name x variant x 8 commands; thorough: full matrix), each document compared with the Lean model's rendering of "
                "the orchestrator's violations; 18 usage-error cases through real subprocesses; a 'rich' project in which 29+ rule ids fire is rendered by every command in every format; non-trivial = a compared "
                "document listing >= 1 violation; distinct by (name, variant, command, format)")
    rng = core.sub_rng(seed, PROP, tier)
    cmds = commands()
    work = []
    idx = 0
    root = core.scratch_dir("c06")
    combos = [(ni, var) for ni in range(len(NAMES)) for var in ("many", "one", "zero")]
    if tier == "quick":
        combos = [(ni, "many") for ni in range(len(NAMES))] + rng.sample([(ni, v) for ni in range(len(NAMES)) for v in ("one", "zero")], 6)
    for ni, var in combos:
        cs = cmds if tier == "thorough" else sorted(set(rng.sample(cmds, 6) + ["nesting", "magic-numbers"]))
        work.append((idx, ni, var, cs, str(root)))
        idx += 1
    # the rich project: every command x every format in both tiers (commands split over workers)
    for k in range(0, len(cmds), 3):
        work.append((idx, 0, "rich", cmds[k:k + 3], str(root)))
        idx += 1
    try:
        impls = core.pmap(impl_case, work, procs=16)
        # usage errors: real processes (exit status as the shell sees it)
        usage = []
        for k, (desc, args, files, outcome) in enumerate(usage_cases(root)):
            d = root / f"u{k}"
            d.mkdir(parents=True)
            for n, t in files.items():
                (d / n).write_text(t)
            code, so, se = core.run_cli_subprocess(args, cwd=d)
            usage.append((desc, args, outcome, code, so[-200:], se[-300:]))
    finally:
        shutil.rmtree(root, ignore_errors=True)
    drv = core.Driver()
    for (i, ni, var, cs, _r), im in zip(work, impls):
        case0 = {"name": NAMES[ni].encode("utf-8", "surrogateescape").decode("latin-1"), "variant": var}
        if im["errors"]:
            res.evaluations += 1
            res.disagreements.append(core.Disagreement(case=case0, impl=im["errors"], model=None, spec=None, property_fails=True, note=im["errors"][0][:800]))
            continue
        if not im["san_identity_ok"]:
            res.disagreements.append(core.Disagreement(case=case0, impl=None, model=None, spec=None, property_fails=True, note="_sanitize_string changes a surrogate-free string"))
        for rec in im["runs"]:
            res.evaluations += 1
            c, fmt = rec["cmd"], rec["fmt"]
            res.bump("format", fmt)
            res.bump("variant", var)
            ids = sorted({v["rule_id"] for v in im["all"]})
            ow = drv.call({"prop": "C15", "op": "owns", "cmd": c, "ids": ids})
            owned = {r for r, ok in zip(ids, ow["owns"]) if ok}
            vs = [v for v in im["all"] if v["rule_id"] in owned]
            m = dec(drv.call(enc({"prop": PROP, "violations": vs, "san": im["san"]})))
            case = {**case0, "cmd": c, "format": fmt}
            problems = []
            if rec["exc"]:
                problems.append(f"unhandled exception: {rec['exc']}")
            if rec["exit"] != m["exit"]:
                problems.append(f"exit {rec['exit']}, model {m['exit']} ({len(vs)} violations)")
            if not rec["utf8"]:
                problems.append(f"output is not valid UTF-8: {rec.get('utf8_err')}")
            if rec["doc"] is None and not (fmt == "text" and "\n" in NAMES[ni] and vs):
                problems.append(f"output does not parse as {fmt}: {rec.get('parse_err', '')} {rec['raw'][:120]!r}")
            elif rec["doc"] is not None:
                if fmt == "json":
                    if rec["doc"] != m["json"]:
                        problems.append(f"JSON document differs from the model: total {rec['doc'].get('total')} vs {m['json']['total']}; first diff "
                                        f"{next(((a, b) for a, b in zip(rec['doc'].get('violations', []), m['json']['violations']) if a != b), None)}")
                elif fmt == "sarif":
                    d = rec["doc"]
                    try:
                        run0 = d["runs"][0]
                        got = {"version": d["version"], "n_runs": len(d["runs"]), "results": run0["results"],
                               "rules": [r["id"] for r in run0["tool"]["driver"]["rules"]]}
                        mrun = m["sarif"]["runs"][0]
                        want = {"version": "2.1.0", "n_runs": 1, "results": mrun["results"], "rules": [r["id"] for r in mrun["tool"]["driver"]["rules"]]}
                        if got != want:
                            problems.append(f"SARIF differs from the model: rules {got['rules']} vs {want['rules']}; results {len(got['results'])} vs {len(want['results'])}; "
                                            f"first diff {next(((a, b) for a, b in zip(got['results'], want['results']) if a != b), None)}")
                        if not d.get("$schema", "").endswith("sarif-schema-2.1.0.json") or not run0["tool"]["driver"].get("name"):
                            problems.append("SARIF envelope incomplete ($schema / tool.driver.name)")
                        for r in run0["results"]:
                            reg = r["locations"][0]["physicalLocation"]["region"]
                            if reg["startLine"] < 1 or reg["startColumn"] < 1:
                                problems.append(f"SARIF region not 1-based: {reg} for {r['ruleId']}")
                                break
                            if r["ruleId"] not in got["rules"]:
                                problems.append(f"SARIF result ruleId {r['ruleId']} not declared")
                                break
                    except (KeyError, IndexError, TypeError) as e:
                        problems.append(f"SARIF structure: {type(e).__name__} {e}")
                else:
                    if rec["doc"] != m["text"]:
                        problems.append(f"text rendering differs from the model: {len(rec['doc'])} entries vs {len(m['text'])}; first diff "
                                        f"{next(((a, b) for a, b in zip(rec['doc'], m['text']) if a != b), None)}")
            if vs:
                res.nontrivial.add(core.canon([ni, var, c, fmt]))
                for rid in {v["rule_id"] for v in vs}:
                    res.bump("rule ids rendered (documents)", rid)
            if problems:
                res.disagreements.append(core.Disagreement(case=case, impl={"exit": rec["exit"], "doc": str(rec["doc"])[:600]}, model={"exit": m["exit"]}, spec=None,
                                                           property_fails=True, note=" | ".join(problems)[:2500]))
            if len(res.samples) < 3 and vs and fmt == "sarif" and ni in (1, 7):
                res.samples.append({"file": case0["name"], "cmd": c, "format": fmt, "violations": len(vs), "exit": rec["exit"],
                                    "first_result": rec["doc"]["runs"][0]["results"][0] if rec["doc"] else None})
    # option runs: --verbose must not change what is written to stdout, and the three renderings of a run with options agree
    for (i, ni, var, cs, _r), im in zip(work, impls):
        by_cmd = {}
        for rec in im.get("optruns", []):
            res.evaluations += 1
            res.bump("option runs", f"{rec['cmd']} {' '.join(rec['opts'])}".strip())
            q, v = rec["quiet"], rec["verbose"]
            case = {"variant": var, "cmd": rec["cmd"], "options": rec["opts"], "format": rec["fmt"]}
            problems = []
            if q["exc"] or v["exc"]:
                problems.append(f"unhandled exception: {q['exc'] or v['exc']}")
            if q["exit"] != v["exit"] or q["out"] != v["out"]:
                problems.append(f"--verbose changes the command's stdout / exit ({q['exit']} vs {v['exit']}): first lines {q['out'][:80]!r} vs {v['out'][:80]!r}")
            doc = None
            if rec["fmt"] == "text":
                doc = parse_text(q["out"].rstrip("\n"))
            else:
                try:
                    doc = json.loads(q["out"])
                except Exception as e:  # noqa: BLE001
                    problems.append(f"stdout is not {rec['fmt']}: {e}")
            by_cmd.setdefault(rec["cmd"], {})[rec["fmt"]] = (doc, q["exit"])
            if problems:
                res.disagreements.append(core.Disagreement(case=case, impl={"quiet": q["out"][:300], "verbose": v["out"][:300]}, model=None, spec=None, property_fails=True,
                                                           note=" | ".join(problems)[:1500]))
        for c, docs in by_cmd.items():
            if not all(k in docs and docs[k][0] is not None for k in CMDS_FMT):
                continue
            jd = docs["json"][0]
            vs = [{"rule_id": v["rule_id"], "file_path": v["file_path"], "line": v["line"], "column": v["column"], "message": v["message"]} for v in jd.get("violations", [])]
            m = dec(drv.call(enc({"prop": PROP, "violations": vs, "san": []})))
            problems = []
            if jd.get("total") != len(vs):
                problems.append(f"JSON total {jd.get('total')} with {len(vs)} listed violations")
            if docs["text"][0] != m["text"]:
                problems.append(f"text rendering of the run with options differs from the JSON one: {len(docs['text'][0])} vs {len(m['text'])} entries")
            try:
                if docs["sarif"][0]["runs"][0]["results"] != m["sarif"]["runs"][0]["results"]:
                    problems.append(f"SARIF results of the run with options differ from the JSON one: {len(docs['sarif'][0]['runs'][0]['results'])} vs {len(vs)}")
            except (KeyError, IndexError, TypeError) as e:
                problems.append(f"SARIF structure: {e}")
            if len({docs[k][1] for k in CMDS_FMT}) != 1 or docs["json"][1] != m["exit"]:
                problems.append(f"exit codes {[docs[k][1] for k in CMDS_FMT]} for {len(vs)} violations")
            if vs:
                res.nontrivial.add(core.canon(["opt", c]))
            if problems:
                res.disagreements.append(core.Disagreement(case={"variant": "rich", "cmd": c, "options": CMD_OPTS.get(c, [])}, impl=None, model=None, spec=None, property_fails=True,
                                                           note=" | ".join(problems)[:1500]))
    # usage errors
    for desc, args, outcome, code, so, se in usage:
        res.evaluations += 1
        res.bump("usage_error_class", outcome)
        m = drv.call({"prop": PROP, "violations": [], "outcome": outcome})
        if code != m["exit"]:
            res.disagreements.append(core.Disagreement(case={"usage": desc, "args": args}, impl={"exit": code, "stdout": so, "stderr": se}, model={"exit": m["exit"]}, spec={"exit": 2},
                                                       property_fails=True, note=f"{desc}: `thailint {' '.join(args)}` exits {code}, expected {m['exit']}"))
        res.nontrivial.add(core.canon(["usage", desc]))
    drv.close()
    res.exhaustive = tier == "thorough"
    return res


def replay(path: str, st: core.ProofStatus) -> int:
    data = json.loads(Path(path).read_text())
    print(json.dumps(data, indent=1)[:3000])
    print("re-run `./check C06 --tier thorough` (full matrix) to re-evaluate this cell")
    return 1
