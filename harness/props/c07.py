"""C07 — `--parallel` vs sequential.  Real process pools, worker counts 1..16, file counts on both
sides of the fallback threshold, completion orders forced by patching `as_completed` in-process,
plus real CLI runs (relative targets, explicit --config files, repeated base names)."""
from __future__ import annotations

import concurrent.futures as cf
import json
import os
import shutil
from pathlib import Path

from .. import core
from ..gen_project import DEFAULT_CFG, gen_project, write_project

PROP = "C07"
LEVEL_NOTE = ("theorems quantify over all rule plug-ins, file lists, worker counts and completion orders of the orchestrator "
              "model; real OS scheduling and pickling are only sampled (orders are forced through as_completed)")
CLI_CMDS = ["nesting", "magic-numbers", "srp", "print-statements", "unwrap-abuse", "dry", "stringly-typed"]


def tok(v) -> str:
    d = v.to_dict() if hasattr(v, "to_dict") else v
    return json.dumps(d, sort_keys=True)


def impl_case(args) -> dict:
    idx, files, runs, cli, root = args
    repeat = cli.get("repeat", [])
    import src.orchestrator.core as oc
    from src.orchestrator.core import Orchestrator
    proj = Path(root) / f"r{idx}" / "proj"
    out = {"errors": [], "par": [], "cli": None}
    try:
        write_project(proj, files, cli["project_cfg"])
        fs = [proj / rel for rel, _ in files]
        fs += [fs[i] for i in repeat]        # a file may be named more than once (repeated argument, overlapping globs)
        core._reset_singletons()
        seq = [tok(v) for v in Orchestrator(project_root=proj).lint_files(list(fs))]
        perfile = []
        for f in fs:
            core._reset_singletons()
            perfile.append([tok(v) for v in Orchestrator(project_root=proj).lint_file(f)])
        core._reset_singletons()
        fin_empty = [tok(v) for v in Orchestrator(project_root=proj).lint_files([])]
        flat = [t for p in perfile for t in p]
        out.update(seq=seq, perfile=perfile, finEmpty=fin_empty, loop_is_union=(seq[:len(flat)] == flat), finAll=seq[len(flat):])
        real_ac = oc.as_completed
        for k, order in runs:
            def forced(futs, _order=order):
                futs = list(futs)
                cf.wait(futs)
                for i in _order:
                    yield futs[i]
            oc.as_completed = forced
            try:
                core._reset_singletons()
                par = [tok(v) for v in Orchestrator(project_root=proj).lint_files_parallel(list(fs), max_workers=k)]
            finally:
                oc.as_completed = real_ac
            out["par"].append(par)
        # real CLI, relative target from inside the project, default worker count
        out["cli"] = []
        for cmd, cfg_text in cli["runs"]:
            extra = []
            if cfg_text is not None:
                # next to the project's own .thailint.yaml: the project root inferred from --config is the project
                (proj / "alt-config.yaml").write_text(cfg_text)
                extra = ["--config", "alt-config.yaml"]
            res = {"cmd": cmd, "config_file": cfg_text}
            for mode in ("seq", "par"):
                tgt = [str(f.relative_to(proj)) for f in fs] if cli["target"] == "FILES" else [cli["target"]]
                a = [cmd, "--format", "json"] + extra + (["--parallel"] if mode == "par" else []) + tgt
                code, stdout = core.run_cli(a, cwd=proj)
                vs = core.violations_json(stdout)
                res[mode] = {"exit": code, "vs": None if vs is None else sorted(json.dumps(v, sort_keys=True) for v in vs), "raw": stdout[:200] if vs is None else ""}
            out["cli"].append(res)
    except Exception as exc:  # noqa: BLE001
        import traceback
        out["errors"].append(f"{type(exc).__name__}: {exc} {traceback.format_exc()[-400:]}")
    finally:
        shutil.rmtree(Path(root) / f"r{idx}", ignore_errors=True)
    return out


def gen_case(rng, idx, tier):
    n = rng.choice([2, 5, 9, 15, 16, 17, 20, 24, 33, 40] if tier == "thorough" else [3, 9, 15, 16, 17, 22, 34])
    files = gen_project(rng, n)
    n = len(files)      # gen_project may add extensionless files
    repeat = [rng.randrange(n) for _ in range(rng.choice([1, 2, 3]))] if rng.random() < 0.3 else []
    n += len(repeat)
    runs = []
    for _ in range(3 if tier == "quick" else 5):
        k = rng.choice([1, 2, 3, 4, 5, 6, 7, 8, 9, 10, 12, 16])
        order = list(range(n))
        rng.shuffle(order)
        runs.append((k, order))
    # make sure at least one run is pooled when possible
    if n >= 2:
        k = max(1, n // 2 - rng.choice([0, 0, 1]))
        order = list(range(n))
        rng.shuffle(order)
        runs.append((min(k, 16), order))
    import re
    used = sorted({int(x) for _rel, text in files for x in re.findall(r"\b\d{3,4}\b", text)})
    allowed = [0, 1, 2] + rng.sample(used, len(used) // 2)
    project_cfg = DEFAULT_CFG + "magic-numbers:\n  allowed_numbers: %s\nnesting:\n  max_nesting_depth: %d\n" % (
        json.dumps(allowed), rng.choice([2, 3, 7, 9]))
    cfgs = [None, "# stock configuration\n", "nesting:\n  max_nesting_depth: 2\nmagic-numbers:\n  allowed_numbers: [7]\n",
            # a value the owning linter documents as invalid ends the run with exit 2 - sequentially and in parallel
            "nesting:\n  max_nesting_depth: 0\n", "srp:\n  max_methods: -1\n"]
    cli_runs = [("nesting", rng.choice(cfgs)), ("magic-numbers", rng.choice(cfgs)), (rng.choice(CLI_CMDS), rng.choice(cfgs))]
    cli = {"runs": cli_runs, "target": rng.choice([".", ".", "pkg_a", ".", "FILES"]), "project_cfg": project_cfg, "repeat": repeat}
    return {"idx": idx, "files": files, "runs": runs, "cli": cli}


TRANSFER_KEYS = ["rule_id", "file_path", "line", "column", "message", "severity", "suggestion"]


def transfer_probe(rng, drv, res, n: int) -> None:
    """Tie of the transfer-format model (`toDict` / `fromDict`) to `Violation.to_dict` / `from_dict`: records as the
    workers produce them, and records with a key missing, another severity, or an absent suggestion.  Values keep
    their types (the implementation does not type-check; the model is only claimed for well-typed records)."""
    from src.core.types import Severity, Violation
    texts = ["", "x", "nesting.excessive-depth", "src/a b/é.py", "Zeile \"7\"\n", "error", "severity", "\u0e44\u0e17\u0e22", "a" * 40]
    for _ in range(n):
        v = Violation(rule_id=rng.choice(texts), file_path=rng.choice(texts), line=rng.choice([0, 1, 7, -1, 10 ** 12]),
                      column=rng.choice([0, 3, 120]), message=rng.choice(texts), severity=Severity.ERROR,
                      suggestion=rng.choice([None, None] + texts))
        d = v.to_dict()
        kind = rng.choice(["as produced", "as produced", "key missing", "other severity", "keys reordered"])
        pairs = [[k, d[k]] for k in d]
        if kind == "key missing":
            gone = rng.choice(TRANSFER_KEYS)
            pairs = [kv for kv in pairs if kv[0] != gone]
        elif kind == "other severity":
            pairs = [[k, rng.choice(["warning", "ERROR", "", "info"])] if k == "severity" else [k, x] for k, x in pairs]
        elif kind == "keys reordered":
            rng.shuffle(pairs)
        res.evaluations += 1
        res.bump("transfer record", kind)
        try:
            back = Violation.from_dict(dict(pairs))
            impl = {"ok": True, "dict": back.to_dict(), "same": back == v}
        except (KeyError, ValueError) as exc:
            impl = {"ok": False, "error": type(exc).__name__}
        m = drv.call({"prop": PROP, "op": "dict", "dict": pairs})
        model_dict = dict(m["dict"]) if m.get("ok") else None
        if kind in ("as produced", "keys reordered"):
            res.nontrivial.add(core.canon(["transfer", pairs]))
        agrees = impl["ok"] == m["ok"] and (not impl["ok"] or (impl["dict"] == model_dict and list(impl["dict"]) == [k for k, _ in m["dict"]]))
        lossless = kind not in ("as produced", "keys reordered") or (impl["ok"] and impl["same"] and impl["dict"] == d)
        if not agrees or not lossless:
            res.disagreements.append(core.Disagreement(
                case={"transfer_record": pairs, "kind": kind}, impl=impl, model=m, spec=d, property_fails=not lossless,
                note="Violation.from_dict/to_dict differs from the transfer-format model (fromDict/toDict)"
                     + ("" if lossless else ": a worker's violation does not reach the parent unchanged")))


def run(tier: str, seed: int, st: core.ProofStatus) -> core.Result:
    res = core.Result()
    res.rule = ("seeded multi-language projects (2-40 files in 4 directories with repeated base names, planted per-file findings and "
                "cross-file duplicates; a third of the file lists name a file more than once) x worker counts 1..16 x forced completion orders through the real process pool, plus CLI "
                "sequential vs --parallel from a relative directory target or the explicit file list, with optional explicit --config; non-trivial = a pooled run (files >= "
                "2 x workers) with at least 3 violations; distinct = distinct (project, workers, order)")
    rng = core.sub_rng(seed, PROP, tier)
    n_cases = 36 if tier == "quick" else 400
    cases = [gen_case(rng, i, tier) for i in range(n_cases)]
    root = core.scratch_dir("c07")
    try:
        with cf.ProcessPoolExecutor(max_workers=4) as ex:
            impls = list(ex.map(impl_case, [(c["idx"], c["files"], c["runs"], c["cli"], str(root)) for c in cases]))
    finally:
        shutil.rmtree(root, ignore_errors=True)
    drv = core.Driver()
    cpu = os.cpu_count() or 1
    for c, im in zip(cases, impls):
        small = {"files": [rel for rel, _ in c["files"]], "cli": c["cli"]}
        if im["errors"]:
            res.evaluations += 1
            res.disagreements.append(core.Disagreement(case={**small, "project": c["files"]}, impl=im["errors"], model=None, spec=None,
                                                       property_fails=True, note="implementation raised: " + im["errors"][0][:500]))
            continue
        if not im["loop_is_union"]:
            res.disagreements.append(core.Disagreement(case={**small, "project": c["files"]}, impl=im["seq"][:5], model=None, spec=None, property_fails=False,
                                                       note="sequential lint_files is not per-file results in file order followed by finalize output (model: lintLoop)"))
        for (k, order), par in zip(c["runs"], im["par"]):
            res.evaluations += 1
            m = drv.call({"prop": PROP, "perfile": im["perfile"], "finEmpty": im["finEmpty"], "finAll": im["finAll"],
                          "done": order, "maxWorkers": k, "cpu": cpu})
            res.bump("workers", k)
            res.bump("files", len(c["files"]))
            res.bump("pooled", m["pooled"])
            res.bump("file list", "with repeated entries" if c["cli"].get("repeat") else "distinct files")
            if m["pooled"] and len(par) >= 3:
                res.nontrivial.add(core.canon([small["files"], k, order]))
            spec_ok = sorted(par) == sorted(im["seq"])
            if par != m["parallel"] and sorted(par) == sorted(m["parallel"]):
                res.bump("order of findings", "same findings, listed in another order than the model")
            if sorted(par) != sorted(m["parallel"]):
                res.disagreements.append(core.Disagreement(
                    case={**small, "project": c["files"], "workers": k, "done": order}, impl=par[:20], model=m["parallel"][:20], spec=sorted(im["seq"])[:20],
                    property_fails=not spec_ok,
                    note=f"lint_files_parallel(max_workers={k}) with forced completion order differs from the model "
                         f"(impl {len(par)} violations, model {len(m['parallel'])}, sequential {len(im['seq'])})"))
            elif m["explain"]:
                for fid in m["explain"]:
                    res.findings.setdefault(fid, {"files": small["files"], "workers": k, "sequential_only": [t for t in im["seq"] if t not in par][:3],
                                                  "project": c["files"]})
            if len(res.samples) < 2 and m["pooled"]:
                res.samples.append({"files": small["files"], "workers": k, "completion_order": order, "violations": len(par),
                                    "sequential": len(im["seq"]), "cross_file_findings": len(im["finAll"])})
        # CLI
        for cli in im["cli"]:
            res.evaluations += 1
            res.bump("cli_cmd", cli["cmd"])
            res.bump("cli_target", "explicit file list" + (" with repeats" if c["cli"].get("repeat") else "") if c["cli"]["target"] == "FILES" else "directory")
            res.bump("cli_config", "none" if cli["config_file"] is None else ("empty" if cli["config_file"].startswith("#") else "settings"))
            s, p = cli["seq"], cli["par"]
            ccase = {**small, "project": c["files"], "cli": {"runs": [[cli["cmd"], cli["config_file"]]], "target": c["cli"]["target"], "project_cfg": c["cli"]["project_cfg"]}}
            if s["vs"] is None or p["vs"] is None:
                if s["exit"] != p["exit"]:
                    res.disagreements.append(core.Disagreement(case=ccase, impl=cli, model=None, spec=None, property_fails=True,
                                                               note=f"CLI exit codes differ: sequential {s['exit']} parallel {p['exit']}"))
            elif s["vs"] != p["vs"] or s["exit"] != p["exit"]:
                only_s = [v for v in s["vs"] if v not in p["vs"]]
                only_p = [v for v in p["vs"] if v not in s["vs"]]
                crossfile = all(json.loads(v)["rule_id"].startswith(("dry.", "stringly-typed")) for v in only_s) and not only_p
                if crossfile:
                    res.findings.setdefault("F07a", {"files": small["files"], "cli": ccase["cli"], "sequential_only": only_s[:3], "project": c["files"]})
                else:
                    res.disagreements.append(core.Disagreement(
                        case=ccase, impl={"sequential_only": only_s[:5], "parallel_only": only_p[:5], "exit": [s["exit"], p["exit"]]},
                        model=None, spec=None, property_fails=True,
                        note=f"`thailint {cli['cmd']}` (config file: {cli['config_file']!r}) sequential vs --parallel differ: {len(only_s)} only sequential, "
                             f"{len(only_p)} only parallel, exits {s['exit']}/{p['exit']}"))
    transfer_probe(rng, drv, res, 120 if tier == "quick" else 3000)
    drv.close()
    res.assumptions += ["completion orders are forced after all futures finished; interleavings inside the pool are the OS's"]
    return res


def replay(path: str, st: core.ProofStatus) -> int:
    data = json.loads(Path(path).read_text())
    case = data.get("case") or data.get("witness")
    if case and "transfer_record" in case:
        from src.core.types import Violation
        pairs = case["transfer_record"]
        try:
            back = Violation.from_dict(dict(pairs)).to_dict()
        except (KeyError, ValueError) as exc:
            back = type(exc).__name__
        print(json.dumps({"record": pairs, "after_from_dict_to_dict": back}))
        if case.get("kind") in ("as produced", "keys reordered") and back != dict(pairs):
            print(f"VIOLATION property={PROP} replay={path}")
            return 1
        return 0
    if not case or "project" not in case:
        print("replay file names a proof obligation only:", json.dumps(data.get("no_longer_checks")))
        return 1
    files = [tuple(x) for x in case["project"]]
    n = len(files)
    runs = [(case.get("workers", max(1, n // 2)), case.get("done", list(range(n))))]
    cli = case.get("cli") or {"runs": [["dry", None]], "target": ".", "project_cfg": DEFAULT_CFG}
    root = core.scratch_dir("c07r")
    with cf.ProcessPoolExecutor(max_workers=1) as ex:
        im = list(ex.map(impl_case, [(0, files, runs, cli, str(root))]))[0]
    shutil.rmtree(root, ignore_errors=True)
    same_api = sorted(im["par"][0]) == sorted(im["seq"]) if im.get("par") else None
    s, p = im["cli"][0]["seq"], im["cli"][0]["par"]
    print(json.dumps({"api_parallel_equals_sequential": same_api, "sequential": len(im.get("seq", [])), "parallel": len(im["par"][0]) if im.get("par") else None,
                      "cli_equal": s["vs"] == p["vs"] and s["exit"] == p["exit"], "cli_exit": [s["exit"], p["exit"]]}))
    if same_api is False or s["vs"] != p["vs"] or s["exit"] != p["exit"]:
        print(f"VIOLATION property={PROP} replay={path}")
        return 1
    return 0
