"""C08 — results depend only on current contents and config: histories on one long-lived Linter object
(lint calls interleaved with edits, deletions, creations) against fresh objects and the Lean history
model; permutations of the file list; PYTHONHASHSEED values; side-effect watch on the project
directory and the temp directory for sequential / parallel runs and both DRY storage modes."""
from __future__ import annotations

import hashlib
import json
import os
import shutil
from pathlib import Path

from .. import core
from ..gen_project import DEFAULT_CFG, gen_project, lang_cfg, py_file, ts_file, write_project

PROP = "C08"
LEVEL_NOTE = ("theorems quantify over all histories / permutations of the orchestrator model with rule plug-ins as parameters; "
              "interpreter hash seeds, SQLite temp files and the real file system are observed, not modelled")


def tok(v) -> str:
    return json.dumps(v.to_dict(), sort_keys=True)


def snapshot(d: Path) -> dict:
    out = {}
    for root, dirs, files in os.walk(d):
        for n in files:
            p = Path(root) / n
            try:
                st = p.stat()
                out[str(p.relative_to(d))] = [st.st_size, st.st_mtime_ns, hashlib.sha1(p.read_bytes()).hexdigest()]
            except OSError:
                out[str(p.relative_to(d))] = "unreadable"
        for n in dirs:
            out[str((Path(root) / n).relative_to(d)) + "/"] = "dir"
    return out


def history_case(args) -> dict:
    """one long-lived Linter; every lint step is compared with a fresh object and fed to the model"""
    idx, seed, root = args
    import random
    rng = random.Random(seed)
    from src.api import Linter
    from src.orchestrator.core import Orchestrator
    collect_files = core.discovery_order
    proj = Path(root) / f"h{idx}" / "proj"
    out = {"errors": [], "steps": [], "ops": [], "perfile": {}, "fin": {}, "fs0": []}
    try:
        files = gen_project(rng, rng.choice([3, 4, 6, 8]), dup_share=0.6)
        write_project(proj, files, DEFAULT_CFG + lang_cfg(rng))
        paths = [rel for rel, _ in files]
        version = {rel: 0 for rel in paths}          # content version per path (None = deleted)
        nextver = 1
        pid = {rel: i for i, rel in enumerate(paths)}
        out["fs0"] = [[pid[r], 0] for r in paths]
        core._reset_singletons()
        linter = Linter(project_root=proj)

        def fresh_tables(targets: list[str]):
            """per-file tokens and finalize tokens of a fresh run over the given present files (in that order)"""
            core._reset_singletons()
            fl = [proj / t for t in targets]
            full = [tok(v) for v in Orchestrator(project_root=proj).lint_files(fl)]
            flat = []
            for t in targets:
                core._reset_singletons()
                pf = [tok(v) for v in Orchestrator(project_root=proj).lint_file(proj / t)]
                out["perfile"][f"{pid[t]}:{version[t]}"] = pf
                flat += pf
            out["fin"][",".join(sorted(f"{pid[t]}:{version[t]}" for t in targets))] = full[len(flat):]
            return full, full[:len(flat)] == flat

        for _ in range(rng.choice([4, 6, 8, 10])):
            r = rng.random()
            live = [p for p in paths if version[p] is not None]
            if r < 0.45 or not out["ops"]:
                if rng.random() < 0.5 or not live:
                    # directory lint: files in discovery order
                    order = [str(f.relative_to(proj)) for f in collect_files(proj, True) if str(f.relative_to(proj)) in pid and version.get(str(f.relative_to(proj))) is not None]
                    target = proj
                else:
                    order = [rng.choice(live)]
                    target = proj / order[0]
                got = [tok(v) for v in linter.lint(target)]
                fresh, union_ok = fresh_tables(order)
                core._reset_singletons()
                fresh_api = [tok(v) for v in Linter(project_root=proj).lint(target)]
                out["ops"].append({"op": "lintFiles", "ps": [pid[o] for o in order]})
                out["steps"].append({"target": str(target.relative_to(proj)) or ".", "long_lived": got, "fresh": fresh_api, "fresh_orch": fresh, "union_ok": union_ok})
            elif r < 0.7 and live:
                p = rng.choice(live)
                lang = p.rsplit(".", 1)[1] if "." in p.rsplit("/", 1)[-1] else ""
                dup = rng.choice([None, 0, 1])
                if lang in ("py", "ts", "rs") and rng.random() < 0.35:
                    # same code, suppression comments toggled on every line: what is reported for this file (by per-file and by
                    # cross-file rules) must follow the text that is on disk now
                    old = (proj / p).read_text()
                    mark = ("  # " if lang == "py" else "  // ") + "thailint: ignore"
                    if "thailint: ignore" in old:
                        text = old.replace("  # thailint: ignore", "").replace("  // thailint: ignore", "")
                    else:
                        text = "\n".join(ln + mark if ln.strip() and not ln.strip().startswith(("#", "//")) else ln for ln in old.split("\n"))
                elif lang == "":
                    old = (proj / p).read_text()
                    if rng.random() < 0.6:
                        # an extension-less file is a script of whatever its first line says - now: a python script becomes a shell
                        # script with the same body, anything else becomes a python script
                        first, _, rest = old.partition("\n")
                        text = ("#!/bin/sh\n" + rest) if (first.startswith("#!") and "python" in first) else ("#!/usr/bin/env python3\n" + py_file(rng, 900 + nextver, dup))
                    else:
                        text = (old.split("\n")[0] + "\n" + py_file(rng, 900 + nextver, dup)) if old.startswith("#!") else old + f"line {nextver}\n"
                elif lang == "py":
                    text = py_file(rng, 900 + nextver, dup)
                elif lang == "ts":
                    text = ts_file(rng, 900 + nextver, dup)
                else:
                    text = (proj / p).read_text() + f"\nfn extra_{nextver}() -> i32 {{ {rng.randint(100, 999)} }}\n"
                (proj / p).write_text(text)
                version[p] = nextver
                out["ops"].append({"op": "write", "p": pid[p], "c": nextver})
                nextver += 1
            elif r < 0.85 and len(live) > 1:
                p = rng.choice(live)
                (proj / p).unlink()
                version[p] = None
                out["ops"].append({"op": "delete", "p": pid[p]})
            else:
                gone = [p for p in paths if version[p] is None]
                if gone:
                    p = rng.choice(gone)
                else:
                    p = f"new_{nextver}.py"
                    paths.append(p)
                    pid[p] = len(pid)
                (proj / p).parent.mkdir(parents=True, exist_ok=True)
                (proj / p).write_text(py_file(rng, 700 + nextver, rng.choice([None, 0])))
                version[p] = nextver
                out["ops"].append({"op": "write", "p": pid[p], "c": nextver})
                nextver += 1
        # F08b probe on a fresh Orchestrator: lint_file(a) then lint_files([b])
        live = [p for p in paths if version[p] is not None and p.endswith((".py", ".ts"))]
        if len(live) >= 2:
            a, b = live[0], live[1]
            core._reset_singletons()
            o = Orchestrator(project_root=proj)
            o.lint_file(proj / a)
            leak = [tok(v) for v in o.lint_files([proj / b])]
            core._reset_singletons()
            alone = [tok(v) for v in Orchestrator(project_root=proj).lint_files([proj / b])]
            fresh_tables([a, b])
            fresh_tables([b])
            out["leak"] = {"a": pid[a], "b": pid[b], "va": version[a], "vb": version[b], "impl": leak, "fresh_alone": alone}
        # a script without extension is whatever its first line says *now*: shell -> python -> shell on the long-lived object,
        # each state compared with a fresh object
        tool = proj / "bin_tool"
        body = py_file(rng, 990, None)
        out["shebang"] = []
        for first in ("#!/bin/sh", "#!/usr/bin/env python3", "#!/bin/bash", "#!/usr/bin/python"):
            tool.write_text(first + "\n" + body)
            used = sorted(tok(v) for v in linter.lint(tool))
            core._reset_singletons()
            fresh_one = sorted(tok(v) for v in Linter(project_root=proj).lint(tool))
            out["shebang"].append({"first": first, "used": used, "fresh": fresh_one})
        tool.unlink()
        # suppression comments of the cross-file rules come and go with the text: a duplicated block under `# dry: ignore-block`,
        # the comment removed, then put back (a directory without any module-level constant, linted on its own)
        probe = proj / "probe_dir"
        probe.mkdir()
        blk = ["    total = compute_total(items)", "    average = total / max(len(items), 1)", "    report = build_report(total, average)", "    publish(report, channel)",
               "    archive(report, storage)", "    notify_owner(report)"]
        (probe / "p2.py").write_text("def second(items, channel, storage):\n" + "\n".join(blk) + "\n    return None\n")
        out["dryprobe"] = []
        for label, directive in (("suppressed", ["    # dry: ignore-block"]), ("comment removed", []), ("suppressed again", ["    # dry: ignore-next"]), ("removed again", [])):
            (probe / "p1.py").write_text("def first(items, channel, storage):\n" + "\n".join(directive + blk) + "\n    return None\n")
            used = sorted(tok(v) for v in linter.lint(probe))
            core._reset_singletons()
            fresh_one = sorted(tok(v) for v in Linter(project_root=proj).lint(probe))
            out["dryprobe"].append({"label": label, "used": used, "fresh": fresh_one})
        shutil.rmtree(probe)
    except Exception as exc:  # noqa: BLE001
        import traceback
        out["errors"].append(f"{type(exc).__name__}: {exc} {traceback.format_exc()[-500:]}")
    finally:
        shutil.rmtree(Path(root) / f"h{idx}", ignore_errors=True)
    return out


def perm_case(args) -> dict:
    idx, seed, root = args
    import random
    rng = random.Random(seed)
    from src.orchestrator.core import Orchestrator
    proj = Path(root) / f"m{idx}" / "proj"
    out = {"errors": []}
    try:
        files = gen_project(rng, rng.choice([4, 7, 10]), dup_share=0.6)
        write_project(proj, files, DEFAULT_CFG + lang_cfg(rng))
        fs = [proj / rel for rel, _ in files]
        core._reset_singletons()
        base = sorted(tok(v) for v in Orchestrator(project_root=proj).lint_files(list(fs)))
        outs = []
        for _ in range(3):
            perm = list(fs)
            rng.shuffle(perm)
            core._reset_singletons()
            outs.append(sorted(tok(v) for v in Orchestrator(project_root=proj).lint_files(perm)))
        out.update(base=base, perms=outs, n=len(fs))
    except Exception as exc:  # noqa: BLE001
        out["errors"].append(f"{type(exc).__name__}: {exc}")
    finally:
        shutil.rmtree(Path(root) / f"m{idx}", ignore_errors=True)
    return out


def subprocess_case(args) -> dict:
    """hash seeds + side effects, through real subprocess CLI runs with a private TMPDIR"""
    idx, seed, root = args
    import random
    rng = random.Random(seed)
    base = Path(root) / f"s{idx}"
    proj = base / "proj"
    tmp = base / "tmp"
    out = {"errors": [], "runs": []}
    try:
        files = gen_project(rng, rng.choice([6, 18]), dup_share=0.6)
        storage = rng.choice(["memory", "tempfile"])
        write_project(proj, files, DEFAULT_CFG.replace("dry:\n", f"dry:\n  storage_mode: {storage}\n"))
        tmp.mkdir(parents=True)
        cmds = [["dry"], ["dry", "--parallel"], ["magic-numbers"], ["nesting", "--parallel"], ["stringly-typed"], ["srp"]]
        rng.shuffle(cmds)
        for cmd in cmds[:3]:
            results = []
            for hs in ("0", "1", str(rng.randint(2, 10_000))):
                before = snapshot(proj)
                code, so, se = core.run_cli_subprocess(cmd + ["--format", "json", "."], cwd=proj,
                                                       env={"PYTHONHASHSEED": hs, "TMPDIR": str(tmp), "THAILINT_VERIF": ""})
                after = snapshot(proj)
                left = sorted(os.listdir(tmp))
                vs = core.violations_json(so)
                results.append({"seed": hs, "exit": code, "vs": None if vs is None else sorted(json.dumps(v, sort_keys=True) for v in vs),
                                "project_changed": sorted(set(before.items()) ^ set(after.items()), key=str)[:6] if before != after else [],
                                "tmp_left": left, "stderr": se[-200:] if vs is None else ""})
                for n in left:
                    p = tmp / n
                    shutil.rmtree(p, ignore_errors=True) if p.is_dir() else p.unlink()
            out["runs"].append({"cmd": cmd, "storage": storage, "results": results})
    except Exception as exc:  # noqa: BLE001
        out["errors"].append(f"{type(exc).__name__}: {exc}")
    finally:
        shutil.rmtree(base, ignore_errors=True)
    return out


def config_history_case(args):
    """(iv) the configuration is part of the current state too: in ONE process the same project root is linted with a
    sequence of configurations (top-level ignore list and a threshold changing between runs, each run with a new
    Orchestrator as the CLI/API create them); every run must equal a run whose process-wide caches were dropped first"""
    import random
    idx, seed, root = args
    rng = random.Random(seed)
    from src.orchestrator.core import Orchestrator
    proj = Path(root) / f"cfg{idx}"
    out = {"errors": [], "steps": []}
    try:
        files = gen_project(rng, rng.randint(3, 6), dirs=("", "legacy", "pkg"))
        write_project(proj, files, DEFAULT_CFG)
        (proj / ".git").mkdir(exist_ok=True)
        rels = [rel for rel, _t in files]
        core._reset_singletons()
        for step in range(rng.randint(3, 5)):
            ignore = rng.sample(rels, rng.randint(0, 2)) + (["legacy/*"] if rng.random() < 0.3 else [])
            depth = rng.choice([2, 3, 4, 6])
            # the list is carried by the configuration file or by a .thailintignore file (which is edited, created and removed
            # between the runs like any other file)
            in_file = rng.random() < 0.4
            cfg = DEFAULT_CFG + f"nesting:\n  max_nesting_depth: {depth}\n" + ("ignore:\n" + "".join(f'  - "{p_}"\n' for p_ in ignore) if (ignore and not in_file) else "")
            (proj / ".thailint.yaml").write_text(cfg)
            if in_file:
                (proj / ".thailintignore").write_text("".join(p_ + "\n" for p_ in ignore))
            else:
                (proj / ".thailintignore").unlink(missing_ok=True)
            long_lived = sorted(tok(v) for v in Orchestrator(project_root=proj).lint_directory(proj))
            core._reset_singletons()
            fresh = sorted(tok(v) for v in Orchestrator(project_root=proj).lint_directory(proj))
            # leave the caches as a long-lived process would have them after the *first* of the two runs: run it again without reset
            core._reset_singletons()
            Orchestrator(project_root=proj).lint_directory(proj)
            out["steps"].append({"ignore": ignore, "in_file": in_file, "depth": depth, "same": long_lived == fresh, "n_long": len(long_lived), "n_fresh": len(fresh),
                                 "extra": [x[:160] for x in long_lived if x not in fresh][:2], "missing": [x[:160] for x in fresh if x not in long_lived][:2]})
    except Exception as exc:  # noqa: BLE001
        out["errors"].append(f"{type(exc).__name__}: {exc}")
    finally:
        shutil.rmtree(proj, ignore_errors=True)
    return out


def language_threshold_probe(args):
    """fixed example (a test): a stringly-typed threshold that is overridden for one language, files of two languages, two orders"""
    (root,) = args
    from src.orchestrator.core import Orchestrator
    proj = Path(root) / "langprobe"
    out = {"errors": []}
    try:
        proj.mkdir(parents=True)
        (proj / ".git").mkdir()
        (proj / ".thailint.yaml").write_text("stringly-typed:\n  enabled: true\n  typescript:\n    max_values_for_enum: 2\n")
        body = "def mode_%s(kind):\n    if kind in (\"alpha\", \"beta\", \"gamma\"):\n        return 1\n    return 0\n"
        (proj / "a.py").write_text(body % "a")
        (proj / "b.py").write_text(body % "b")
        (proj / "c.ts").write_text("export function f(x: number): number {\n  return x;\n}\n")
        a, b, c = proj / "a.py", proj / "b.py", proj / "c.ts"
        for label, order in (("python first", [a, b, c]), ("typescript first", [c, a, b])):
            core._reset_singletons()  # noqa: SLF001
            out[label] = sorted(tok(v) for v in Orchestrator(project_root=proj).lint_files(order) if v.rule_id.startswith("stringly"))
    except Exception as exc:  # noqa: BLE001
        out["errors"].append(f"{type(exc).__name__}: {exc}")
    finally:
        shutil.rmtree(proj, ignore_errors=True)
    return out


def run(tier: str, seed: int, st: core.ProofStatus) -> core.Result:
    res = core.Result()
    res.rule = ("(i) seeded histories (4-10 steps: Linter.lint on the directory or a file, edits that add/remove duplicate blocks, "
                "deletions, re-creations) on ONE long-lived Linter, each lint step compared with a fresh Linter and with the Lean "
                "history model fed with fresh per-file/finalize tables; (ii) permutations of the file list; (iii) subprocess runs "
                "under 3 PYTHONHASHSEED values with project-directory and TMPDIR snapshots (sequential/parallel, DRY memory/tempfile); "
                "(iv) configuration histories: one process lints the same root under 3-5 successive configurations (ignore list, nesting limit) and "
                "every run must equal the run of a process whose caches were dropped. "
                "Non-trivial history = at least two lint steps whose outputs differ; distinct by op sequence")
    rng = core.sub_rng(seed, PROP, tier)
    nh, npm, nsp = (64, 16, 6) if tier == "quick" else (1200, 300, 60)
    root = core.scratch_dir("c08")
    try:
        hist = core.pmap(history_case, [(i, rng.randrange(1 << 30), str(root)) for i in range(nh)], procs=16)
        perms = core.pmap(perm_case, [(i, rng.randrange(1 << 30), str(root)) for i in range(npm)], procs=16)
        subs = core.pmap(subprocess_case, [(i, rng.randrange(1 << 30), str(root)) for i in range(nsp)], procs=8)
        langp = core.pmap(language_threshold_probe, [(str(root),)], procs=1)[0]
        cfgh = core.pmap(config_history_case, [(i, rng.randrange(1 << 30), str(root)) for i in range(max(8, nh // 4))], procs=16)
    finally:
        shutil.rmtree(root, ignore_errors=True)
    res.evaluations += 1
    if langp["errors"]:
        res.disagreements.append(core.Disagreement(case={"kind": "language-threshold example"}, impl=langp["errors"], model=None, spec=None, property_fails=False, note=langp["errors"][0][:300]))
    else:
        res.bump("language-threshold example", "orders agree" if langp["python first"] == langp["typescript first"] else "orders differ")
        if langp["python first"] != langp["typescript first"]:
            res.findings.setdefault("F08h", {"config": "stringly-typed: {typescript: {max_values_for_enum: 2}}", "files": ["a.py", "b.py", "c.ts"],
                                             "python_first": len(langp["python first"]), "typescript_first": len(langp["typescript first"])})
    for i, ch in enumerate(cfgh):
        res.evaluations += 1
        res.bump("config_history_steps", len(ch["steps"]))
        for s0 in ch["steps"]:
            res.bump("ignore list carried by", ".thailintignore" if s0.get("in_file") else "configuration file")
        if ch["errors"]:
            res.disagreements.append(core.Disagreement(case={"kind": "config-history", "index": i}, impl=ch["errors"], model=None, spec=None, property_fails=False, note=ch["errors"][0][:300]))
            continue
        bad = [(k, s_) for k, s_ in enumerate(ch["steps"]) if not s_["same"]]
        if bad:
            k, s_ = bad[0]
            res.disagreements.append(core.Disagreement(case={"kind": "config-history", "steps": [{"ignore": x["ignore"], "in_thailintignore": x.get("in_file"), "depth": x["depth"]} for x in ch["steps"][: k + 1]]},
                                                       impl={"long_lived": s_["n_long"], "extra": s_["extra"], "missing": s_["missing"]}, model=None, spec={"fresh": s_["n_fresh"]},
                                                       property_fails=True,
                                                       note=f"configuration step {k} (ignore {s_['ignore']}{' in .thailintignore' if s_.get('in_file') else ''}, max depth {s_['depth']}) in a process that linted the same root before: "
                                                            f"{s_['n_long']} violations, a fresh process reports {s_['n_fresh']}"))
    drv = core.Driver()
    for i, h in enumerate(hist):
        res.evaluations += 1
        case = {"kind": "history", "ops": h["ops"], "index": i}
        if h["errors"]:
            res.disagreements.append(core.Disagreement(case=case, impl=h["errors"], model=None, spec=None, property_fails=True, note=h["errors"][0][:600]))
            continue
        m = drv.call({"prop": PROP, "ops": h["ops"], "fs0": h["fs0"], "perfile": h["perfile"], "fin": h["fin"], "policyKeep": False})
        lint_outs = [o for o, op in zip(m["outputs"], h["ops"]) if op["op"] == "lintFiles"]
        distinct_outputs = {json.dumps(s["long_lived"]) for s in h["steps"]}
        if len(h["steps"]) >= 2 and len(distinct_outputs) >= 2:
            res.nontrivial.add(core.canon(h["ops"]))
        res.bump("history_len", len(h["ops"]))
        for op in h["ops"]:
            res.bump("op", op["op"])
        for k, (s, mo) in enumerate(zip(h["steps"], lint_outs)):
            problems, fails = [], False
            if s["long_lived"] != mo:
                problems.append(f"step {k} ({s['target']}): long-lived Linter returned {len(s['long_lived'])} violations, model {len(mo)}")
            if sorted(s["long_lived"]) != sorted(s["fresh"]):
                only_l = [t for t in s["long_lived"] if t not in s["fresh"]]
                only_f = [t for t in s["fresh"] if t not in s["long_lived"]]
                problems.append(f"step {k} ({s['target']}): used object differs from a fresh one: only-used {only_l[:2]} only-fresh {only_f[:2]}")
                fails = True
            if not s["union_ok"]:
                problems.append(f"step {k}: lint_files is not per-file results in order followed by finalize output")
            if problems:
                res.disagreements.append(core.Disagreement(case=case, impl=s["long_lived"][:10], model=mo[:10], spec=s["fresh"][:10], property_fails=fails,
                                                           note=" | ".join(problems)[:2000]))
                break
        for sb in h.get("shebang", []):
            res.evaluations += 1
            res.bump("shebang probe", sb["first"])
            if sb["used"] != sb["fresh"]:
                res.disagreements.append(core.Disagreement(case={"kind": "extension-less script rewritten", "first_line": sb["first"], "history": [x["first"] for x in h["shebang"]]},
                                                           impl=sb["used"][:6], model=None, spec=sb["fresh"][:6], property_fails=True,
                                                           note=f"a script without extension whose first line is now {sb['first']!r}: the used object reports {len(sb['used'])} findings, a fresh one {len(sb['fresh'])}"))
                break
        for dp in h.get("dryprobe", []):
            res.evaluations += 1
            res.bump("dry directive probe", dp["label"])
            if dp["used"] != dp["fresh"]:
                res.disagreements.append(core.Disagreement(case={"kind": "dry directive added / removed between calls", "state": dp["label"]}, impl=dp["used"][:6], model=None,
                                                           spec=dp["fresh"][:6], property_fails=True,
                                                           note=f"duplicated block, `# dry:` directive {dp['label']}: the used object reports {len(dp['used'])} findings, a fresh one {len(dp['fresh'])}"))
                break
        if "leak" in h:
            lk = h["leak"]
            ops = [{"op": "lintFile", "p": lk["a"]}, {"op": "lintFiles", "ps": [lk["b"]]}]
            mm = drv.call({"prop": PROP, "ops": ops, "fs0": [[lk["a"], lk["va"]], [lk["b"], lk["vb"]]], "perfile": h["perfile"], "fin": h["fin"], "policyKeep": False})
            res.evaluations += 1
            res.bump("leak_probes")
            if lk["impl"] != mm["outputs"][1]:
                res.disagreements.append(core.Disagreement(case={"kind": "lint_file-then-lint_files", **lk}, impl=lk["impl"][:6], model=mm["outputs"][1][:6], spec=lk["fresh_alone"][:6],
                                                           property_fails=sorted(lk["impl"]) != sorted(lk["fresh_alone"]),
                                                           note="Orchestrator.lint_file(a); lint_files([b]) differs from the model"))
            elif sorted(lk["impl"]) != sorted(lk["fresh_alone"]):
                res.findings.setdefault("F08b", {"history": "Orchestrator.lint_file(a); Orchestrator.lint_files([b])", "reported": [t for t in lk["impl"] if t not in lk["fresh_alone"]][:2]})
        if len(res.samples) < 2 and len(h["ops"]) >= 6:
            res.samples.append({"history": h["ops"], "violations_per_lint_step": [len(s["long_lived"]) for s in h["steps"]]})
    drv.close()
    for i, p in enumerate(perms):
        res.evaluations += 1
        if p["errors"]:
            res.disagreements.append(core.Disagreement(case={"kind": "perm", "index": i}, impl=p["errors"], model=None, spec=None, property_fails=True, note=p["errors"][0]))
            continue
        res.bump("perm_files", p["n"])
        for q in p["perms"]:
            if q != p["base"]:
                res.disagreements.append(core.Disagreement(case={"kind": "perm", "index": i}, impl=q[:6], model=None, spec=p["base"][:6], property_fails=True,
                                                           note=f"another order of the same {p['n']} files gives a different multiset: {[t for t in q if t not in p['base']][:2]} / {[t for t in p['base'] if t not in q][:2]}"))
                break
        if len(p["base"]) >= 3:
            res.nontrivial.add(core.canon(["perm", i, p["base"][:3]]))
    for i, s in enumerate(subs):
        if s["errors"]:
            res.disagreements.append(core.Disagreement(case={"kind": "subprocess", "index": i}, impl=s["errors"], model=None, spec=None, property_fails=True, note=s["errors"][0]))
            continue
        for r in s["runs"]:
            res.evaluations += len(r["results"])
            res.bump("subprocess_cmd", " ".join(r["cmd"]) + "/" + r["storage"])
            first = r["results"][0]
            for x in r["results"]:
                problems = []
                if x["vs"] is None:
                    problems.append(f"no JSON (exit {x['exit']}): {x['stderr']}")
                if x["vs"] != first["vs"] or x["exit"] != first["exit"]:
                    problems.append(f"PYTHONHASHSEED={x['seed']} gives different output than seed {first['seed']}")
                if x["project_changed"]:
                    problems.append(f"project directory changed by the run: {x['project_changed'][:3]}")
                if x["tmp_left"]:
                    problems.append(f"temporary files left behind: {x['tmp_left'][:3]}")
                if problems:
                    res.disagreements.append(core.Disagreement(case={"kind": "subprocess", "cmd": r["cmd"], "storage": r["storage"], "seed": x["seed"]}, impl=x, model=None, spec=None,
                                                               property_fails=True, note=" | ".join(problems)[:1500]))
                    break
    res.assumptions += ["hash()/PYTHONHASHSEED and SQLite are runtime: sampled through subprocess runs", "edits happen between calls, never during one"]
    return res


def replay(path: str, st: core.ProofStatus) -> int:
    data = json.loads(Path(path).read_text())
    print(json.dumps(data, indent=1)[:3000])
    print("histories are regenerated from the seed: re-run `VERIF_SEED=<seed> ./check C08` to reproduce")
    return 1
