"""C09 — results do not depend on how paths are spelled or where the project lives.
One project, copied under parent directories named after every built-in excluded directory, every
test-marker / default-ignore substring and neutral names; linted by absolute path, relative path, `.`
from inside, and from a different working directory; every linter command."""
from __future__ import annotations

import json
import os
import shutil
from pathlib import Path

from .. import core

PROP = "C09"
LEVEL_NOTE = ("theorems are about the path arithmetic of the exclusion / ignore / exemption sites (lists of components, substring "
              "tests); pathlib.resolve, os.walk and the working directory are observed through the CLI matrix")
DATA = core.VERIF / "harness" / "data"

CFG = ("ignore:\n  - \"lib/generated/\"\n  - \"src/gen_*.py\"\n"      # root-anchored repository ignore patterns
       # per-linter ignore lists that name the words used as parent directories: inside the project nothing matches them
       "magic-numbers:\n  ignore: [\"tests/\", \"test_data\", \"build/\", \"examples/\", \"fixtures\", \"dist/\", \"venv\"]\n"
       "method-property:\n  ignore: [\"tests/\", \"build/\", \"examples/\", \"fixtures\"]\n"
       "stateless-class:\n  ignore: [\"tests/\", \"build/\", \"examples/\", \"fixtures\"]\n"
       "print-statements:\n  ignore: [\"tests/\", \"build/\", \"examples/\", \"fixtures\"]\n"
       "pipeline:\n  ignore: [\"tests/\", \"build/\", \"examples/\", \"fixtures\"]\n"
       "file-header:\n  ignore: [\"tests/\", \"build/\", \"examples/\", \"fixtures\"]\n"
       "srp:\n  ignore: [\"tests/\", \"build/\", \"examples/\", \"fixtures\"]\n"
       "cqs:\n  ignore_patterns: [\"*/tests/*\", \"*/build/*\", \"*/examples/*\", \"*/fixtures/*\", \"lib/helpers/*\"]\n"
       # (lists that name directories of the project itself, from its root)
       "lazy-ignores:\n  ignore_patterns: [\"src/web/**\", \"lib/*\"]\n"
       "dry:\n  enabled: true\n  min_duplicate_lines: 4\n  ignore: [\"tests/\", \"build/\", \"examples/\", \"fixtures\"]\n"
       "file-placement:\n  directories:\n    src:\n      allow:\n        - \".*\\\\.py$\"\n    lib/helpers:\n      deny:\n        - pattern: \".*\\\\.ts$\"\n          reason: \"no ts here\"\n")


def project_files():
    py = (DATA / "trig.py.txt").read_text()
    ts = (DATA / "trig.ts.txt").read_text()
    rs = (DATA / "trig.rs.txt").read_text()
    dup = "def shared_%s(items, channel, storage):\n    total = compute_total(items)\n    average = total / max(len(items), 1)\n    report = build_report(total, average)\n    publish(report, channel)\n    archive(report, storage)\n    return None\n"
    # duplicated blocks that are suppressed by comments in the file (looked up again, by path, when the cross-file pass runs)
    blk1 = ["    conn = open_connection(host)", "    cursor = conn.cursor()", "    cursor.execute(query)", "    rows = cursor.fetchall()", "    conn.close()", "    audit(rows)"]
    blk2 = ["    first = load_first(source)", "    second = load_second(source)", "    merged = merge(first, second)", "    checked = validate(merged)", "    stored = persist(checked)", "    announce(stored)"]
    sup = {}
    for n, (d, tag) in enumerate((("src", "p"), ("lib", "q"))):
        sup[f"{d}/sup_block_{tag}.py"] = "\n".join([f"def fetch_{tag}(host, query):", "    # thailint: ignore-start dry"] + blk1 + ["    # thailint: ignore-end", "    return None", ""])
        sup[f"{d}/sup_dry_{tag}.py"] = "\n".join([f"def combine_{tag}(source):", "    # dry: ignore-block"] + blk2 + ["    return None", ""])
    # enough files for --parallel to use its process pool (2 x workers), each with one finding
    fill = {f"src/fill/f{i:02d}.py": f"def fill_{i}(a):\n    return a + {7100 + i}\n" for i in range(18)}
    ignored = {"lib/generated/g.py": "def generated(a):\n    return a + 9901\n", "src/gen_tables.py": "def table(a):\n    return a + 9902\n",
               "src/web/gen_not_ignored.py": "def kept(a):\n    return a + 9903\n"}
    lazy = {"src/lazy_a.py": "import os  # noqa\n", "src/web/lazy_b.py": "import sys  # noqa\n", "lib/lazy_c.py": "import json  # noqa\n"}
    # the same set of strings tested in two files (stringly-typed; its built-in ignore list names test directories), and a
    # function that both changes and answers (cqs)
    strs = {f"src/modes_{t}.py": f"def mode_{t}(kind):\n    if kind in (\"alpha\", \"beta\", \"gamma\"):\n        return 1\n    return 0\n" for t in ("one", "two")}
    cqs = {"lib/helpers/mixed.py": "def refresh(store, key):\n    value = store.load(key)\n    store.save(key, value)\n    return value\n",
           "src/mixed2.py": "def renew(store, key):\n    value = store.load(key)\n    store.save(key, value)\n    return value\n"}
    return {**sup, **fill, **ignored, **lazy, **strs, **cqs, "src/a.py": py + "\n\n" + dup % "a", "src/web/b.ts": ts, "src/core/c.rs": rs, "lib/d.py": "def g():\n    return 777\n\n\n" + dup % "d",
            "lib/helpers/e.ts": "function h() {\n  return 888;\n}\n", ".thailint.yaml": CFG}


def parents(tier):
    from src.orchestrator import core as oc
    excl = sorted(d for d in oc._HARDCODED_EXCLUDE_DIRS if "*" not in d) + ["pkg.egg-info"]  # noqa: SLF001
    # (a parent literally called .git / .svn / .hg would make its own parent the project root of the marker search: out of scope)
    excl = [d for d in excl if d not in (".git", ".svn", ".hg")]
    markers = ["tests", "test", "test_data", "a.test.b", "a.spec.b", "x_test.d", "examples", "benches", "__init__.py", "my tests", "fixtures"]
    neutral = ["neutral", "work space"]
    return neutral + excl + markers


def commands():
    from src.cli_main import cli
    # `lib:cqs`: the command-query rule has no command of its own; it is run through the library (src.api.Linter)
    return sorted(c for c in cli.commands if c not in ("config", "hello", "init-config")) + ["lib:cqs"]


def run_library(rule, proj, cwd, target):
    """the rule through src.api.Linter, from `cwd`, on the target as spelled; same shape as the CLI's JSON"""
    from src.api import Linter
    old = os.getcwd()
    os.chdir(cwd)
    try:
        core._reset_singletons()  # noqa: SLF001
        vs = Linter(project_root=proj).lint(target, rules=[rule])
        return [{"file_path": str(v.file_path), "rule_id": v.rule_id, "line": v.line, "column": v.column, "message": v.message} for v in vs]
    finally:
        os.chdir(old)


def norm(vs, proj: Path):
    out = []
    real = str(proj.resolve())
    for v in vs:
        fp = v["file_path"]
        ab = fp if os.path.isabs(fp) else None
        d = dict(v)
        d["message"] = d["message"].replace(real + "/", "").replace(str(proj) + "/", "")
        d["_spelled"] = fp
        out.append(d)
    return out


def impl_case(args) -> dict:
    idx, parent, cmds, root = args
    base = Path(root) / f"w{idx}" / parent
    proj = base / "proj"
    out = {"errors": [], "runs": []}
    try:
        for rel, text in project_files().items():
            p = proj / rel
            p.parent.mkdir(parents=True, exist_ok=True)
            p.write_text(text)
        (base / "link").symlink_to(proj, target_is_directory=True)      # the project reached through a symbolic link
        other = Path(root) / f"w{idx}" / "elsewhere"
        other.mkdir(parents=True, exist_ok=True)
        (other / ".thailintignore").write_text("src/\n*.py\nlib/\n")      # the cwd's own ignore file must not matter
        spellings = [("dot", proj, ".", [], []), ("abs", proj, str(proj), [], []), ("rel-from-parent", base, "proj", [], []),
                     ("abs-from-elsewhere", other, str(proj), [], []), ("rel-from-elsewhere", other, os.path.relpath(proj, other), [], []),
                     ("subdir-dotdot", proj / "src", "..", [], []),
                     ("dotdot-through-sibling", base, os.path.join("proj", "src", "..", "..", "proj"), [], []),
                     ("via-symlink", base, "link", [], []), ("via-symlink-abs", other, str(base / "link"), [], []),
                     ("dot-parallel", proj, ".", [], ["--parallel"]),
                     ("abs-parallel", proj, str(proj), [], ["--parallel"]), ("rel-from-parent-parallel", base, "proj", [], ["--parallel"]),
                     ("global-config-abs", proj, str(proj), ["--config", ".thailint.yaml"], []),
                     ("global-config-dot", proj, ".", ["--config", ".thailint.yaml"], [])]
        # the spellings themselves, and some that are only resolved (never linted): what the operating system makes of them
        extra = [(proj, "./"), (proj, "src/.."), (proj, "src/./../."), (proj / "src", "../src/.."), (base, "proj//"), (base, "./proj/src/../"),
                 (other, str(proj) + "/./src/.."), (proj / "src", "..//")]
        link = {"link": [x for x in str((base / "link").parent.resolve() / "link").split("/") if x], "target": [x for x in str(proj.resolve()).split("/") if x]}
        out["spellings"] = [{"cwd": str(Path(cwd).resolve()), "target": target, "real": os.path.realpath(os.path.join(cwd, target)), "links": [link]}
                            for cwd, target in [(c_, t_) for _l, c_, t_, _a, _b in spellings] + extra]
        for c in cmds:
            for label, cwd, target, pre, post in spellings:
                if post and c in ("file-placement",):
                    continue     # no --parallel option on this command
                if c.startswith("lib:"):
                    if pre or post:
                        continue
                    code, stdout, vs = 0, "", run_library(c[4:], proj, cwd, target)
                else:
                    code, stdout = core.run_cli(pre + [c, "--format", "json"] + post + [target], cwd=cwd)
                    vs = core.violations_json(stdout)
                if vs is None:
                    out["runs"].append({"cmd": c, "spelling": label, "exit": code, "vs": None, "raw": stdout[:200]})
                    continue
                canon = []
                for v in vs:
                    ab = Path(v["file_path"]) if os.path.isabs(v["file_path"]) else (cwd / v["file_path"])
                    if not ab.exists() and (proj / v["file_path"]).exists():
                        ab = proj / v["file_path"]      # some linters print the project-relative path whatever the cwd
                    try:
                        relp = str(ab.resolve().relative_to(proj.resolve()))
                    except ValueError:
                        relp = "<outside>" + v["file_path"]
                    msg = v["message"]
                    for pre in (str(proj.resolve()) + "/", str(proj) + "/"):
                        msg = msg.replace(pre, "")
                    # messages may quote the path as spelled relative to the cwd: normalise those too
                    for pfx in ({"rel-from-parent": "proj/", "rel-from-parent-parallel": "proj/", "rel-from-elsewhere": os.path.relpath(proj, other) + "/", "subdir-dotdot": "../",
                                 "dotdot-through-sibling": "proj/src/../../proj/", "via-symlink": "link/", "via-symlink-abs": str(base / "link") + "/"}.get(label),):
                        if pfx:
                            msg = msg.replace(pfx, "")
                    canon.append([relp, v["rule_id"], v["line"], v["column"], msg])
                out["runs"].append({"cmd": c, "spelling": label, "exit": code, "vs": sorted(canon)})
    except Exception as exc:  # noqa: BLE001
        import traceback
        out["errors"].append(f"{type(exc).__name__}: {exc} {traceback.format_exc()[-400:]}")
    finally:
        shutil.rmtree(Path(root) / f"w{idx}", ignore_errors=True)
    return out


def path_arithmetic(rng, n: int, res: core.Result):
    """direct tie of the modelled path functions to /repo's: same (root, file) pairs through both"""
    import src.core.linter_utils as lu
    import src.orchestrator.core as oc
    comps = ["src", "build", "dist", "tests", "test_data", "venv", "pkg", "a.b", "x.egg-info", "node_modules", "lib", "examples", "deep"]
    names = ["a.py", "b.ts", "m.pyc", "build", "c.rs", "test_x.py", "x.spec.ts"]
    markers = [".test.", ".spec.", "test_", "_test.", "/tests/", "/test/"]
    drv = core.Driver()
    reqs, metas = [], []
    for _ in range(n):
        above = ["", "vroot"] + [rng.choice(comps) for _ in range(rng.randint(0, 3))]
        q = [rng.choice(comps) for _ in range(rng.randint(0, 3))] + [rng.choice(names)]
        inside = rng.random() < 0.85
        root = above if inside else ["", "vroot", "elsewhere"]
        reqs.append({"prop": PROP, "above": above[1:], "inProject": q, "root": root[1:], "markers": markers})
        metas.append((above, q, root))
    outs = drv.batch(reqs)
    drv.close()

    class Ctx:
        def __init__(self, fp, root):
            self.file_path = Path(fp)
            self.metadata = {"_project_root": Path(root)}

    for (above, q, root), m in zip(metas, outs):
        res.evaluations += 1
        fp = "/" + "/".join(above[1:] + q)
        rp = "/" + "/".join(root[1:])
        problems = []
        fn = getattr(oc, "_directory_parts_in_project", None)
        if fn is not None:
            got = [c for c in fn(Path(fp), Path(rp)) if c != "/"]   # the model's absolute paths carry no anchor component
            if got != m["dirParts"]:
                problems.append(f"_directory_parts_in_project({fp}, {rp}) = {got}, model {m['dirParts']}")
        ex = getattr(oc, "_is_hardcoded_excluded", None)
        if ex is not None:
            try:
                got = bool(ex(Path(fp), Path(rp)))
                if got != m["hardExcluded"]:
                    problems.append(f"_is_hardcoded_excluded({fp}, {rp}) = {got}, model {m['hardExcluded']}")
            except TypeError:
                pass
        pip = getattr(lu, "path_in_project", None)
        if pip is not None:
            got = pip(Ctx(fp, rp))
            want = m["projectString"] if above == root else fp
            if got != want:
                problems.append(f"path_in_project({fp}, root={rp}) = {got!r}, model {want!r}")
        if problems:
            res.disagreements.append(core.Disagreement(case={"file": fp, "root": rp}, impl=None, model=m, spec=None, property_fails=False,
                                                       note=" | ".join(problems)))
        res.bump("path_arithmetic_inside_root", above == root)


def run(tier: str, seed: int, st: core.ProofStatus) -> core.Result:
    res = core.Result()
    res.rule = ("exhaustive: every built-in excluded directory name, every test-marker / default-ignore substring and neutral names as the "
                "parent directory of one multi-language project x 6 spellings (., absolute, relative from the parent, absolute and "
                "relative from another cwd, `..` from a sub-directory; three of them also with --parallel on a project large enough to be pooled) x every linter command (quick: seeded sample of 8 commands per "
                "parent); all outputs must equal the baseline (neutral parent, `.`) up to path spelling; non-trivial = a compared run with "
                ">= 1 violation")
    rng = core.sub_rng(seed, PROP, tier)
    cmds = commands()
    ps = parents(tier)
    root = core.scratch_dir("c09")
    work = []
    for i, p in enumerate(ps):
        cs = cmds if (tier == "thorough" or i == 0) else sorted(set(rng.sample(cmds, 6) + ["magic-numbers", "unwrap-abuse", "dry", "file-placement"]))
        work.append((i, p, cs, str(root)))
    try:
        impls = core.pmap(impl_case, work, procs=16)
    finally:
        shutil.rmtree(root, ignore_errors=True)
    # every spelling resolves, in the Lean model, to the path the operating system resolves it to
    drv_sp = core.Driver()
    for im in impls:
        for sp in im.get("spellings", []):
            res.evaluations += 1
            segs = sp["target"].split("/")
            m = drv_sp.call({"prop": PROP, "op": "resolve", "cwd": [x for x in sp["cwd"].split("/") if x], "absolute": sp["target"].startswith("/"), "segs": segs,
                             "links": sp.get("links", [])})
            want = [x for x in sp["real"].split("/") if x]
            res.bump("spelling_resolution", "checked")
            if m["resolved"] != want:
                res.disagreements.append(core.Disagreement(case=sp, impl=want, model=m["resolved"], spec=None, property_fails=False,
                                                           note=f"spelling {sp['target']!r} from {sp['cwd']!r}: the model resolves it to {'/'.join(m['resolved'])}, the system to {sp['real']}"))
    drv_sp.close()
    base = {(r["cmd"]): r for r in impls[0]["runs"] if r["spelling"] == "dot"}
    # (the project is large enough for --parallel to use its process pool; since fix b158f57 the pooled run reports what the
    #  sequential one reports, so every spelling - parallel or not - is compared with the one sequential baseline)
    for (i, p, cs, _), im in zip(work, impls):
        if im["errors"]:
            res.evaluations += 1
            res.disagreements.append(core.Disagreement(case={"parent": p}, impl=im["errors"], model=None, spec=None, property_fails=True, note=im["errors"][0][:600]))
            continue
        for r in im["runs"]:
            res.evaluations += 1
            res.bump("spelling", r["spelling"])
            b = base[r["cmd"]]
            if r["vs"]:
                res.nontrivial.add(core.canon([p, r["cmd"], r["spelling"]]))
            if r["vs"] != b["vs"] or r["exit"] != b["exit"]:
                missing = [v for v in (b["vs"] or []) if v not in (r["vs"] or [])]
                extra = [v for v in (r["vs"] or []) if v not in (b["vs"] or [])]
                res.disagreements.append(core.Disagreement(
                    case={"parent": p, "cmd": r["cmd"], "spelling": r["spelling"]}, impl={"exit": r["exit"], "n": len(r["vs"] or []), "raw": r.get("raw", "")},
                    model=None, spec={"exit": b["exit"], "n": len(b["vs"] or [])}, property_fails=True,
                    note=f"`thailint {r['cmd']}` under parent directory {p!r} spelled {r['spelling']}: {len(r['vs'] or [])} violations (exit {r['exit']}), "
                         f"baseline {len(b['vs'] or [])} (exit {b['exit']}); missing {missing[:2]} extra {extra[:2]}"))
        if len(res.samples) < 2:
            res.samples.append({"parent": p, "commands": cs[:5], "violations_dot": {r["cmd"]: len(r["vs"] or []) for r in im["runs"] if r["spelling"] == "dot"}})
    path_arithmetic(rng, 300 if tier == "quick" else 5000, res)
    res.exhaustive = tier == "thorough"
    return res


def replay(path: str, st: core.ProofStatus) -> int:
    data = json.loads(Path(path).read_text())
    print(json.dumps(data, indent=1)[:2500])
    print("re-run `./check C09` to re-evaluate this matrix cell")
    return 1
