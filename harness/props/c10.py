"""C10 — directory / file-list / CLI / library runs agree.  Generated multi-language trees; subsets of
files as explicit arguments; mixed file + directory arguments; every linter command against
`Linter.lint(target, rules=[<linter>])`."""
from __future__ import annotations

import json
import os
import shutil
from pathlib import Path

from .. import core
from ..gen_project import DEFAULT_CFG, LANG_CFGS, gen_project, write_project

PROP = "C10"
LEVEL_NOTE = ("theorems hold for every rule plug-in (parameters of the orchestrator model); the real rules' hidden state is "
              "sampled by comparing directory runs with per-file runs in fresh objects")
API_CMDS = [("nesting", "nesting"), ("srp", "srp"), ("magic-numbers", "magic-numbers"), ("dry", "dry"),
            ("print-statements", "improper-logging"), ("unwrap-abuse", "unwrap-abuse"), ("stringly-typed", "stringly-typed"),
            ("method-property", "method-property"), ("lbyl", "lbyl"), ("perf", "performance"), ("pipeline", "collection-pipeline"),
            ("file-header", "file-header")]


PROJ = [None]


def tok(v) -> str:
    d = v.to_dict() if hasattr(v, "to_dict") else dict(v)
    return norm_cli(d, PROJ[0])


def _rel(s: str, proj: Path) -> str:
    return s.replace(str(proj) + "/", "").replace(str(proj.resolve()) + "/", "")


def norm_cli(v: dict, proj: Path) -> str:
    """CLI JSON violation -> canonical token (project-relative path spelling everywhere, severity spelling)"""
    d = dict(v)
    d["file_path"] = _rel(d["file_path"], proj)
    d["message"] = _rel(d["message"], proj)
    d["severity"] = str(d.get("severity", "")).lower()
    d.pop("suggestion", None)     # the CLI's JSON rendering does not print suggestions (renderings are C06's subject)
    return json.dumps(d, sort_keys=True)


def norm_api(v, proj: Path) -> str:
    return norm_cli(v.to_dict(), proj)


def impl_case(args) -> dict:
    idx, seed, root = args
    import random
    rng = random.Random(seed)
    from src.api import Linter
    from src.orchestrator.core import Orchestrator
    collect_files = core.discovery_order
    proj = Path(root) / f"t{idx}" / "proj"
    out = {"errors": []}
    PROJ[0] = proj
    try:
        files = gen_project(rng, rng.choice([4, 6, 8, 10]), dup_share=0.5)
        # the project's configuration changes what per-file rules report, so that a run which loses it is visible
        cfg0 = DEFAULT_CFG + rng.choice(["", "nesting:\n  max_nesting_depth: 2\nmagic-numbers:\n  allowed_numbers: [0, 1]\n  max_small_integer: 1\n"] + LANG_CFGS[1:])
        write_project(proj, files, cfg0)
        # root markers: the project root is where the highest-priority marker is (.git, then .thailint.yaml/.json, then
        # pyproject.toml), not the nearest directory with any marker - a sub-package with its own pyproject.toml is not a root
        layout = rng.choice(["plain", "git", "nested-pyproject", "git+nested-pyproject", "git+nested-pyproject"])
        if "git" in layout:
            (proj / ".git").mkdir()
        if "nested-pyproject" in layout:
            for d in sorted({r.split("/")[0] for r, _ in files if "/" in r})[: rng.choice([1, 2])]:
                (proj / d / "pyproject.toml").write_text('[project]\nname = "sub-package"\nversion = "0.1"\n')
        out["layout"] = layout
        rels = [rel for rel, _ in files]
        fid = {r: i for i, r in enumerate(rels)}
        order = [str(f.relative_to(proj)) for f in collect_files(proj, True)]
        order = [o for o in order if o in fid]
        perfile, fin = {}, {}

        def fresh(targets):
            core._reset_singletons()
            full = [tok(v) for v in Orchestrator(project_root=proj).lint_files([proj / t for t in targets])]
            flat = []
            for t in targets:
                if str(fid[t]) not in perfile:
                    core._reset_singletons()
                    perfile[str(fid[t])] = [tok(v) for v in Orchestrator(project_root=proj).lint_file(proj / t)]
                flat += perfile[str(fid[t])]
            fin[",".join(str(x) for x in sorted(fid[t] for t in targets))] = full[len(flat):]
            return full, full[:len(flat)] == flat

        # directory run vs the model on fresh tables
        core._reset_singletons()
        dir_run = [tok(v) for v in Orchestrator(project_root=proj).lint_directory(proj)]
        full, union_ok = fresh(order)
        out["dir"] = {"order": [fid[o] for o in order], "impl": dir_run, "union_ok": union_ok}
        # subsets as explicit file arguments (API level)
        subs = []
        for _ in range(3):
            sub = rng.sample(rels, rng.randint(1, min(6, len(rels))))
            core._reset_singletons()
            got = [tok(v) for v in Orchestrator(project_root=proj).lint_files([proj / s for s in sub])]
            fresh(sub)
            subs.append({"files": [fid[s] for s in sub], "impl": got})
        out["subsets"] = subs
        # mixed CLI arguments: files + directories in one invocation
        dirs = sorted({r.split("/")[0] for r in rels if "/" in r})
        mixed = []
        for _ in range(2):
            fa = rng.sample(rels, rng.randint(0, 3))
            da = rng.sample(dirs, rng.randint(1, min(2, len(dirs)))) if dirs else []
            if not da:
                continue
            cmd = rng.choice(["dry", "magic-numbers", "nesting", "stringly-typed"])
            recursive = rng.random() < 0.6
            code, stdout = core.run_cli([cmd, "--format", "json"] + ([] if recursive else ["--no-recursive"]) + fa + da, cwd=proj)
            vs = core.violations_json(stdout)
            dcont = []
            for d in da:
                dcont.append([fid[str(f.relative_to(proj))] for f in collect_files(proj / d, recursive) if str(f.relative_to(proj)) in fid])
            merged = list(dict.fromkeys([fid[f] for f in fa] + [x for dc in dcont for x in dc]))
            fresh([rels[i] for i in merged])
            if fa and len(fa) > 0:
                fresh(fa)
            for dc in dcont:
                fresh([rels[i] for i in dc])
            mixed.append({"cmd": cmd, "files": [fid[f] for f in fa], "dirs": dcont, "exit": code, "recursive": recursive,
                          "impl": None if vs is None else sorted(norm_cli(v, proj) for v in vs), "raw": stdout[:200] if vs is None else ""})
        out["mixed"] = mixed
        # API vs CLI per linter, file and directory targets
        api = []
        targets = [".", rng.choice(rels)] + ([rng.choice(dirs)] if dirs else [])
        for cmd, linter_name in rng.sample(API_CMDS, 5):
            for t in targets:
                code, stdout = core.run_cli([cmd, "--format", "json", t], cwd=proj)
                vs = core.violations_json(stdout)
                core._reset_singletons()
                got = Linter(project_root=proj).lint(proj / t if t != "." else proj, rules=[linter_name])
                api.append({"cmd": cmd, "target": t, "exit": code, "cli": None if vs is None else sorted(norm_cli(v, proj) for v in vs),
                            "api": sorted(norm_api(v, proj) for v in got)})
        # explicit config file (sometimes empty) next to a project config that matters
        (proj / "alt-config.yaml").write_text(rng.choice(["# stock defaults\n", "nesting:\n  max_nesting_depth: 2\n", "{}\n"]))
        (proj / ".thailint.yaml").write_text(DEFAULT_CFG + "nesting:\n  max_nesting_depth: 9\nmagic-numbers:\n  allowed_numbers: [0, 1, 2]\n  max_small_integer: 100000\n")
        for cmd, linter_name in (("nesting", "nesting"), ("magic-numbers", "magic-numbers")):
            t = rng.choice(targets)
            code, stdout = core.run_cli(["--project-root", str(proj), cmd, "--config", str(proj / "alt-config.yaml"), "--format", "json", t], cwd=proj)
            vs = core.violations_json(stdout)
            core._reset_singletons()
            got = Linter(config_file=proj / "alt-config.yaml", project_root=proj).lint(proj / t if t != "." else proj, rules=[linter_name])
            api.append({"cmd": cmd + " --config alt-config.yaml", "target": t, "exit": code, "cli": None if vs is None else sorted(norm_cli(v, proj) for v in vs),
                        "api": sorted(norm_api(v, proj) for v in got)})
        out["api"] = api
        out["perfile"], out["fin"], out["n"] = perfile, fin, len(rels)
    except Exception as exc:  # noqa: BLE001
        import traceback
        out["errors"].append(f"{type(exc).__name__}: {exc} {traceback.format_exc()[-600:]}")
    finally:
        shutil.rmtree(Path(root) / f"t{idx}", ignore_errors=True)
    return out


def run(tier: str, seed: int, st: core.ProofStatus) -> core.Result:
    res = core.Result()
    res.rule = ("seeded multi-language project trees (4-10 files, nested directories, planted per-file and cross-file findings): "
                "directory run vs model on fresh per-file/finalize tables, 3 random subsets as explicit arguments, 2 mixed "
                "file+directory CLI invocations vs the model's single-pass prediction, 5 linters x {., file, dir} CLI vs "
                "Linter.lint(rules=[linter]); non-trivial = compared outputs with >= 2 violations; distinct by (kind, inputs)")
    rng = core.sub_rng(seed, PROP, tier)
    n = 60 if tier == "quick" else 1000
    root = core.scratch_dir("c10")
    try:
        impls = core.pmap(impl_case, [(i, rng.randrange(1 << 30), str(root)) for i in range(n)], procs=16)
    finally:
        shutil.rmtree(root, ignore_errors=True)
    drv = core.Driver()
    for i, im in enumerate(impls):
        if im["errors"]:
            res.evaluations += 1
            res.disagreements.append(core.Disagreement(case={"index": i}, impl=im["errors"], model=None, spec=None, property_fails=True, note=im["errors"][0][:800]))
            continue
        tables = {"perfile": im["perfile"], "fin": im["fin"]}

        def model_cli(files, dirs):
            return drv.call({"prop": PROP, "op": "cli", "files": files, "dirs": dirs, **tables})["cli"]

        def strip_paths(tokens):   # API-level tokens carry the spelling they were linted with; compare modulo that
            return sorted(tokens)

        # directory
        res.evaluations += 1
        d = im["dir"]
        m = model_cli([], [d["order"]])
        # (the order in which a cross-file rule lists its findings is not part of the property: multisets are compared)
        if d["impl"] != m and sorted(d["impl"]) == sorted(m):
            res.bump("order of findings", "directory run lists the same findings in another order than the model")
        if sorted(d["impl"]) != sorted(m):
            res.disagreements.append(core.Disagreement(case={"index": i, "kind": "directory", "order": d["order"]}, impl=d["impl"][:8], model=m[:8], spec=None,
                                                       property_fails=sorted(d["impl"]) != sorted(m), note="lint_directory differs from the model (per-file results in discovery order + finalize)"))
        if not d["union_ok"]:
            res.disagreements.append(core.Disagreement(case={"index": i, "kind": "directory"}, impl=None, model=None, spec=None, property_fails=True,
                                                       note="the per-file part of a run is not the union of what each file reports on its own (hidden state between files)"))
        if len(d["impl"]) >= 2:
            res.nontrivial.add(core.canon(["dir", i, d["order"]]))
        for s in im["subsets"]:
            res.evaluations += 1
            res.bump("subset_size", len(s["files"]))
            m = model_cli(s["files"], [])
            if sorted(s["impl"]) != sorted(m):
                res.disagreements.append(core.Disagreement(case={"index": i, "kind": "subset", "files": s["files"]}, impl=s["impl"][:8], model=m[:8], spec=None,
                                                           property_fails=True, note="lint_files on an explicit subset differs from the union of per-file results + finalize on exactly those files"))
            if len(s["impl"]) >= 2:
                res.nontrivial.add(core.canon(["subset", i, s["files"]]))
        for mx in im["mixed"]:
            res.evaluations += 1
            res.bump("mixed_cmd", mx["cmd"])
            m = model_cli(mx["files"], mx["dirs"])
            ow = drv.call({"prop": "C15", "op": "owns", "cmd": mx["cmd"], "ids": sorted({json.loads(t)["rule_id"] for t in m})})
            owned = {r for r, ok in zip(sorted({json.loads(t)["rule_id"] for t in m}), ow["owns"]) if ok}
            exp = sorted(t for t in m if json.loads(t)["rule_id"] in owned)
            if mx["impl"] is None or mx["impl"] != exp or mx["exit"] != (1 if exp else 0):
                res.disagreements.append(core.Disagreement(case={"index": i, "kind": "mixed-arguments", **{k: mx[k] for k in ("cmd", "files", "dirs")}},
                                                           impl=(mx["impl"] or [mx["raw"]])[:8], model=exp[:8], spec=None, property_fails=True,
                                                           note=f"`thailint {mx['cmd']}` with file and directory arguments: {len(mx['impl'] or [])} violations (exit {mx['exit']}), model of one pass over the union {len(exp)}"))
            if len(exp) >= 2:
                res.nontrivial.add(core.canon(["mixed", i, mx["cmd"], mx["files"], mx["dirs"]]))
        res.bump("root markers", im.get("layout", "plain"))
        for a in im["api"]:
            res.evaluations += 1
            res.bump("api_cmd", a["cmd"])
            if a["cli"] is None or a["cli"] != a["api"] or a["exit"] != (1 if a["api"] else 0):
                only_cli = [t for t in (a["cli"] or []) if t not in a["api"]]
                only_api = [t for t in a["api"] if t not in (a["cli"] or [])]
                res.disagreements.append(core.Disagreement(case={"index": i, "kind": "api-vs-cli", "cmd": a["cmd"], "target": a["target"]},
                                                           impl={"only_cli": only_cli[:3], "only_api": only_api[:3], "exit": a["exit"]}, model=None, spec=None, property_fails=True,
                                                           note=f"`thailint {a['cmd']} {a['target']}` and Linter.lint(rules=[...]) differ: {len(only_cli)} only CLI, {len(only_api)} only API"))
            if len(a["api"]) >= 2:
                res.nontrivial.add(core.canon(["api", i, a["cmd"], a["target"]]))
        if len(res.samples) < 2 and im["mixed"]:
            res.samples.append({"files": im["n"], "directory_order": im["dir"]["order"], "mixed": [{k: mx[k] for k in ("cmd", "files", "dirs")} for mx in im["mixed"]],
                                "api": [(a["cmd"], a["target"], len(a["api"])) for a in im["api"][:4]]})
    drv.close()
    return res


def replay(path: str, st: core.ProofStatus) -> int:
    data = json.loads(Path(path).read_text())
    print(json.dumps(data, indent=1)[:3000])
    print("projects are regenerated from the seed: re-run `VERIF_SEED=<seed> ./check C10` to reproduce")
    return 1
