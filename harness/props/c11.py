"""C11 — no input makes a linter crash, hang, or silently drop its analysis.

A healthy generated project (py/ts/rs) gets one offending file: raw damage (empty, white space, random bytes,
invalid UTF-8, BOM, NUL, CR/CRLF/mixed endings), grammar-aware mutations of a valid file (truncation, token
deletion / duplication, bracket imbalance, byte damage, nesting and length blow-up, huge literals, lone
surrogate escapes, long directive comments), or an unknown / odd language (strange extensions, shebangs).
Each case runs two linter commands as real subprocesses with a time limit and the failure tap H1 switched on,
with and without the offending file.  Specification: exit 0 or 1, no timeout, empty failure log, per-file rules
report for the sibling files exactly what they report without the offending file.  The Lean isolation model is
executed on the observed behaviours (which rule raised what, from the tap) and must predict the run's exit
code, sibling violations and failure records."""
from __future__ import annotations

import json
import os
import random
import shutil
import subprocess
from pathlib import Path

from .. import core
from ..gen_constructs import gen_file_all, gen_file, zoo_file

PROP = "C11"
LEVEL_NOTE = ("theorems hold for every list of files and every behaviour of every rule (returns or raises); that no rule raises on a given input is a "
              "fact about parsers and analyzers that only the fuzzing part of the correspondence check samples")

COMMANDS = ["nesting", "srp", "magic-numbers", "print-statements", "method-property", "stateless-class", "pipeline", "perf", "lbyl", "lazy-ignores", "file-header",
            "stringly-typed", "dry", "unwrap-abuse", "clone-abuse", "blocking-async"]
CONFIG = {"dry": {"enabled": True}}
CROSS_FILE = ("dry.", "stringly-typed")        # rules whose verdict on one file legitimately depends on the other files of the run
TIMEOUT = 25

EXTS = {"py": ".py", "ts": ".ts", "js": ".js", "rs": ".rs"}


def healthy_project(rng):
    files = {}
    for i, lang in enumerate(["py", "ts", "rs"]):
        text, _pl, _meta = gen_file(rng, lang, f"h{i}x", n_units=rng.randint(3, 5), layout=False)
        files[f"src/ok_{i}.{lang}"] = text.encode("utf-8")
        files[f"src/zoo.{lang}"] = zoo_file(lang).encode("utf-8")          # every language-feature unit: the analyzers must get through valid modern syntax
    return files


BROKEN_IMPORTS = {
    "py": ["from os import (path, sep", "import (os", "from . import", "from pkg import a,", "from a import b as", "import os as", "from .. import (x, y))"],
    "rs": ["use tokio::{fs, io;", "use serde::{Serialize, Deserialize", "use crate::{a::{b, c};", "use tokio::fs, io};", "use futures::{self, stream::{", "use tokio::{fs as , io};",
           "use async_std::{fs}};", "use ::{fs};", "use tokio::{};", "use tokio::{fs,, io};", "use tokio::{fs, io}", "pub use tokio::{fs", "use tokio::{\n    fs,\n    io"],
    "ts": ['import { a, b from "x";', 'import { a, } "x"', 'import * as from "y";', "export { a, b", 'import { a as } from "z";', 'import {{ a }} from "w";'],
}


LAST_BASE = [None]      # the valid file an offending file was made from by *appending* valid but extreme code (side channel of mutate)
TAIL_KINDS = ("deep_nesting", "deep_nesting_small", "long_line", "long_chain", "huge_int", "surrogate", "long_identifier")


def mutate(rng, kind_hint=None):
    """returns (relative name, bytes, description)"""
    other_lang = bool(kind_hint) and kind_hint.endswith(":other")      # `long_directive:other`: the same kind on a TypeScript / JavaScript / Rust file
    if other_lang:
        kind_hint = kind_hint[: -len(":other")]
    lang = ("py" if kind_hint == "long_directive" and not other_lang else rng.choice(["ts", "js", "rs"]) if other_lang
            else "py" if kind_hint in ("long_chain", "deep_nesting") and rng.random() < 0.7 else rng.choice(["py", "py", "ts", "js", "rs", "rs"]))
    src_lang = "ts" if lang == "js" else lang
    base, _pl, _meta = gen_file(rng, src_lang, "bad", n_units=rng.randint(3, 6), layout=True)
    data = base.encode("utf-8")
    ext = EXTS[lang]
    kinds = ["empty", "whitespace", "random_bytes", "invalid_utf8", "bom_only", "nul", "lone_cr", "mixed_eol", "truncate", "truncate", "token_delete", "token_dup",
             "truncate_line", "truncate_line", "bracket", "byte_damage", "deep_nesting", "deep_nesting_small", "long_line", "long_chain", "huge_int", "surrogate", "long_directive", "unknown_ext",
             "shebang", "long_identifier", "only_comment", "unterminated_string", "broken_import", "broken_import", "many_findings_line"]
    kind = kind_hint or rng.choice(kinds)
    name = f"src/bad_{kind}{ext}"
    LAST_BASE[0] = data if kind in TAIL_KINDS else None
    if kind == "empty":
        return name, b"", kind
    if kind == "whitespace":
        return name, rng.choice([b" ", b"\n\n\n", b"\t \r\n \n", b"\x0c\n", b"    \n" * 50]), kind
    if kind == "random_bytes":
        return name, bytes(rng.randrange(256) for _ in range(rng.choice([1, 7, 300, 5000]))), kind
    if kind == "invalid_utf8":
        pos = rng.randrange(len(data))
        return name, data[:pos] + rng.choice([b"\xff", b"\xc3\x28", b"\xe2\x82", b"\xf0\x9f\x98", b"\xed\xa0\x80"]) + data[pos:], kind
    if kind == "bom_only":
        return name, rng.choice([b"\xef\xbb\xbf", b"\xef\xbb\xbf\n", b"\xff\xfe" + "x = 1\n".encode("utf-16-le")]), kind
    if kind == "nul":
        pos = rng.randrange(len(data))
        return name, data[:pos] + b"\x00" * rng.choice([1, 3]) + data[pos:], kind
    if kind == "lone_cr":
        return name, data.replace(b"\n", b"\r"), kind
    if kind == "mixed_eol":
        parts = data.split(b"\n")
        return name, b"".join(p + rng.choice([b"\n", b"\r\n", b"\r"]) for p in parts), kind
    if kind == "truncate":
        return name, data[: rng.randrange(1, len(data))], kind
    if kind == "truncate_line":
        # whole lines kept, cut in the middle of a construct (closing brackets / braces missing)
        lines = base.split("\n")
        cands = [i for i, ln in enumerate(lines) if ln.startswith((" ", "\t")) and ln.strip()]
        cut = rng.choice(cands) if cands else max(1, len(lines) // 2)
        return name, ("\n".join(lines[: cut + 1]) + rng.choice(["", "\n"])).encode("utf-8"), kind
    toks = base.split(" ")
    if kind == "token_delete":
        for _ in range(rng.randint(1, 4)):
            if len(toks) > 2:
                del toks[rng.randrange(len(toks))]
        return name, " ".join(toks).encode("utf-8"), kind
    if kind == "token_dup":
        for _ in range(rng.randint(1, 4)):
            i = rng.randrange(len(toks))
            toks.insert(i, toks[i])
        return name, " ".join(toks).encode("utf-8"), kind
    if kind == "bracket":
        s = base
        for _ in range(rng.randint(1, 3)):
            idxs = [i for i, ch in enumerate(s) if ch in "()[]{}"]
            if not idxs:
                break
            i = rng.choice(idxs)
            s = s[:i] + rng.choice(["", s[i] * 2, rng.choice("([{")]) + s[i + 1:]
        return name, s.encode("utf-8"), kind
    if kind == "byte_damage":
        b = bytearray(data)
        for _ in range(rng.randint(1, 8)):
            b[rng.randrange(len(b))] = rng.randrange(256)
        return name, bytes(b), kind
    if kind in ("deep_nesting", "deep_nesting_small"):
        d = rng.choice([30, 80]) if kind == "deep_nesting_small" else rng.choice([150, 1500, 4000])
        o, c = rng.choice([("(", ")"), ("[", "]")])
        if lang == "py":
            text = base + f"\nDEEP = {o * d}1{c * d}\n"
        elif lang == "rs":
            text = base + f"\nfn deep() -> i32 {{ {'(' * d}1{')' * d} }}\n"
        else:
            text = base + f"\nconst deep = {o * d}1{c * d};\n"
        return f"src/bad_{kind}_{d}{ext}", text.encode("utf-8"), f"{kind}:{d}"
    if kind == "long_line":
        n = rng.choice([20000, 300000])
        if lang == "py":
            text = base + "\nLONG = \"" + "x" * n + "\"\n"
        elif lang == "rs":
            text = base + "\nconst LONG: &str = \"" + "x" * n + "\";\n"
        else:
            text = base + "\nconst long = \"" + "x" * n + "\";\n"
        return name, text.encode("utf-8"), f"{kind}:{n}"
    if kind == "many_findings_line":
        # one line with tens of thousands of findings: whatever a rule does per finding must not be proportional to the file
        n = 30000
        elems = ",".join(["1234"] * n)
        if lang == "py":
            text = base + f"\nMANY = compute([{elems}])\n"
        elif lang == "rs":
            text = base + f"\nfn many() -> Vec<i32> {{ vec_of([{elems}]) }}\n"
        else:
            text = base + f"\nvar many = compute([{elems}]);\n"
        return f"src/bad_{kind}_{n}{ext}", text.encode("utf-8"), f"{kind}:{n}"
    if kind == "long_chain":
        n = rng.choice([200, 600, 600, 900, 900, 3000])
        expr = " + ".join(["a"] * n)
        if lang == "py":
            text = base + f"\ndef chain(a):\n    return {expr}\n"
        elif lang == "rs":
            text = base + f"\nfn chain(a: i32) -> i32 {{ {expr} }}\n"
        else:
            text = base + f"\nfunction chain(a: number): number {{ return {expr}; }}\n"
        return f"src/bad_{kind}_{n}{ext}", text.encode("utf-8"), f"{kind}:{n}"
    if kind == "huge_int":
        n = rng.choice([400, 5000])
        lit = rng.choice(["0x" + "f" * n, "9" * n])
        if lang == "py":
            text = base + f"\nHUGE = compute({lit})\n"
        elif lang == "rs":
            text = base + f"\nfn huge() -> i32 {{ compute({lit}) }}\n"
        else:
            text = base + f"\nconst huge = compute({lit});\n"
        return f"src/bad_{kind}_{n}{ext}", text.encode("utf-8"), f"{kind}:{n}"
    if kind == "surrogate":
        if lang == "py":
            text = base + '\ndef sur(mode):\n    if mode in ("\\ud800", "b\\udfff", "c"):\n        return 1\n    return 0\n'
        else:
            text = base + '\nconst sur = ["\\ud800", "b\\udfff"];\n'
        return name, text.encode("utf-8"), kind
    if kind == "long_directive":
        c = "#" if lang == "py" else "//"
        bodies = [" noqa: " + "E501" * rng.choice([12, 40]) + "_see_ticket", " type: ignore[" + "a" * 5000 + "]", " pylint: disable=" + ",".join(["x" * 30] * 300),
                  " thailint: ignore[" + "nesting," * 2000 + "]", " noqa" + " " * 5000 + "x", " eslint-disable-next-line " + "no-x, " * 1500,
                  " noqa:" + "E501,W291 ," * 400 + "!", " nosec " + "B" * 3000 + "-", " type: ignore" + "[" * 300]
        lines = base.split("\n")
        # every body, each on a line of its own where the file has enough lines (a directive-shaped comment of every tool)
        free = [i for i, ln in enumerate(lines) if "\\" not in ln and ln.strip()]
        rng.shuffle(free)
        for k, body in enumerate(bodies):
            i = free[k % len(free)] if free else 0
            lines[i] = lines[i] + "  " + c + body
        return name, "\n".join(lines).encode("utf-8"), kind
    if kind == "unknown_ext":
        return "src/bad_unknown" + rng.choice([".xyz", ".txt", ".PY", ".pyi", ".jsx", ".tsx", ".mjs", ".md", ".sh", ".css", ".json", ".yaml", ".toml", ".rs.bak", ""]), data, kind
    if kind == "shebang":
        first = rng.choice(["#!/usr/bin/env python3", "#!/bin/sh -c 'exec python", '#!/usr/bin/env "python', "#!", "#!/usr/bin/python\x00", "#! /usr/bin/env node", "#!/bin/bash",
                            "#!/usr/bin/env python3 " + "x" * 10000])
        return "src/bad_script" + rng.choice(["", ".cgi", ".run"]), (first + "\n").encode("utf-8", "replace") + data, kind
    if kind == "broken_import":
        # import / use statements whose group syntax is damaged (the analyzers that read imports as text must cope)
        stmts = BROKEN_IMPORTS[src_lang] if False else {"py": ["from os import (path, sep", "import (os", "from . import", "from pkg import a,", "from a import b as", "import os as", "from .. import (x, y))"],
                 "rs": ["use tokio::{fs, io;", "use serde::{Serialize, Deserialize", "use crate::{a::{b, c};", "use tokio::fs, io};", "use futures::{self, stream::{", "use tokio::{fs as , io};",
                        "use async_std::{fs}};", "use ::{fs};", "use tokio::{};", "use tokio::{fs,, io};"],
                 "ts": ['import { a, b from "x";', 'import { a, } "x"', 'import * as from "y";', "export { a, b", 'import { a as } from "z";', 'import {{ a }} from "w";']}[src_lang]
        lines = base.split("\n")
        at = 1 if src_lang == "py" and lines and lines[0].startswith('"""') else 0
        picked = rng.sample(stmts, rng.randint(1, 2))
        text = "\n".join(lines[:at] + picked + lines[at:])
        return name, text.encode("utf-8"), f"{kind}:{picked[0][:24]}"
    if kind == "long_identifier":
        ident = "v" * rng.choice([5000, 80000])
        text = base + (f"\n{ident} = 4242\n" if lang == "py" else f"\nfn {ident}() {{}}\n" if lang == "rs" else f"\nconst {ident} = 4242;\n")
        return name, text.encode("utf-8"), kind
    if kind == "only_comment":
        c = "#" if lang == "py" else "//"
        return name, (c + " just a comment" + ("\n" if rng.random() < 0.5 else "")).encode(), kind
    q = rng.choice(['"""', "'", '"', "`", "/*"])
    pos = rng.randrange(len(base))
    return name, (base[:pos] + q + base[pos:]).encode("utf-8"), kind


def py_parses(data: bytes) -> bool:
    import ast
    try:
        ast.parse(data)
        return True
    except BaseException:  # noqa: BLE001  (SyntaxError, ValueError, RecursionError, MemoryError)
        return False


def run_cmd(proj: Path, cmd: str, faillog: Path):
    r = run_cmd_once(proj, cmd, faillog, TIMEOUT)
    if r["timeout"]:
        # a loaded machine is not a hang: only a command that also exceeds a much longer limit counts
        r = run_cmd_once(proj, cmd, faillog, 4 * TIMEOUT)
    return r


def run_cmd_once(proj: Path, cmd: str, faillog: Path, limit: int):
    env = dict(os.environ)
    env.update({"PYTHONPATH": str(core.REPO), "THAILINT_VERIF": "1", "THAILINT_VERIF_FAILLOG": str(faillog)})
    faillog.unlink(missing_ok=True)
    try:
        p = subprocess.run(["/venv/bin/python", "-m", "src.cli_main", cmd, "--format", "json", "src"], cwd=proj, env=env, stdout=subprocess.PIPE, stderr=subprocess.PIPE,
                           timeout=limit)
        code, out, err = p.returncode, p.stdout.decode("utf-8", "replace"), p.stderr.decode("utf-8", "replace")
    except subprocess.TimeoutExpired:
        return {"exit": None, "timeout": True, "violations": None, "fails": [], "err": ""}
    vs = core.violations_json(out)
    fails = []
    if faillog.exists():
        for line in faillog.read_text().splitlines():
            try:
                fails.append(json.loads(line))
            except ValueError:
                pass
    return {"exit": code, "timeout": False, "violations": None if vs is None else sorted([v["file_path"], v["line"], v["column"], v["rule_id"], v["message"]] for v in vs),
            "fails": fails, "err": err[-400:]}


def impl_case(args):
    idx, healthy, bad_files, cmds, root = args[:5]
    base_only = args[5] if len(args) > 5 else None
    import yaml
    proj = Path(root) / f"p{idx}"
    res = {"errors": [], "runs": {}}
    try:
        for rel, data in healthy.items():
            f = proj / rel
            f.parent.mkdir(parents=True, exist_ok=True)
            f.write_bytes(data)
        (proj / ".thailint.yaml").write_text(yaml.safe_dump(CONFIG))
        (proj / ".git").mkdir()
        faillog = Path(root) / f"fail{idx}.jsonl"
        for cmd in cmds:
            res["runs"][cmd] = {"baseline": run_cmd(proj, cmd, faillog)}
        for bad_name, bad_bytes in bad_files:
            bad = proj / bad_name
            bad.parent.mkdir(parents=True, exist_ok=True)
            bad.write_bytes(bad_bytes)
        for cmd in cmds:
            res["runs"][cmd]["with"] = run_cmd(proj, cmd, faillog)
        if base_only:
            # the same file without the extreme code that was appended to it: what the rules find in the ordinary part
            for bad_name, base_bytes in base_only:
                (proj / bad_name).write_bytes(base_bytes)
            for cmd in cmds:
                res["runs"][cmd]["base_only"] = run_cmd(proj, cmd, faillog)
    except Exception as exc:  # noqa: BLE001
        res["errors"].append(f"{type(exc).__name__}: {exc}")
    finally:
        shutil.rmtree(proj, ignore_errors=True)
    return res


def exc_class(name: str):
    if name in ("UnicodeError", "UnicodeDecodeError", "UnicodeEncodeError", "UnicodeTranslateError"):
        return "unicode"
    return sum(name.encode()) % 1000 + 1


def finding_of(kind: str, problem: dict):
    """the recorded defects, identified by input class and symptom"""
    fails = problem.get("fails", [])
    types = {f["exc_type"] for f in fails}
    if types == {"RecursionError"} and kind.split(":")[0] in ("deep_nesting", "long_chain", "bracket", "token_dup"):
        return "F11c"
    if kind.startswith("huge_int") and problem.get("exit") == 2 and "4300" in problem.get("err", ""):
        return "F11a"
    if kind == "surrogate" and types and types <= {"UnicodeEncodeError"}:
        return "F11b"
    return None


def run(tier: str, seed: int, st: core.ProofStatus) -> core.Result:
    res = core.Result()
    res.rule = ("a healthy generated project (3 files py/ts/rs) plus one offending file of 26 kinds: empty, white space, random bytes, invalid UTF-8, BOM / UTF-16, NUL, "
                "lone CR, mixed line ends, truncation, token deletion / duplication, bracket imbalance, byte damage, nesting depth 30..4000, lines of 2e4..3e5 "
                "characters, chains of 200..3000 terms, integer literals of 400..5000 digits, lone surrogate escapes, directive comments of several thousand "
                "characters, 15 unknown or odd extensions, 8 shebang shapes, identifiers of 5e3..8e4 characters, comment-only, unterminated string; two of 16 "
                "linter commands per case as subprocesses with a 25 s limit and the failure tap on, with and without the offending file; non-trivial = a case "
                "whose sibling files have findings")
    rng = core.sub_rng(seed, PROP, tier)
    n = 70 if tier == "quick" else 900
    cases = []
    kinds_cycle = ["empty", "whitespace", "random_bytes", "invalid_utf8", "bom_only", "nul", "lone_cr", "mixed_eol", "truncate", "token_delete", "token_dup", "bracket", "byte_damage",
                   "deep_nesting", "deep_nesting_small", "long_line", "long_chain", "huge_int", "surrogate", "long_directive", "unknown_ext", "shebang", "long_identifier",
                   "only_comment", "unterminated_string", "broken_import", "long_chain", "long_chain", "deep_nesting", "many_findings_line", "truncate", "truncate_line", "truncate_line", "truncate_line", "long_directive:other", "truncate_line", "truncate_line"]
    for i in range(n):
        healthy = healthy_project(rng)
        if i < 3 or (i >= len(kinds_cycle) and rng.random() < 0.05):
            # prefix sweep: every line-prefix of a valid file, all in one run (each cut leaves some construct unclosed)
            lang = ["py", "ts", "rs"][i % 3]
            base = gen_file_all(rng, lang, "cut", reps=1)       # every unit kind of the language once: each construct gets cut at each of its lines
            lines = base.split("\n")
            bad_files = [(f"src/cut/prefix_{k:03d}.{lang}", ("\n".join(lines[:k]) + ("\n" if k % 2 else "")).encode("utf-8")) for k in range(1, len(lines))]
            kind = "prefix_sweep"
        elif i == 4 or (i >= len(kinds_cycle) and rng.random() < 0.03):
            # import sweep: every damaged import / use statement of every language on top of a valid file, all in one run
            bad_files = []
            for lang in ("py", "ts", "rs"):
                base, _pl, _meta = gen_file(rng, lang, "imp", n_units=3, layout=False)
                for k, stmt in enumerate(BROKEN_IMPORTS[lang]):
                    bad_files.append((f"src/imports/broken_{k:02d}.{lang}", (stmt + "\n" + base).encode("utf-8")))
            kind = "import_sweep"
        elif i == 3 or (i >= len(kinds_cycle) and rng.random() < 0.03):
            # shebang sweep: every shebang shape on extension-less / oddly named scripts, all in one run
            base, _pl, _meta = gen_file(rng, "py", "sb", n_units=3, layout=False)
            firsts = ["#!/usr/bin/env python3", "#!/bin/sh -c 'exec python", '#!/usr/bin/env "python', "#!", "#!/usr/bin/python -u 'x", "#! /usr/bin/env node", "#!/bin/bash",
                      "#!/usr/bin/env python3 " + "x" * 10000, "#!/usr/bin/env python3\\", "#!\t/usr/bin/env\tpython3 \"", "#!/usr/bin/env -S python3 -O '"]
            bad_files = [(f"src/scripts/tool_{k}{ext}", (first + "\n" + base).encode("utf-8")) for k, first in enumerate(firsts) for ext in ("", ".cgi")]
            kind = "shebang_sweep"
        else:
            name, data, kind = mutate(rng, kinds_cycle[i - 5] if 0 <= i - 5 < len(kinds_cycle) else None)       # every kind at least once per run
            bad_files = [(name, data)]
        cmds = rng.sample(COMMANDS, 2)
        if kind.startswith("many_findings_line"):
            cmds = ["magic-numbers"]       # the command whose rule has the findings; one run is enough to see whether it finishes
        elif len(bad_files) == 1 and kind.split(":")[0] in TAIL_KINDS:
            cmds = sorted(set(cmds) | {"magic-numbers", "nesting"})      # rules that have findings in the ordinary part of most generated files
        base_only = [(bad_files[0][0], LAST_BASE[0])] if len(bad_files) == 1 and kind.split(":")[0] in TAIL_KINDS and LAST_BASE[0] is not None else None
        LAST_BASE[0] = None
        cases.append((healthy, bad_files, kind, cmds, base_only))
    root = core.scratch_dir("c11")
    try:
        impls = core.pmap(impl_case, [(i, c[0], c[1], c[3], str(root), c[4]) for i, c in enumerate(cases)], procs=16, chunksize=1)
    finally:
        shutil.rmtree(root, ignore_errors=True)
    drv = core.Driver()
    for (healthy, bad_files, kind, cmds, base_only), im in zip(cases, impls):
        res.evaluations += 1
        res.bump("kind", kind.split(":")[0])
        name, data = bad_files[0]
        bad_names = {b[0] for b in bad_files}
        case = {"offending": [[nm, d[:4000].hex(), len(d)] for nm, d in bad_files[:60]], "kind": kind, "commands": cmds,
                "healthy": {k: v.decode("utf-8") for k, v in healthy.items()}}
        if im["errors"]:
            res.disagreements.append(core.Disagreement(case=case, impl=im["errors"], model=None, spec=None, property_fails=False, note=im["errors"][0][:400]))
            continue
        for cmd, runs in im["runs"].items():
            res.bump("command", cmd)
            base, w = runs["baseline"], runs["with"]
            if base["exit"] not in (0, 1) or base["fails"] or base["violations"] is None:
                # a rule that abandons a valid file, or a run that does not end with 0/1 on valid files, is itself a violation
                res.disagreements.append(core.Disagreement(case=case, impl={"exit": base["exit"], "fails": base["fails"][:5], "err": base["err"][-300:]}, model=None,
                                                           spec="exit 0/1 and no abandoned analysis on valid files",
                                                           property_fails=bool(base["fails"]) or base["exit"] not in (0, 1),
                                                           note=f"{cmd}: the healthy project alone does not lint cleanly (exit {base['exit']}, {len(base['fails'])} failures"
                                                                + (f", e.g. {base['fails'][0]['rule']} on {Path(base['fails'][0]['file']).name}: {base['fails'][0]['exc_type']}" if base["fails"] else "") + ")"))
                continue
            problems = []
            if w["timeout"]:
                problems.append(f"{cmd}: no result within {TIMEOUT} s, nor within {4 * TIMEOUT} s on a second attempt")
            elif w["exit"] not in (0, 1):
                problems.append(f"{cmd}: exit {w['exit']}: {w['err'][-200:]}")
            if w["fails"]:
                f0 = w["fails"][0]
                problems.append(f"{cmd}: {len(w['fails'])} rule(s) abandoned their analysis, e.g. {f0['rule']} on {Path(f0['file']).name}: {f0['exc_type']}: {f0['exc_msg'][:80]}")
            sib_w = None
            if w["violations"] is not None:
                sib_w = [v for v in w["violations"] if v[0] not in bad_names and not v[3].startswith(CROSS_FILE)]
                sib_b = [v for v in base["violations"] if not v[3].startswith(CROSS_FILE)]
                if sib_b:
                    res.nontrivial.add(core.canon([name, cmd, res.evaluations]))
                if sib_w != sib_b:
                    problems.append(f"{cmd}: findings of the sibling files changed: gained {[v for v in sib_w if v not in sib_b][:2]} lost {[v for v in sib_b if v not in sib_w][:2]}")
            # --- appended extreme code must not cost the ordinary part of the same file its findings, except for the rules that
            #     recorded a failure on this file (those are judged above / by the known findings)
            bo = runs.get("base_only")
            if bo and name.endswith(".py") and not py_parses(data):
                bo = None       # CPython itself rejects the file (too many nested parentheses ...): nothing of it is analysable, and no rule failed
            if bo and bo.get("violations") is not None and w["violations"] is not None and not w["timeout"]:
                failed_rules = {fl["rule"].split(".")[0] for fl in w["fails"] if Path(fl["file"]).name == Path(name).name}
                n_base_lines = base_only[0][1].count(b"\n") + 1
                had = [v for v in bo["violations"] if v[0] in bad_names and not v[3].startswith(CROSS_FILE)]
                have = [v for v in w["violations"] if v[0] in bad_names and v[1] <= n_base_lines]
                lost = [v for v in had if v not in have and v[3].split(".")[0] not in failed_rules]
                res.bump("ordinary part of the offending file", "has findings" if had else "no findings for these commands")
                if lost:
                    problems.append(f"{cmd}: findings in the ordinary part of {name} vanish when the extreme code is appended although their rule recorded no failure: {lost[:2]}")
            # --- the Lean isolation model on the observed behaviours
            if not w["timeout"] and w["violations"] is not None:
                files_order = sorted(set(healthy) | bad_names)
                fid = {f: i + 1 for i, f in enumerate(files_order)}
                rule_ids = {}

                def rid(r):
                    return rule_ids.setdefault(r, len(rule_ids) + 1)
                mfiles = []
                for f in files_order:
                    per_rule = {}
                    for v in w["violations"]:
                        if v[0] == f:
                            per_rule.setdefault(v[3].split(".")[0], []).append(json.dumps(v))
                    rules = [[rid(r), {"ok": vs}] for r, vs in sorted(per_rule.items())]
                    for fl in w["fails"]:
                        if Path(fl["file"]).name == Path(f).name and fl["site"] == "rule":
                            rules.append([rid("!" + fl["rule"]), {"raises": exc_class(fl["exc_type"])}])
                    mfiles.append({"file": fid[f], "pre": "lint", "rules": rules})
                m = drv.call({"prop": PROP, "files": mfiles})
                if m["exit"] != w["exit"]:
                    problems.append(f"{cmd}: model predicts exit {m['exit']} from the observed behaviours, the run exited {w['exit']}")
                elif "vs" in m["sequential"]:
                    if sorted(json.loads(x) for x in m["sequential"]["vs"]) != w["violations"]:
                        problems.append(f"{cmd}: model's violations differ from the run's")
                    if len(m["sequential"]["fails"]) != len([fl for fl in w["fails"] if fl["site"] == "rule"]):
                        problems.append(f"{cmd}: model's failure records differ from the tap's")
                    if m["allHealthy"] != (not w["fails"]):
                        problems.append(f"{cmd}: model's health verdict differs from the tap")
            if problems:
                pinfo = {"exit": w["exit"], "err": w["err"], "fails": w["fails"]}
                known = finding_of(kind, pinfo)
                only_known_symptom = known and not any("sibling" in p or "model" in p or "no result" in p or "vanish" in p for p in problems)
                if only_known_symptom:
                    res.findings.setdefault(known, {"kind": kind, "offending_name": name, "command": cmd, "symptom": problems[0][:300], "offending_len": len(data)})
                else:
                    res.disagreements.append(core.Disagreement(case=case, impl={"exit": w["exit"], "fails": w["fails"][:5], "err": w["err"][-300:]}, model=None,
                                                               spec="exit 0/1, no abandoned analysis, siblings unchanged", property_fails=True,
                                                               note=f"[{kind}] " + " | ".join(problems)[:2000]))
    drv.close()
    if not res.samples:
        res.samples.append({"kinds": sorted({c[2].split(":")[0] for c in cases})[:30]})
    return res


def replay(path: str, st: core.ProofStatus) -> int:
    data = json.loads(Path(path).read_text())
    case = data.get("case") or data.get("witness") or {}
    print(json.dumps({k: v for k, v in data.items() if k != "case"}, indent=1)[:3000])
    if "offending" in case and all(ln <= 4000 for _n, _h, ln in case["offending"]):
        root = core.scratch_dir("c11r")
        r = impl_case((0, {k: v.encode() for k, v in case["healthy"].items()}, [(nm, bytes.fromhex(hx)) for nm, hx, _ln in case["offending"]], case["commands"], str(root)))
        for cmd, runs in r["runs"].items():
            print(cmd, {k: runs["with"][k] for k in ("exit", "timeout", "fails")}, runs["with"]["err"][-200:])
        shutil.rmtree(root, ignore_errors=True)
    print(f"VIOLATION property={PROP} replay={path}")
    return 1
