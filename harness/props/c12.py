"""C12 — every violation points at a real location of the construct it describes.

Generated Python / TypeScript / Rust files of planted constructs with known anchor lines (multi-line
headers, decorators / attributes, multi-line calls and method chains, non-ASCII text before a construct,
wrapped (indented) units, blank / comment lines, CRLF, no final newline) are linted with every linter
command.  Checked for every violation: file part of the run, 1 <= line <= number of lines, column inside the
line (Lean coordinate model on the file's bytes), quoted names / literals occur on the reported line; for
every planted construct: a violation of its rule at exactly the anchor line; for Python duplicate code: the
reported line and every `file:S-E` range are windows of the Lean line-tracking model."""
from __future__ import annotations

import ast
import json
import re
import shutil
from pathlib import Path

from .. import core
from ..gen_constructs import gen_file

PROP = "C12"
LEVEL_NOTE = ("coordinate and line-tracking theorems hold for every text, offset, filter and window size; which node a rule anchors its violation on "
              "is tied by the correspondence check on planted constructs, tree-sitter / ast positions are trusted")

COMMANDS = ["nesting", "srp", "stateless-class", "method-property", "magic-numbers", "print-statements", "perf", "pipeline", "dry", "unwrap-abuse", "clone-abuse",
            "blocking-async", "lbyl", "file-header", "lazy-ignores", "stringly-typed"]
CONFIG = {"dry": {"enabled": True, "min_duplicate_lines": 3, "detect_duplicate_constants": True}, "unwrap-abuse": {"allow_expect": False},
          "srp": {"max_methods": 7}, "file-header": {"enabled": True}}
FILE_LEVEL = ("file-header", "file-placement")


def gen_project(rng):
    files, plants = {}, {}
    n = rng.randint(2, 5)
    dup = rng.random() < 0.7
    langs = [rng.choice(["py", "py", "ts", "rs"]) for _ in range(n)]
    if dup:
        lang = rng.choice(["py", "py", "ts"])
        langs[0] = langs[1] = lang
    metas = {}
    for i, lang in enumerate(langs):
        rel = f"src/{rng.choice(['', 'pkg/'])}mod_{i}.{lang}"
        tags = [("D", i == 1)] if dup and i < 2 else []
        text, pl, meta = gen_file(rng, lang, f"f{i}x", dup_tags=tags)
        files[rel], plants[rel], metas[rel] = text, pl, meta
    if rng.random() < 0.3:
        # two Python files that do not parse (a syntax error at the very end) but share a block: the text-based duplicate-code
        # rule still has to point at the block's real lines; the AST-based rules have nothing to say about such files
        for j in (0, 1):
            text, pl, meta = gen_file(rng, "py", f"b{j}x", n_units=rng.randint(1, 3), dup_tags=[("B", j == 1)])
            rel = f"src/broken_{j}.py"
            eol = "\r\n" if meta["eol"] == "crlf" else "\n"
            files[rel] = text + ("" if text.endswith(("\n", "\r")) else eol) + "def todo(:" + eol
            plants[rel] = [p_ for p_ in pl if p_.rule == "dry"]
            metas[rel] = meta
    return files, plants, metas


def impl_case(args):
    idx, files, root = args
    import yaml
    proj = Path(root) / f"p{idx}"
    out = {"errors": [], "violations": []}
    try:
        for rel, text in files.items():
            f = proj / rel
            f.parent.mkdir(parents=True, exist_ok=True)
            f.write_bytes(text.encode("utf-8"))
        (proj / ".thailint.yaml").write_text(yaml.safe_dump(CONFIG))
        for cmd in COMMANDS:
            code, stdout = core.run_cli([cmd, "--format", "json", "src"], cwd=proj)
            vs = core.violations_json(stdout)
            if vs is None:
                out["errors"].append(f"{cmd}: exit {code}: {stdout[-300:]}")
                continue
            for v in vs:
                out["violations"].append({"cmd": cmd, "rule": v["rule_id"], "file": v["file_path"], "line": v["line"], "column": v["column"], "message": v["message"]})
        # DRY line tracking inputs for Python files, from the implementation's own normaliser
        from src.linters.dry import token_hasher
        out["dry_inputs"] = {}
        for rel, text in files.items():
            if not rel.endswith(".py"):
                continue
            norm, state = [], False
            doc = docstring_lines(text)
            for n, line in enumerate(text.split("\n"), start=1):
                if n in doc:
                    continue
                normalized = token_hasher.normalize_line(line)
                if not normalized:
                    norm.append(None)
                    continue
                state, skip = token_hasher.should_skip_import_line(normalized, state)
                norm.append(None if skip else normalized)
            out["dry_inputs"][rel] = {"skip": sorted(doc), "norm": norm}
    except Exception as exc:  # noqa: BLE001
        out["errors"].append(f"{type(exc).__name__}: {exc}")
    finally:
        shutil.rmtree(proj, ignore_errors=True)
    return out


def docstring_lines(text: str) -> set:
    """lines covered by docstrings (module, class, function) — an independent reading with Python's ast"""
    try:
        tree = ast.parse(text)
    except SyntaxError:
        return set()
    res = set()
    for node in ast.walk(tree):
        if isinstance(node, (ast.Module, ast.ClassDef, ast.FunctionDef, ast.AsyncFunctionDef)) and node.body:
            first = node.body[0]
            if isinstance(first, ast.Expr) and isinstance(first.value, ast.Constant) and isinstance(first.value.value, str):
                res.update(range(first.lineno, first.end_lineno + 1))
    return res


QUOTED = [(re.compile(r"^Duplicate constant '([^']+)'"), None), (re.compile(r"^Function '([^']+)'"), None), (re.compile(r"^Class '([^']+)'"), None), (re.compile(r"^Method '([^']+)' in class"), None),
          (re.compile(r"^Magic number (\S+) should"), "number"), (re.compile(r"'(\w+) \+='"), None), (re.compile(r"'((?:\w+\.)+\w+)\(\)'"), None)]


def number_spellings_on_line(line: str):
    out = []
    for tok in re.findall(r"(?<![\w.])(?:0[xX][0-9a-fA-F_]+|0[oO][0-7_]+|0[bB][01_]+|\d[\d_]*\.?\d*(?:[eE][+-]?\d+)?|\.\d+)", line):
        t = tok.replace("_", "")
        try:
            out.append(float(int(t, 0)) if re.match(r"^0[xXoObB]", t) else float(t))
        except ValueError:
            pass
    return out


def src_lines(text: str):
    """lines as compilers and editors count them: only LF / CR / CRLF end a line (str.splitlines would also break at form feed,
    NEL, U+2028 ...)"""
    return [b.decode("utf-8", "replace") for b in text.encode("utf-8").splitlines()]


def check_quotes(v, line_text):
    """wherever the message quotes a name or literal taken from the source, it occurs on the reported line"""
    for rx, kind in QUOTED:
        m = rx.search(v["message"])
        if not m:
            continue
        tok = m.group(1)
        if kind == "number":
            try:
                val = float(tok)
            except ValueError:
                return None
            if not any(abs(x - val) < 1e-9 for x in number_spellings_on_line(line_text)):
                return f"message quotes number {tok} which is not written on line {v['line']}: {line_text.strip()[:80]!r}"
        elif tok not in line_text:
            return f"message quotes {tok!r} which does not occur on line {v['line']}: {line_text.strip()[:80]!r}"
    # the Rust safety linters quote the source line of the call
    if v["rule"].startswith(("unwrap-abuse", "clone-abuse", "blocking-async")) and ": " in v["message"]:
        ctx = v["message"].split(": ", 1)[1].strip()
        if ctx and ctx != line_text.strip():
            return f"message quotes the line {ctx[:60]!r} but line {v['line']} is {line_text.strip()[:60]!r}"
    return None


def split_lines_correspondence(rng, n: int, res: core.Result):
    """direct tie of the model's `splitLines` to /repo's `split_lines` (the function every line look-up of the ignore engine and of
    several linters goes through): random texts over ordinary characters, every kind of line end and the characters that only
    str.splitlines() takes for one"""
    try:
        from src.core.constants import split_lines
    except ImportError as exc:
        res.disagreements.append(core.Disagreement(case={"kind": "split_lines"}, impl=str(exc), model=None, spec=None, property_fails=False,
                                                   note="src.core.constants.split_lines is gone: the model of line splitting is no longer tied to the code"))
        return
    alphabet = ["a", "b", " ", "#", "x", "\n", "\n", "\n", "\r\n", "\r", "\x0c", "\x0b", "\x1c", "\x1d", "\x1e", "\x85", "\u2028", "\u2029", "\t", "é", "\U0001F600"]
    drv = core.Driver()
    for _ in range(n):
        text = "".join(rng.choice(alphabet) for _ in range(rng.randint(0, 40)))
        res.evaluations += 1
        want = split_lines(text)
        m = drv.call({"prop": PROP, "op": "splitLines", "text": [ord(c) for c in text]})
        got = ["".join(chr(c) for c in line) for line in m["lines"]]
        res.bump("split_lines texts", "with odd line-end characters" if any(c in text for c in "\x0c\x0b\x1c\x1d\x1e\x85\u2028\u2029") else "plain")
        if len(want) >= 2:
            res.nontrivial.add(core.canon(["split", text]))
        if got != want:
            res.disagreements.append(core.Disagreement(case={"kind": "split_lines", "text": text}, impl=want, model=got, spec=None,
                                                       property_fails=any(("\n" in ln or "\r" in ln) for ln in want) or len(want) != len(got),
                                                       note=f"split_lines({text!r}) = {want!r}, model {got!r}"))
    drv.close()


def run(tier: str, seed: int, st: core.ProofStatus) -> core.Result:
    res = core.Result()
    res.rule = ("projects of 2-5 generated files (py/ts/rs) of 3-7 planted constructs each in 1-4 styles (multi-line headers, decorators/attributes, "
                "multi-line calls and chains, backslash continuation, non-ASCII text before the construct, async), 20% of units wrapped/indented, random "
                "leading/separating blank and comment lines, 20% CRLF, 25% without final newline, 70% with a duplicated block in two files (one copy with "
                "interleaved blank/comment lines); 16 linter commands; non-trivial = a file in which at least three planted constructs are reported")
    rng = core.sub_rng(seed, PROP, tier)
    split_lines_correspondence(rng, 400 if tier == "quick" else 6000, res)
    n = 60 if tier == "quick" else 1200
    projects = [gen_project(rng) for _ in range(n)]
    root = core.scratch_dir("c12")
    try:
        impls = core.pmap(impl_case, [(i, p[0], str(root)) for i, p in enumerate(projects)], procs=16, chunksize=1)
    finally:
        shutil.rmtree(root, ignore_errors=True)
    drv = core.Driver()
    for (files, plants, metas), im in zip(projects, impls):
        res.evaluations += 1
        case = {"files": files}
        if im["errors"]:
            res.disagreements.append(core.Disagreement(case=case, impl=im["errors"], model=None, spec=None, property_fails=True, note=im["errors"][0][:500]))
            continue
        for rel, meta in metas.items():
            res.bump("eol", meta["eol"])
            res.bump("final_newline", meta["final_newline"])
            for k in meta["kinds"]:
                res.bump("unit", k)
        problems = []
        by_file = {}
        for v in im["violations"]:
            by_file.setdefault(v["file"], []).append(v)
        # --- generic checks, through the Lean coordinate model
        for rel, vs in by_file.items():
            if rel not in files:
                problems.append(f"violation names {rel!r} which was not part of the run: {vs[0]['rule']}")
                continue
            data = files[rel].encode("utf-8")
            lines_b = data.split(b"\n")
            m = drv.call({"prop": PROP, "op": "points", "text": list(data), "positions": [[max(v["line"], 0), max(v["column"], 0)] for v in vs]})
            n_lines = len(src_lines(files[rel]))
            if m["lineCount"] != len(data.splitlines()) and b"\r" not in data.replace(b"\r\n", b""):
                problems.append(f"model line count {m['lineCount']} vs {len(data.splitlines())} for {rel}")
            for v, pm in zip(vs, m["positions"]):
                res.bump("violations_by_rule", v["rule"])
                if v["line"] < 1 or v["column"] < 0 or not pm["inLines"]:
                    problems.append(f"{v['rule']} at {rel}:{v['line']}:{v['column']} — line outside 1..{n_lines}")
                    continue
                if not pm["colInLine"]:
                    problems.append(f"{v['rule']} at {rel}:{v['line']}:{v['column']} — column beyond the end of the line ({len(lines_b[v['line'] - 1])} bytes)")
                if not pm["roundTrip"]:
                    problems.append(f"{v['rule']} at {rel}:{v['line']}:{v['column']} — model offset/position round trip fails")
                if v["rule"].startswith(FILE_LEVEL):
                    continue
                line_text = lines_b[v["line"] - 1].decode("utf-8", "replace")
                q = check_quotes(v, line_text)
                if q:
                    problems.append(f"{v['rule']} at {rel}:{v['line']}: {q}")
        # --- planted constructs: a violation of the rule at exactly the anchor line
        reported_plants = 0
        for rel, pls in plants.items():
            vs = by_file.get(rel, [])
            hit_in_file = 0
            for pl in pls:
                if pl.kind == "dry":
                    continue
                cands = [v for v in vs if v["rule"].startswith(pl.rule)]
                token = pl.token.replace("_", "") if pl.kind == "magic" else pl.token
                if pl.kind in ("nesting", "srp", "srp_rust", "stateless", "method-property", "magic", "perf"):
                    named = [v for v in cands if re.search(r"(?<![\w.])" + re.escape(token) + r"(?![\w])", v["message"].replace("_", "") if pl.kind == "magic" else v["message"])]
                    if not named:
                        problems.append(f"planted {pl.kind} construct {pl.token!r} at {rel}:{pl.line} is not reported")
                        continue
                    wrong = [v for v in named if v["line"] != pl.line]
                    if wrong:
                        problems.append(f"{wrong[0]['rule']} for {pl.token!r} reported at {rel}:{wrong[0]['line']}, the construct is at line {pl.line}: "
                                        f"{src_lines(files[rel])[pl.line - 1].strip()[:60]!r}")
                        continue
                else:
                    if not any(v["line"] == pl.line for v in cands):
                        near = sorted(v["line"] for v in cands)
                        problems.append(f"planted {pl.kind} construct at {rel}:{pl.line} ({src_lines(files[rel])[pl.line - 1].strip()[:50]!r}) has no {pl.rule} violation on "
                                        f"that line (reported lines: {near[:8]})")
                        continue
                hit_in_file += 1
            reported_plants = max(reported_plants, hit_in_file)
        if reported_plants >= 3:
            res.nontrivial.add(core.canon(sorted(files)) + str(res.evaluations))
        # --- duplicate code: reported lines and ranges are windows of the line-tracking model (Python)
        wins = {}
        for rel, inp in im.get("dry_inputs", {}).items():
            mw = drv.call({"prop": PROP, "op": "dry", "lines": files[rel].split("\n"), "skip": inp["skip"], "norm": inp["norm"], "k": CONFIG["dry"]["min_duplicate_lines"]})
            wins[rel] = {(w["start"], w["stop"]): w["snippet"] for w in mw["windows"]}
        for v in im["violations"]:
            if not v["rule"].startswith("dry.duplicate-code") or v["file"] not in wins:
                continue
            own = [se for se in wins[v["file"]] if se[0] == v["line"]]
            if not own:
                problems.append(f"dry violation at {v['file']}:{v['line']} does not start at the first line of any window of kept lines "
                                f"(line text: {files[v['file']].split(chr(10))[v['line'] - 1].strip()[:50]!r})")
                continue
            res.bump("dry_windows_checked")
            for other, s_, e_ in re.findall(r"(\S+\.py):(\d+)-(\d+)", v["message"]):
                if other not in wins:
                    continue
                key = (int(s_), int(e_))
                if key not in wins[other]:
                    problems.append(f"dry violation at {v['file']}:{v['line']} names {other}:{s_}-{e_}, which is not a window of kept lines there")
                elif not any(wins[v["file"]][se] == wins[other][key] for se in own):
                    problems.append(f"dry violation at {v['file']}:{v['line']} names {other}:{s_}-{e_}, whose text differs from the block at the reported line")
        # planted duplicate block: reported from its first line in both files
        for rel, pls in plants.items():
            for pl in pls:
                if pl.kind == "dry" and rel.endswith((".py", ".ts")):
                    lines_rep = sorted(v["line"] for v in by_file.get(rel, []) if v["rule"].startswith("dry.duplicate-code"))
                    if pl.line not in lines_rep:
                        problems.append(f"duplicated block in {rel} starts at line {pl.line} but dry reports lines {lines_rep[:8]}")
        if problems:
            res.disagreements.append(core.Disagreement(case=case, impl=[v for v in im["violations"]][:12], model=None, spec="C12 statement", property_fails=True,
                                                       note=" | ".join(problems[:6])[:2500]))
        if len(res.samples) < 2 and reported_plants >= 3:
            res.samples.append({"files": sorted(files), "violations": [[v["rule"], v["file"], v["line"], v["column"]] for v in im["violations"][:10]]})
    drv.close()
    return res


def replay(path: str, st: core.ProofStatus) -> int:
    data = json.loads(Path(path).read_text())
    case = data.get("case") or data.get("witness")
    print(json.dumps({k: v for k, v in data.items() if k != "case"}, indent=1)[:3000])
    if case and "files" in case:
        root = core.scratch_dir("c12r")
        r = impl_case((0, case["files"], str(root)))
        r.pop("dry_inputs", None)
        print(json.dumps(r, indent=1)[:2500])
        shutil.rmtree(root, ignore_errors=True)
    print(f"VIOLATION property={PROP} replay={path}")
    return 1
