"""C13 — meaning-preserving edits leave the findings unchanged up to line shift.

Generated py/ts/rs files of planted constructs (plus a block duplicated in two files, classes sitting exactly
on max_loc, Rust test code under stacked attributes) are linted with every linter command, then edited by a
random sequence of meaning-preserving edits — blank lines, directive-free comment lines, trailing white
space, consistent re-indentation, LF<->CRLF, BOM, appended unrelated code, renamed locals — and linted again.
The second result must be the first one with every line mapped by the Lean line-shift model (`shiftMany`),
including the `file:S-E` ranges quoted by duplicate-code messages.  The text-based steps are tied directly:
the implementation's `normalize_line` and its `count_loc` line filter are compared with the Lean functions on
every line before and after the edits, and every inserted line must be noise for the Lean tokenizer model."""
from __future__ import annotations

import json
import re
import shutil
from pathlib import Path

from .. import core
from ..gen_constructs import gen_file

PROP = "C13"
LEVEL_NOTE = ("theorems cover the text-based steps (DRY normalisation and line tracking, count_loc, line shift) for every text and edit position; that "
              "the tree-based analyses are layout-insensitive is an assumption about tree-sitter / ast, sampled by the metamorphic run")

COMMANDS = ["nesting", "srp", "stateless-class", "method-property", "magic-numbers", "print-statements", "perf", "pipeline", "dry", "unwrap-abuse", "clone-abuse",
            "blocking-async", "lbyl", "lazy-ignores", "stringly-typed"]
CONFIG = {"dry": {"enabled": True, "min_duplicate_lines": 3, "detect_duplicate_constants": False}, "unwrap-abuse": {"allow_expect": False},
          "srp": {"max_methods": 7, "max_loc": 12, "check_keywords": False}}
HEADER_LINES = {"py": 9, "ts": 0, "rs": 2}        # generated preamble (docstring / imports): edits stay below it
COMMENT = {"py": "#", "ts": "//", "rs": "//"}
RENAMES = {"result": "outcome", "first": "primary", "item": "entry", "plain_": "simple_"}


def gen_project(rng):
    files, metas = {}, {}
    n = rng.randint(2, 4)
    langs = [rng.choice(["py", "py", "ts", "rs"]) for _ in range(n)]
    dup = rng.random() < 0.75
    if dup:
        lang = rng.choice(["py", "py", "ts"])
        langs[0] = langs[1] = lang
    for i, lang in enumerate(langs):
        rel = f"src/mod_{i}.{lang}"
        tags = [("D", False)] if dup and i < 2 else []
        text, _pl, meta = gen_file(rng, lang, f"f{i}x", dup_tags=tags, layout=True)
        files[rel], metas[rel] = text, meta
    return files, metas


class Doc:
    """a file as lines + layout flags, with the list of insert positions applied so far"""

    def __init__(self, text: str, lang: str):
        self.bom = text.startswith("\ufeff")
        if self.bom:
            text = text[1:]
        self.eol = "\r\n" if "\r\n" in text else "\n"
        self.final_newline = text.endswith(self.eol)
        body = text[: -len(self.eol)] if self.final_newline else text
        self.lines = body.split(self.eol)
        self.lang = lang
        self.inserts = []          # 1-based positions, in application order
        self.reindented = False
        self.log = []

    def render(self) -> str:
        return ("\ufeff" if self.bom else "") + self.eol.join(self.lines) + (self.eol if self.final_newline else "")

    def safe_insert_positions(self):
        """positions (1-based line the new line will become) where a blank / comment line cannot change the program:
        below the preamble, not right after a backslash continuation, not inside a multi-line string (none are generated below the preamble)"""
        out = []
        for pos in range(HEADER_LINES[self.lang] + 1, len(self.lines) + 2):
            prev = self.lines[pos - 2] if pos >= 2 else ""
            if prev.rstrip().endswith("\\"):
                continue
            out.append(pos)
        return out

    def insert(self, pos: int, line: str):
        self.lines.insert(pos - 1, line)
        self.inserts.append(pos)


def apply_edits(rng, doc: Doc, n_edits: int, project_renames=()):
    c = COMMENT[doc.lang]
    for _ in range(n_edits):
        kind = rng.choices(["blank", "comment", "trailing", "reindent", "eol", "bom", "append", "rename"], [30, 25, 15, 6, 6, 5, 6, 7])[0]
        if kind in ("blank", "comment"):
            poss = doc.safe_insert_positions()
            if not poss:
                continue
            # positions between stacked decorators / attributes and their item are where layout and syntax meet: favour them
            hot = [p_ for p_ in poss if p_ >= 2 and doc.lines[p_ - 2].strip().startswith(("#[", "@"))]
            pos = rng.choice(hot) if hot and rng.random() < 0.4 else rng.choice(poss)
            if kind == "blank":
                line = rng.choice(["", "", "    ", "\t"])
            else:
                ind = rng.choice(["", "    ", "        ", "  "])
                line = f"{ind}{c} {rng.choice(['note', 'see the design document', 'reviewed', 'ünïcode remark'])} {rng.randint(0, 99)}"
            doc.insert(pos, line)
            doc.log.append([kind, pos, line])
        elif kind == "trailing":
            idxs = [i for i, ln in enumerate(doc.lines) if i >= HEADER_LINES[doc.lang] and not ln.rstrip().endswith("\\")]
            for i in rng.sample(idxs, min(len(idxs), rng.randint(1, 6))):
                doc.lines[i] = doc.lines[i] + rng.choice([" ", "   ", "\t", " \t "])
            doc.log.append(["trailing"])
        elif kind == "reindent" and not doc.reindented:
            unit = rng.choice(["  ", "        ", "\t"])

            def re_ind(ln):
                m = re.match(r"^((?:    )+)", ln)
                if not m:
                    return ln
                k = len(m.group(1)) // 4
                return unit * k + ln[4 * k:]
            doc.lines = [re_ind(ln) for ln in doc.lines]
            doc.reindented = True
            doc.log.append(["reindent", unit])
        elif kind == "eol":
            doc.eol = "\n" if doc.eol == "\r\n" else "\r\n"
            doc.log.append(["eol", doc.eol])
        elif kind == "bom":
            doc.bom = not doc.bom
            doc.log.append(["bom", doc.bom])
        elif kind == "append":
            tag = rng.randint(1000, 9999)
            extra = {"py": ["", f"def appended_{tag}(value):", f"    copy_{tag} = value", f"    return copy_{tag}"],
                     "ts": ["", f"function appended{tag}(value: number): number {{", f"  const copy{tag} = value;", f"  return copy{tag};", "}"],
                     "rs": ["", f"fn appended_{tag}(value: i32) -> i32 {{", f"    let copy_{tag} = value;", f"    copy_{tag}", "}"]}[doc.lang]
            doc.lines += extra
            doc.final_newline = True
            doc.log.append(["append", tag])
        elif kind == "rename" and project_renames:
            # a rename is consistent: the same identifier is renamed in every file of the project (DRY compares tokens across files)
            for old, new in project_renames:
                if ["rename", old, new] in doc.log:
                    continue
                doc.lines = [re.sub(r"(?<![\w])" + re.escape(old) + (r"(?![\w])" if not old.endswith("_") else ""), new, ln) if i >= HEADER_LINES[doc.lang] else ln
                             for i, ln in enumerate(doc.lines)]
                doc.log.append(["rename", old, new])
    return doc


def lint_project(proj: Path, files: dict):
    import yaml
    for rel, text in files.items():
        f = proj / rel
        f.parent.mkdir(parents=True, exist_ok=True)
        f.write_bytes(text.encode("utf-8"))
    (proj / ".thailint.yaml").write_text(yaml.safe_dump(CONFIG))
    out, errors = [], []
    # cqs has no CLI command: through the library API
    try:
        from src.orchestrator.core import Orchestrator
        import os
        core._reset_singletons()
        old = os.getcwd()
        os.chdir(proj)
        try:
            for v in Orchestrator(project_root=proj).lint_directory(Path("src")):
                if v.rule_id.startswith("cqs"):
                    out.append({"cmd": "cqs", "rule": v.rule_id, "file": str(v.file_path), "line": v.line, "column": v.column, "message": v.message})
        finally:
            os.chdir(old)
            core._reset_singletons()
    except Exception as exc:  # noqa: BLE001
        errors.append(f"cqs: {type(exc).__name__}: {exc}")
    for cmd in COMMANDS:
        code, stdout = core.run_cli([cmd, "--format", "json", "src"], cwd=proj)
        vs = core.violations_json(stdout)
        if vs is None:
            errors.append(f"{cmd}: exit {code}: {stdout[-200:]}")
            continue
        for v in vs:
            out.append({"cmd": cmd, "rule": v["rule_id"], "file": v["file_path"], "line": v["line"], "column": v["column"], "message": v["message"]})
    return out, errors


def impl_case(args):
    idx, before, after, root = args
    res = {"errors": []}
    try:
        for tag, files in (("before", before), ("after", after)):
            proj = Path(root) / f"p{idx}_{tag}"
            vs, errs = lint_project(proj, files)
            res[tag] = vs
            res["errors"] += [f"{tag}: {e}" for e in errs]
            shutil.rmtree(proj, ignore_errors=True)
        # the text-based steps of the implementation, line by line
        from src.linters.dry import token_hasher
        res["lines"] = {}
        for tag, files in (("before", before), ("after", after)):
            for rel, text in files.items():
                lines = text.split("\n")
                marker = "#" if rel.endswith(".py") else "//"
                res["lines"][f"{tag}:{rel}"] = {"norm": [token_hasher.normalize_line(ln) for ln in lines],
                                                "code": [bool(ln.strip()) and not ln.strip().startswith(marker) for ln in lines]}
    except Exception as exc:  # noqa: BLE001
        res["errors"].append(f"{type(exc).__name__}: {exc}")
    return res


def run(tier: str, seed: int, st: core.ProofStatus) -> core.Result:
    res = core.Result()
    res.rule = ("projects of 2-4 generated files (py/ts/rs, 3-7 planted constructs each, 75% with a block duplicated in two files, classes with exactly "
                "max_loc code lines, Rust tests under stacked attributes) x a sequence of 1-8 edits per file drawn from: blank line (30), directive-free "
                "comment line (25), trailing white space on 1-6 lines (15), consistent re-indentation to 2/8 spaces or tabs (6), LF<->CRLF (6), BOM on/off (5), "
                "appended unrelated function (6), consistent rename of a local (7); 15 linter commands before and after; non-trivial = a project with "
                "at least 3 findings and at least one inserted line above a finding")
    rng = core.sub_rng(seed, PROP, tier)
    n = 50 if tier == "quick" else 1000
    cases = []
    for _ in range(n):
        files, metas = gen_project(rng)
        pr = rng.sample(list(RENAMES.items()), rng.choice([0, 0, 1, 2]))
        docs = {rel: apply_edits(rng, Doc(text, rel.rsplit(".", 1)[1]), rng.randint(1, 8), pr) for rel, text in files.items()}
        for d in docs.values():            # consistency: every file gets every project-wide rename
            for old, new in pr:
                if ["rename", old, new] not in d.log:
                    d.lines = [re.sub(r"(?<![\w])" + re.escape(old) + (r"(?![\w])" if not old.endswith("_") else ""), new, ln) if i >= HEADER_LINES[d.lang] else ln
                               for i, ln in enumerate(d.lines)]
                    d.log.append(["rename", old, new])
        cases.append((files, docs))
    # corpus: every unit style of each language, edited systematically: (a) a comment line (every third a blank line) after every
    # decorator / attribute line, (b) a comment line at every position where one cannot change the program, (c) trailing white
    # space on every line that does not end in a continuation
    from ..gen_constructs import UNITS, Ids
    for lang in ("py", "ts", "rs"):
        ids, lines = Ids("c" + lang), (['"""Corpus."""', "import os", "from typing import (", "    Any,", "    Optional,", ")", "", "", ""] if lang == "py" else ["use std::fs;", ""] if lang == "rs" else [])
        for fn, styles in UNITS[lang]:
            for style in styles:
                lines += fn(rng, ids, style).lines + [""]
        text = "\n".join(lines) + "\n"
        doc = Doc(text, lang)
        pos_list = [i + 2 for i, ln in enumerate(doc.lines) if ln.strip().startswith(("#[", "@")) and i >= HEADER_LINES[lang]]
        for k, pos in enumerate(reversed(pos_list)):          # bottom-up, so earlier positions stay valid
            line = f"{COMMENT[lang]} between attributes {k}" if k % 3 != 2 else ""
            doc.insert(pos, line)
            doc.log.append(["comment" if line else "blank", pos, line])
        cases.insert(0, ({f"src/corpus.{lang}": text}, {f"src/corpus.{lang}": doc}))
        doc_b = Doc(text, lang)
        inside_string = False
        for k, pos in enumerate(reversed(doc_b.safe_insert_positions())):
            prev = doc_b.lines[pos - 2] if pos >= 2 else ""
            if lang == "py" and prev.count('"""') % 2 == 1:
                continue
            line = f"{'    ' * (k % 3)}{COMMENT[lang]} everywhere {k}"
            doc_b.insert(pos, line)
            doc_b.log.append(["comment", pos, line])
        cases.insert(0, ({f"src/everywhere.{lang}": text}, {f"src/everywhere.{lang}": doc_b}))
        doc_c = Doc(text, lang)
        doc_c.lines = [ln + ("  " if k % 2 else " \t") if k >= HEADER_LINES[lang] and not ln.rstrip().endswith("\\") else ln for k, ln in enumerate(doc_c.lines)]
        doc_c.log.append(["trailing"])
        cases.insert(0, ({f"src/trailing.{lang}": text}, {f"src/trailing.{lang}": doc_c}))
    root = core.scratch_dir("c13")
    try:
        impls = core.pmap(impl_case, [(i, files, {rel: d.render() for rel, d in docs.items()}, str(root)) for i, (files, docs) in enumerate(cases)], procs=16, chunksize=1)
    finally:
        shutil.rmtree(root, ignore_errors=True)
    drv = core.Driver()
    for (files, docs), im in zip(cases, impls):
        res.evaluations += 1
        after_files = {rel: d.render() for rel, d in docs.items()}
        case = {"before": files, "after": after_files, "edits": {rel: d.log for rel, d in docs.items()}}
        for d in docs.values():
            for e in d.log:
                res.bump("edit", e[0])
        if im["errors"]:
            res.disagreements.append(core.Disagreement(case=case, impl=im["errors"][:4], model=None, spec=None, property_fails=True, note=im["errors"][0][:500]))
            continue
        problems = []
        # --- the text-based steps against the Lean functions, and the theorem's hypothesis for every inserted line
        for key, got in im["lines"].items():
            tag, rel = key.split(":", 1)
            text = files[rel] if tag == "before" else after_files[rel]
            lines = text.split("\n")
            m = drv.call({"prop": PROP, "op": "lines", "lines": lines, "marker": "#" if rel.endswith(".py") else "//"})
            if m["norm"] != got["norm"]:
                i = next(i for i, (a, b) in enumerate(zip(m["norm"], got["norm"])) if a != b)
                problems.append(("model", f"normalize_line differs from the model on {lines[i]!r}: {got['norm'][i]!r} vs {m['norm'][i]!r}"))
            if m["code"] != got["code"]:
                i = next(i for i, (a, b) in enumerate(zip(m["code"], got["code"])) if a != b)
                problems.append(("model", f"count_loc line filter differs from the model on {lines[i]!r}"))
            if tag == "after":
                for e in docs[rel].log:
                    if e[0] in ("blank", "comment"):
                        mm = drv.call({"prop": PROP, "op": "lines", "lines": [e[2]], "marker": "#" if rel.endswith(".py") else "//"})
                        if not mm["noise"][0] or mm["code"][0]:
                            problems.append(("model", f"inserted line {e[2]!r} is not noise for the model"))
        # --- metamorphic expectation through the Lean line shift
        mapped = {}
        for rel, d in docs.items():
            want_lines = sorted({v["line"] for v in im["before"] if v["file"] == rel} |
                                {int(x) for v in im["before"] if v["file"] == rel for x in re.findall(r"\bLine (\d+):", v["message"])} |
                                {int(x) for v in im["before"] for f_, s_, e_ in re.findall(r"(src/\S+?\.\w+):(\d+)-(\d+)", v["message"]) if f_ == rel for x in (s_, e_)})
            ms = drv.call({"prop": PROP, "op": "shift", "positions": d.inserts, "lines": want_lines})["mapped"]
            mapped[rel] = dict(zip(want_lines, ms))
        shifted_above = False

        def norm_msg(msg, remap, own=None):
            if remap and own in mapped:
                # cqs messages list the lines of the operations they found ("Line 12: x = fetch()")
                msg = re.sub(r"\bLine (\d+):", lambda mo: f"Line {mapped[own].get(int(mo.group(1)), int(mo.group(1)))}:", msg)

            def rep(mo):
                f_, s_, e_ = mo.group(1), int(mo.group(2)), int(mo.group(3))
                if remap and f_ in mapped:
                    s_, e_ = mapped[f_].get(s_, s_), mapped[f_].get(e_, e_)
                return f"{f_}:{s_}-{e_}"
            msg = re.sub(r"(src/\S+?\.\w+):(\d+)-(\d+)", rep, msg)
            # the size a duplicate-code message states is the raw span of the block (it follows the S-E range, which is mapped above)
            msg = re.sub(r"^Duplicate code \(\d+ lines", "Duplicate code (K lines", msg)
            # quoted source lines (Rust safety linters) are compared without their layout
            return " ".join(msg.split())
        renamed = {rel: {(e[1], e[2]) for e in d.log if e[0] == "rename"} for rel, d in docs.items()}

        def apply_renames(msg, rel):
            for old, new in renamed.get(rel, ()):
                msg = re.sub(r"(?<![\w])" + re.escape(old) + (r"(?![\w])" if not old.endswith("_") else ""), new, msg)
            return msg
        exp = []
        for v in im["before"]:
            nl = mapped.get(v["file"], {}).get(v["line"], v["line"])
            shifted_above = shifted_above or nl != v["line"]
            exp.append([v["rule"], v["file"], nl, norm_msg(apply_renames(v["message"], v["file"]), True, v["file"])])
        got = [[v["rule"], v["file"], v["line"], norm_msg(v["message"], False)] for v in im["after"]]
        # dry messages list ranges of *other* files too: renames inside those are not applied (dup blocks are never renamed)
        exp.sort()
        got.sort()
        if len(im["before"]) >= 3 and shifted_above:
            res.nontrivial.add(str(res.evaluations))
        res.bump("findings_before", min(len(im["before"]), 40))
        if exp != got:
            extra = [g for g in got if g not in exp][:3]
            missing = [e for e in exp if e not in got][:3]
            problems.append(("spec", f"after the edits: appeared {extra} disappeared {missing}"))
        if problems:
            fails = any(k == "spec" for k, _ in problems)
            res.disagreements.append(core.Disagreement(case=case, impl={"before": len(im["before"]), "after": len(im["after"])}, model=None, spec="C13 statement",
                                                       property_fails=fails, note=" | ".join(p for _, p in problems[:5])[:2500]))
        if len(res.samples) < 2 and len(im["before"]) >= 3:
            res.samples.append({"edits": case["edits"], "findings": len(im["before"])})
    drv.close()
    return res


def replay(path: str, st: core.ProofStatus) -> int:
    data = json.loads(Path(path).read_text())
    case = data.get("case") or data.get("witness")
    print(json.dumps({k: v for k, v in data.items() if k != "case"}, indent=1)[:3000])
    if case and "before" in case:
        root = core.scratch_dir("c13r")
        r = impl_case((0, case["before"], case["after"], str(root)))
        print(json.dumps({"before": [[v["rule"], v["file"], v["line"]] for v in r.get("before", [])], "after": [[v["rule"], v["file"], v["line"]] for v in r.get("after", [])],
                          "edits": case.get("edits")}, indent=0)[:3000])
        shutil.rmtree(root, ignore_errors=True)
    print(f"VIOLATION property={PROP} replay={path}")
    return 1
