"""C14 — which files a run lints.  Real directory trees in a scratch project, probed through
`thailint file-placement` with a deny-everything rule (every linted file yields exactly one violation,
whatever its type), compared with the Lean model (`linted`) and the specification (`specLinted`)."""
from __future__ import annotations

import json
import multiprocessing as mp
import os
import shutil
from pathlib import Path

from .. import core

PROP = "C14"
LEVEL_NOTE = ("theorems range over all directory trees and the documented pattern forms; os.walk / fnmatch are "
              "re-stated in Lean (Glob) and compared with the real ones on every generated tree")

PROBE_CFG = ('file-placement:\n  global_deny:\n    - pattern: ".*"\n      reason: "probe"\n'
             'dry:\n  enabled: true\n  min_duplicate_lines: 3\n  detect_duplicate_constants: false\n')
# every file holds the same block: each linted source file is a duplicate of every other one, so the cross-file pass shows which
# files contributed evidence (an excluded or ignored file must never be named, neither as the place of a finding nor as "also found in")
FILE_TEXT = ("def f(items, channel, storage):\n    total = compute_total(items)\n    average = total / max(len(items), 1)\n    report = build_report(total, average)\n"
             "    publish(report, channel)\n    archive(report, storage)\n    return 4242\n")


def tables():
    from src.orchestrator import core as oc
    return sorted(oc._HARDCODED_EXCLUDE_DIRS), sorted(oc._HARDCODED_EXCLUDE_EXTENSIONS)  # noqa: SLF001


# ----------------------------------------------------------------------------- generator
PLAIN_DIRS = ["src", "sub", "gen", "generic", "gen_utils", "lib", "pkg", ".hidden", "docs", "a.b", "deep", "checks", "buildx", "xbuild",
              "api_generated", "db_generated", "old.bak"]
PLAIN_FILES = ["a.py", "b.ts", "c.rs", "generic.py", "gen", "notes.txt", "Makefile", ".env", "gen_utils.py", "x.tar.gz", "mod.pyx",
               "data.json", "lib.rs", "main.js", "README.md"]


def gen_tree(rng, excl_dirs, excl_exts, depth=0):
    nodes = []
    used = set()
    for _ in range(rng.choice([1, 2, 3, 4])):
        r = rng.random()
        if r < 0.12:
            name = "m" + rng.choice(excl_exts)                      # compiled artefact
        elif r < 0.18:
            name = rng.choice([d for d in excl_dirs if "*" not in d])   # a *file* named like an excluded directory
        else:
            name = rng.choice(PLAIN_FILES)
        if name in used:
            continue
        used.add(name)
        nodes.append({"f": name})
    if depth < 4:
        for _ in range(rng.choice([0, 1, 2, 2, 3]) if depth < 3 else rng.choice([0, 1])):
            r = rng.random()
            if r < 0.25:
                name = rng.choice([d for d in excl_dirs if "*" not in d] + ["pkg.egg-info"])
            elif r < 0.33:
                # the same names in another letter case are ordinary directories (the comparison is exact)
                name = rng.choice(["Build", "DIST", "Venv", "Node_Modules", "__PYCACHE__", "Pkg.Egg-Info", ".Git", "BUILD"])
            else:
                name = rng.choice(PLAIN_DIRS)
            if name in used:
                continue
            used.add(name)
            nodes.append({"d": name, "k": gen_tree(rng, excl_dirs, excl_exts, depth + 1)})
    return nodes


def gen_forms(rng, tree):
    names = ["gen", "sub", "lib", "deep", "docs", "checks", ".hidden", "generic", "a.b", "src"]
    forms = []
    for _ in range(rng.choice([0, 1, 1, 2, 3])):
        k = rng.choice(["dir", "dir", "anydir", "anydir", "ext", "ext", "exact", "globdir", "globdir", "dirpath", "dirpath", "anyfile", "anyfile"])
        if k == "anyfile":
            # `**/name` : a file of that name at any depth - half of the time a name that occurs at the top level of the tree
            files = all_files(tree)
            top = [f for f in files if len(f) == 1]
            pick = rng.choice(top) if (top and rng.random() < 0.5) else (rng.choice(files) if files else None)
            if pick:
                forms.append({"form": "anyfile", "n": pick[-1]})
            continue
        if k == "dirpath":
            # a directory given by its path from the root (two components), with whatever lies below it at any depth
            two = [[n["d"], m["d"]] for n in tree if "d" in n for m in n["k"] if "d" in m]
            if not two:
                continue
            forms.append({"form": "dirpath", "p": rng.choice(two)})
            continue
        if k in ("dir", "anydir"):
            forms.append({"form": k, "n": rng.choice(names)})
        elif k == "globdir":
            forms.append({"form": "globdir", "any": rng.random() < 0.5, "n": rng.choice(["*_generated", "*.bak", "ge?", "*b", "gen*", "*"])})
        elif k == "ext":
            forms.append({"form": "ext", "n": rng.choice([".py", ".ts", ".txt", ".gz", ".json", ".rs", ".md"])})
        else:
            files = all_files(tree)
            if files:
                forms.append({"form": "exact", "p": rng.choice(files)})
    return forms


def all_files(tree, pre=()):
    out = []
    for n in tree:
        if "f" in n:
            out.append(list(pre) + [n["f"]])
        else:
            out += all_files(n["k"], tuple(pre) + (n["d"],))
    return out


def write_tree(root: Path, tree):
    for n in tree:
        if "f" in n:
            (root / n["f"]).write_text(FILE_TEXT)
        else:
            (root / n["d"]).mkdir()
            write_tree(root / n["d"], n["k"])


# ----------------------------------------------------------------------------- implementation side

def impl_case(args) -> dict:
    idx, case, patterns, root = args
    proj = Path(root) / f"p{idx}" / "proj"
    proj.mkdir(parents=True)
    out = {"errors": []}
    try:
        write_tree(proj, case["tree"])
        if case["carrier"] == "thailintignore":
            (proj / ".thailint.yaml").write_text(PROBE_CFG)
            # (a third of the ignore files start with a byte-order mark, and then directly with the first pattern)
            bom = "\ufeff" if (idx % 3 == 0) else ""
            (proj / ".thailintignore").write_text(bom + ("" if bom else "# repository ignores\n\n") + "".join(p + "\n" for p in patterns), encoding="utf-8")
        else:
            (proj / ".thailint.yaml").write_text(PROBE_CFG + "ignore:\n" + "".join(f'  - "{p}"\n' for p in patterns) if patterns
                                                 else PROBE_CFG)
        target_abs = proj.joinpath(*case["rel"])
        if case["spelling"] == "dot":
            cwd, target = target_abs, "."
        elif case["spelling"] == "rel":
            cwd, target = proj, (os.path.join(*case["rel"]) if case["rel"] else ".")
        elif case["spelling"] == "dotdot":
            # through an existing sibling directory and back: `sd/../<rel>` from the root, or `../<rel>` from inside `sd`
            sd = case["via"]
            if case["via_cwd"]:
                cwd, target = proj / sd, os.path.join("..", *case["rel"])
            else:
                cwd, target = proj, os.path.join(sd, "..", *case["rel"])
        else:
            cwd, target = proj, str(target_abs)
        # explicit project root: root *detection* (marker search) is C09's subject, and trees here contain `.git` dirs
        args_ = ["--project-root", str(proj), "file-placement", "--format", "json"] + ([] if case["recursive"] else ["--no-recursive"]) + [target]
        code, stdout = core.run_cli(args_, cwd=cwd)
        vs = core.violations_json(stdout)
        if vs is None:
            out["errors"].append(f"exit {code}: {stdout[:300]}")
        else:
            def _abs(fp):
                # file-placement prints paths relative to the project root (here given explicitly); only when such a path does not
                # exist is the spelling taken relative to the working directory (a nested directory named like the target makes
                # both readings exist, so the order matters)
                b = os.path.join(proj, fp)
                return b if os.path.lexists(b) else os.path.join(cwd, fp)
            got = sorted({os.path.relpath(_abs(v["file_path"]), target_abs) for v in vs})
            out["linted"] = got
            out["dups"] = len(vs) - len(got)
            out["exit"] = code
        if case.get("other_config"):
            # the run is told to use another configuration file (beside the project, without an ignore list): the list of the
            # project's own .thailint.yaml is then not the configuration in use
            other = Path(root) / f"p{idx}" / "ci.yaml"
            other.write_text(PROBE_CFG)
            a5 = ["--project-root", str(proj), "file-placement", "--config", str(other), "--format", "json"] + ([] if case["recursive"] else ["--no-recursive"]) + [target]
            code5, stdout5 = core.run_cli(a5, cwd=cwd)
            vs5 = core.violations_json(stdout5)
            if vs5 is None:
                out["errors"].append(f"--config ci.yaml: exit {code5}: {stdout5[:300]}")
            else:
                out["linted_other_config"] = sorted({os.path.relpath(_abs(v["file_path"]), target_abs) for v in vs5})
        if case.get("parallel"):
            # second probe through a command that has --parallel: magic-numbers sees the .py files of the linted set
            a2 = (["--project-root", str(proj), "magic-numbers", "--format", "json", "--parallel"]
                  + ([] if case["recursive"] else ["--no-recursive"]) + [target])
            code2, stdout2 = core.run_cli(a2, cwd=cwd)
            vs2 = core.violations_json(stdout2)
            if vs2 is None:
                out["errors"].append(f"magic-numbers --parallel: exit {code2}: {stdout2[:300]}")
            else:
                out["linted_py_parallel"] = sorted({os.path.relpath(os.path.join(cwd, v["file_path"]), target_abs) for v in vs2})
            # third probe: the cross-file pass (duplicate code) sequentially and in parallel - places and "also found in" references
            for mode, extra in (("seq", []), ("par", ["--parallel"])):
                a4 = ["--project-root", str(proj), "dry", "--format", "json"] + extra + ([] if case["recursive"] else ["--no-recursive"]) + [target]
                code4, stdout4 = core.run_cli(a4, cwd=cwd)
                vs4 = core.violations_json(stdout4)
                if vs4 is None:
                    out["errors"].append(f"dry {mode}: exit {code4}: {stdout4[:300]}")
                    continue
                import re as _re
                # (duplicate-code findings spell their own file as the run was given it, i.e. relative to the working directory)
                places = {os.path.relpath(os.path.join(cwd, v["file_path"]), target_abs) for v in vs4}
                refs = set()
                for v in vs4:
                    for ref in _re.findall(r"([^\s,;()]+?):\d+-\d+", v["message"]):
                        # a path in a message may be spelled from the project root or from the working directory: keep every reading
                        # that names an existing file (a nested directory can make both exist)
                        cands = sorted({os.path.relpath(c_, target_abs) for c_ in (os.path.join(proj, ref), os.path.join(cwd, ref)) if os.path.lexists(c_)})
                        refs.add("|".join(cands) if cands else ref)
                out[f"dry_{mode}"] = {"places": sorted(places), "refs": sorted(refs)}
        # several targets in one run (relative spellings from the project root)
        if case.get("targets"):
            spelled = [os.path.join(*(t.get("dir") or t.get("file"))) if (t.get("dir") or t.get("file")) else "." for t in case["targets"]]
            a3 = ["--project-root", str(proj), "file-placement", "--format", "json"] + ([] if case["recursive"] else ["--no-recursive"]) + spelled
            code3, stdout3 = core.run_cli(a3, cwd=proj)
            vs3 = core.violations_json(stdout3)
            if vs3 is None:
                out["errors"].append(f"several targets {spelled}: exit {code3}: {stdout3[:300]}")
            else:
                got3 = sorted({os.path.relpath(os.path.join(proj, v["file_path"]), proj) for v in vs3})
                out["multi"] = got3
                out["multi_dups"] = len(vs3) - len(got3)
        # explicitly named files
        exp = []
        if case["explicit"]:
            paths = [str(target_abs.joinpath(*p)) for p in case["explicit"]]
            code, stdout = core.run_cli(["--project-root", str(proj), "file-placement", "--format", "json"] + paths, cwd=proj)
            vs = core.violations_json(stdout) or []
            rep = {os.path.relpath(os.path.join(proj, v["file_path"]), target_abs) for v in vs}
            exp = [{"path": "/".join(p), "linted": "/".join(p) in rep} for p in case["explicit"]]
        out["explicit"] = exp
        out["above"] = [p for p in (Path(cwd) / target).parts] if case["spelling"] == "abs" else (
            [] if target == "." else list(Path(target).parts))
    except Exception as exc:  # noqa: BLE001
        out["errors"].append(f"{type(exc).__name__}: {exc}")
    finally:
        shutil.rmtree(Path(root) / f"p{idx}", ignore_errors=True)
    return out


def above_parts(case, root, idx):
    """components of the path the implementation sees in front of the target-relative part"""
    proj = Path(root) / f"p{idx}" / "proj"
    if case["spelling"] == "abs":
        return list(proj.joinpath(*case["rel"]).parts)
    if case["spelling"] == "rel":
        return list(case["rel"])
    return []


def gen_case(rng, excl_dirs, excl_exts):
    tree = gen_tree(rng, excl_dirs, excl_exts)
    subdirs = [n["d"] for n in tree if "d" in n and n["d"] not in excl_dirs and not n["d"].endswith(".egg-info")]
    rel = [rng.choice(subdirs)] if (subdirs and rng.random() < 0.25) else []
    carrier = rng.choice(["thailintignore", "yaml"])
    sub = tree
    for r in rel:
        sub = next(n["k"] for n in sub if n.get("d") == r)
    files = all_files(sub)
    explicit = rng.sample(files, min(len(files), rng.choice([0, 2, 3])))
    case = {"tree": tree, "rel": rel, "carrier": carrier, "recursive": rng.random() < 0.7, "parallel": rng.random() < 0.3,
            "spelling": rng.choice(["dot", "rel", "abs", "dotdot"]), "forms": gen_forms(rng, sub), "explicit": explicit}
    if case["parallel"] and not rel:
        # enough files for the process pool to be used (2 x workers)
        tree.append({"d": "bulk", "k": [{"f": f"b{i:02d}.py"} for i in range(16)]})
    if carrier == "yaml" and case["forms"] and rng.random() < 0.5:
        case["other_config"] = True
    top_dirs = [n["d"] for n in tree if "d" in n]
    if case["spelling"] == "dotdot":
        if top_dirs:
            case["via"], case["via_cwd"] = rng.choice(top_dirs), rng.random() < 0.5
        else:
            case["spelling"] = "rel"
    if not rel and rng.random() < 0.5:
        # several targets: directories (also nested, excluded-named, named twice, one inside another) and files (also inside a
        # named directory)
        dirs = [[d] for d in top_dirs]
        for n in tree:
            if "d" in n:
                dirs += [[n["d"], k["d"]] for k in n["k"] if "d" in k]
        pool = [{"dir": d} for d in dirs] + [{"file": list(f)} for f in all_files(tree)]
        if pool:
            ts = [rng.choice(pool) for _ in range(rng.choice([2, 2, 3, 4]))]
            if rng.random() < 0.2:
                ts.append(ts[0])
            if rng.random() < 0.15:
                ts.append({"dir": []})
            case["targets"] = ts
            case["recursive"] = rng.random() < 0.5
    return case


def subtree(tree, rel):
    for r in rel:
        tree = next(n["k"] for n in tree if n.get("d") == r)
    return tree


def with_config_files(case, tree_at_target):
    """the probe config (and .thailintignore) are regular files of the project root: part of the tree"""
    extra = []
    if not case["rel"]:
        extra.append({"f": ".thailint.yaml"})
        if case["carrier"] == "thailintignore":
            extra.append({"f": ".thailintignore"})
    return tree_at_target + extra


def evaluate(cases, res: core.Result, procs=16):
    root = core.scratch_dir("c14")
    reqs = []
    for i, c in enumerate(cases):
        t = with_config_files(c, subtree(c["tree"], c["rel"]))
        reqs.append({"prop": PROP, "tree": t, "forms": c["forms"], "recursive": c["recursive"],
                     "rel": c["rel"], "explicit": c["explicit"], "targets": c.get("targets", [])})
    drv = core.Driver()
    leans = drv.batch(reqs)
    # the same run under a configuration without an ignore list
    bare = {i: r for i, r in enumerate(reqs) if cases[i].get("other_config")}
    for i, l0 in zip(bare, drv.batch([{**r, "forms": []} for r in bare.values()])):
        leans[i]["linted_no_list"] = sorted(l0["linted"])
    drv.close()
    try:
        if True:
            impls = core.pmap(impl_case, [(i, c, l["patterns"], str(root)) for i, (c, l) in enumerate(zip(cases, leans))], procs=procs, chunksize=4)
    finally:
        shutil.rmtree(root, ignore_errors=True)
    for c, l, im in zip(cases, leans, impls):
        res.evaluations += 1
        res.bump("spelling", c["spelling"])
        res.bump("carrier", c["carrier"])
        res.bump("recursive", c["recursive"])
        res.bump("parallel", bool(c.get("parallel")))
        res.bump("n_files", min(len(l["universe"]), 30) // 5 * 5)
        for f in c["forms"]:
            res.bump("form", f["form"])
        model, spec = sorted(l["linted"]), sorted(l["spec"])
        if len(l["universe"]) > len(model):
            res.nontrivial.add(core.canon({k: c[k] for k in ("tree", "forms", "rel", "recursive")}))
        problems, fails = [], False
        if im["errors"]:
            problems.append("; ".join(im["errors"]))
            fails = True
        else:
            if im["linted"] != model:
                problems.append(f"linted set: implementation-only {sorted(set(im['linted']) - set(model))}, model-only {sorted(set(model) - set(im['linted']))}")
                if im["linted"] != spec:
                    fails = True
            if "linted_py_parallel" in im:
                SRC = (".py", ".js", ".ts", ".rs")
                want = [p for p in model if p.endswith(SRC)]
                if im["linted_py_parallel"] != want:
                    problems.append(f"--parallel run (magic-numbers probe) linted {im['linted_py_parallel']}, model {want}")
                    if im["linted_py_parallel"] != [p for p in spec if p.endswith(SRC)]:
                        fails = True
            if "linted_other_config" in im:
                res.bump("other configuration in use", "differs from own list" if l["linted_no_list"] != model else "same set")
                if im["linted_other_config"] != l["linted_no_list"]:
                    problems.append(f"run with --config <file without ignore list>: implementation-only {sorted(set(im['linted_other_config']) - set(l['linted_no_list']))}, "
                                    f"model-only {sorted(set(l['linted_no_list']) - set(im['linted_other_config']))} (the project's own .thailint.yaml lists {l['patterns']})")
                    fails = True
            if "multi" in im:
                res.bump("several targets", f"{len(c['targets'])} targets, " + ("recursive" if c["recursive"] else "--no-recursive"))
                want = sorted(l["multi"])
                if im["multi"] != want:
                    problems.append(f"run with targets {c['targets']} ({'recursive' if c['recursive'] else '--no-recursive'}): implementation-only "
                                    f"{sorted(set(im['multi']) - set(want))}, model-only {sorted(set(want) - set(im['multi']))}")
                    if not l["deviations"]:
                        fails = True
                # (a run whose targets are all files lints the list as given: a file named twice is linted twice; with a
                #  directory among the targets the run is merged and every file is linted once)
                if im.get("multi_dups") and any("dir" in t for t in c["targets"]):
                    problems.append(f"{im['multi_dups']} file(s) reported more than once in a run with several targets")
                    fails = True
            for mode in ("seq", "par"):
                dd = im.get(f"dry_{mode}")
                if dd:
                    res.bump("cross-file probe", f"dry {mode}")
                    outside = sorted((set(dd["places"]) - set(model)) | {r for r in dd["refs"] if not (set(r.split("|")) & set(model))})
                    if outside:
                        problems.append(f"dry ({'--parallel' if mode == 'par' else 'sequential'}): files that are not linted appear as the place of a finding or as 'also found in': {outside[:4]}")
                        if not l["deviations"]:
                            fails = True
            if im.get("dry_seq") and im.get("dry_par") and im["dry_seq"] != im["dry_par"]:
                problems.append(f"dry: sequential and --parallel name different files: {sorted(set(im['dry_seq']['places']) ^ set(im['dry_par']['places']))[:4]}")
                fails = True
            if im.get("dups"):
                problems.append(f"{im['dups']} file(s) reported more than once")
                fails = True
            for e_i, e_m in zip(im["explicit"], l["explicit"]):
                if e_i["linted"] != e_m["linted"]:
                    problems.append(f"explicitly named {e_i['path']}: implementation linted={e_i['linted']} model={e_m['linted']} spec={e_m['spec']}")
                    if e_i["linted"] != e_m["spec"]:
                        fails = True
        if problems:
            res.disagreements.append(core.Disagreement(case=c, impl=im, model=model, spec=spec, property_fails=fails,
                                                       note=" | ".join(problems)[:2500]))
        else:
            for d in l["deviations"]:
                for fid in d["explain"]:
                    res.findings.setdefault(fid, {"path": d["path"], "patterns": l["patterns"], "case": c,
                                                  "linted_by_impl": d["path"] in im["linted"]})
            for e_m in l["explicit"]:
                if e_m["linted"] != e_m["spec"]:
                    pass   # same deviations as above, seen through explicit naming
        if len(res.samples) < 3 and c["forms"] and len(l["universe"]) > 6:
            res.samples.append({"patterns": l["patterns"], "files": l["universe"][:12], "linted": model[:12],
                                "recursive": c["recursive"], "spelling": c["spelling"], "rel": c["rel"]})


def table_cases(excl_dirs, excl_exts):
    """every entry of the regenerated tables, at depth 0, 1 and 3, plus a file named like it"""
    cases = []
    for d in excl_dirs + ["x.egg-info"]:
        if "*" in d:
            continue
        tree = [{"f": "top.py"}, {"d": d, "k": [{"f": "in0.py"}]},
                {"d": "a", "k": [{"d": d, "k": [{"f": "in1.py"}]}, {"f": "ok1.py"},
                                 {"d": "b", "k": [{"d": "c", "k": [{"d": d, "k": [{"d": "e", "k": [{"f": "in3.py"}]}]}]}]}]}]
        cases.append({"tree": tree, "rel": [], "carrier": "yaml", "recursive": True, "spelling": "dot", "forms": [],
                      "explicit": [[d, "in0.py"], ["top.py"]]})
    for e in excl_exts:
        tree = [{"f": "m" + e}, {"f": "keep" + e + ".py"}, {"d": "a", "k": [{"f": "n" + e}, {"f": "ok.py"}]}]
        cases.append({"tree": tree, "rel": [], "carrier": "thailintignore", "recursive": True, "spelling": "rel", "forms": [],
                      "explicit": [["m" + e], ["a", "ok.py"]]})
    return cases


def run(tier: str, seed: int, st: core.ProofStatus) -> core.Result:
    res = core.Result()
    res.rule = ("seeded random directory trees (depth <= 5, hidden dirs, every always-excluded name at any depth, compiled "
                "suffixes, files named like excluded dirs) x documented pattern forms (name/, **/name/, *.ext, exact path) in "
                ".thailintignore or `ignore:` x recursive/non-recursive x ./relative/absolute target x explicit file arguments; "
                "plus one case per entry of the regenerated exclusion tables; non-trivial = at least one file is excluded or ignored")
    rng = core.sub_rng(seed, PROP, tier)
    excl_dirs, excl_exts = tables()
    cases = []
    corpus = core.VERIF / "harness" / "corpus" / PROP
    if corpus.is_dir():
        for f in sorted(corpus.glob("*.json")):
            cases.append(json.loads(f.read_text()))
    cases += table_cases(excl_dirs, excl_exts)
    for _ in range(400 if tier == "quick" else 4000):
        cases.append(gen_case(rng, excl_dirs, excl_exts))
    evaluate(cases, res)
    res.assumptions += ["no symlinks, no unreadable directories", "path components never contain '/' or glob metacharacters other than in patterns"]
    return res


def replay(path: str, st: core.ProofStatus) -> int:
    data = json.loads(Path(path).read_text())
    case = data.get("case") or (data.get("witness") or {}).get("case")
    if not case:
        print("replay file names a proof obligation only:", json.dumps(data.get("no_longer_checks")))
        return 1
    res = core.Result()
    evaluate([case], res, procs=1)
    for d in res.disagreements:
        print("DISAGREEMENT:", d.note)
    for fid, w in res.findings.items():
        print(f"finding {fid} reproduced on {w['path']} with patterns {w['patterns']}")
    if res.disagreements or res.findings:
        print(f"VIOLATION property={PROP} replay={path}")
        return 1
    print("replay: implementation, model and specification agree on this case")
    return 0
