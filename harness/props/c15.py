"""C15 — each command reports only its own rules; rules fire only on their languages.
Matrix: every linter command x files of every supported / unsupported extension (and letter-case
variants, extensionless with and without a python shebang) x content written in Python, TypeScript
and Rust that triggers those languages' rules x perturbations of *other* linters' config sections."""
from __future__ import annotations

import json
import multiprocessing as mp
import shutil
from collections import Counter
from pathlib import Path

from .. import core

PROP = "C15"
LEVEL_NOTE = ("finite tables (commands, rule ids, filters, extension map) are regenerated from /repo and the theorems are "
              "decided over them by the kernel; the language guards of individual rules are observed through the CLI matrix")

DATA = core.VERIF / "harness" / "data"
CONTENT = {k: (DATA / f"trig.{k}.txt").read_text() for k in ("py", "ts", "rs")}
EXTS = [".py", ".PY", ".Py", ".ts", ".TS", ".tsx", ".TSX", ".js", ".JS", ".jsx", ".rs", ".RS", ".Rs",
        ".java", ".go", ".txt", ".md", ".pyw", ".pyi", ".rst", ".c", "", "#!py", "#!sh", "#!py-bom", "@txt->py", "@py->txt", "@->py"]
# "#!py-bom": a python shebang behind a byte-order mark; "@a->b": a symbolic link whose own name has suffix a (none for "@->py") and
# whose target has suffix b: a file is what its own name (and, without suffix, its first line) says
NOT_SOURCE = {"file-placement", "file-header", "lazy-ignores"}

# settings of other linters' sections that must not change command X's findings
PERTURB = {
    "nesting": {"max_nesting_depth": 1}, "srp": {"max_methods": 1, "max_loc": 5}, "magic-numbers": {"enabled": False},
    "print-statements": {"enabled": False}, "method-property": {"enabled": False}, "stateless-class": {"enabled": False},
    "lbyl": {"enabled": False}, "performance": {"enabled": False}, "unwrap-abuse": {"allow_in_tests": False},
    "dry": {"enabled": True, "min_duplicate_lines": 2}, "stringly-typed": {"enabled": False},
}
# values of the wrong type in *another* linter's section (a quoted number, a float, null, a per-language override): that linter
# may misbehave, command X must not notice (values the owning linter documents as invalid, e.g. a non-positive limit, end the
# whole run with exit 2: that is C05's subject and is not used here)
MISTYPED = [("nesting", {"max_nesting_depth": "2"}), ("nesting", {"max_nesting_depth": None}), ("nesting", {"max_nesting_depth": 2.5}),
            ("nesting", {"typescript": {"max_nesting_depth": "2"}, "rust": {"max_nesting_depth": "2"}, "python": {"max_nesting_depth": "2"}}),
            ("srp", {"max_methods": "3"}), ("srp", {"python": {"max_loc": "10"}, "typescript": {"max_loc": "10"}, "rust": {"max_loc": "10"}}),
            ("magic-numbers", {"max_small_integer": "7"}), ("print-statements", {"allow_in_scripts": "yes"}),
            ("method-property", {"max_body_statements": "3"}), ("stateless-class", {"min_methods": "2"}), ("dry", {"enabled": True, "min_duplicate_lines": "4"})]
SECTION_OF = {"nesting": "nesting", "srp": "srp", "magic-numbers": "magic-numbers", "print-statements": "print-statements",
              "improper-logging": "print-statements", "method-property": "method-property", "stateless-class": "stateless-class",
              "lbyl": "lbyl", "perf": "performance", "string-concat-loop": "performance", "regex-in-loop": "performance",
              "unwrap-abuse": "unwrap-abuse", "dry": "dry", "stringly-typed": "stringly-typed"}


def commands():
    from src.cli_main import cli
    return sorted(c for c in cli.commands if c not in ("config", "hello", "init-config"))


def file_for(ext: str, content_key: str, idx: int):
    body = CONTENT[content_key]
    if ext == "#!py":
        return f"script{idx}", "#!/usr/bin/env python3\n" + body, "", "#!/usr/bin/env python3"
    if ext == "#!sh":
        return f"script{idx}", "#!/bin/sh\n" + body, "", "#!/bin/sh"
    if ext == "#!py-bom":
        return f"script{idx}", "\ufeff#!/usr/bin/env python3\n" + body, "", "#!/usr/bin/env python3"
    if ext.startswith("@"):
        own, target = ext[1:].split("->")
        own_suffix = "." + own if own else ""
        # name of the link, content of the target, and "LINK:<target name>" smuggled in front of the text for impl_case
        return f"link{idx}{own_suffix}", f"LINK:real{idx}.{target}\n" + body, own_suffix, body.split("\n")[0]
    return f"mod{idx}{ext}", body, ext, body.split("\n")[0]


def impl_case(args):
    idx, name, text, cmds, cfg, root = args
    import yaml
    proj = Path(root) / f"q{idx}"
    proj.mkdir(parents=True)
    out = {"errors": [], "by_cmd": {}}
    try:
        if text.startswith("LINK:"):
            head, _, real_text = text.partition("\n")
            (proj / "targets").mkdir()
            (proj / "targets" / head[5:]).write_text(real_text)
            (proj / name).symlink_to(Path("targets") / head[5:])
        else:
            (proj / name).write_text(text, encoding="utf-8")
        if cfg is not None:
            (proj / ".thailint.yaml").write_text(yaml.safe_dump(cfg))
        for c in cmds:
            code, stdout = core.run_cli(["--project-root", str(proj), c, "--format", "json", str(proj / name)], cwd=proj)
            vs = core.violations_json(stdout)
            if vs is None:
                out["errors"].append(f"{c}: exit {code}: {stdout[:200]}")
                continue
            out["by_cmd"][c] = {"exit": code, "vs": sorted([v["rule_id"], v["line"], v["column"], v["message"]] for v in vs)}
        # unfiltered view of the same file through the orchestrator
        core._reset_singletons()
        from src.orchestrator.core import Orchestrator
        orch = Orchestrator(project_root=proj)
        allv = orch.lint_files([proj / name])
        out["all"] = sorted([v.rule_id, v.line, v.column, v.message] for v in allv)
    except Exception as exc:  # noqa: BLE001
        out["errors"].append(f"{type(exc).__name__}: {exc}")
    finally:
        shutil.rmtree(proj, ignore_errors=True)
    return out


def pair_case(args):
    """two copies of one file in a project with the cross-file linters switched on: duplicate-code and stringly-typed findings
    are source analysis too and must respect the file type"""
    idx, ext, ck, root = args
    proj = Path(root) / f"pa{idx}"
    proj.mkdir(parents=True)
    out = {"errors": [], "by_cmd": {}}
    try:
        for tag in ("a", "b"):
            name, text, _suffix, _first = file_for(ext, ck, f"{idx}{tag}")
            (proj / name).write_text(text)
        (proj / ".thailint.yaml").write_text("dry:\n  enabled: true\n  min_duplicate_lines: 3\nstringly-typed:\n  enabled: true\n")
        for c in ("dry", "stringly-typed"):
            code, stdout = core.run_cli(["--project-root", str(proj), c, "--format", "json", "."], cwd=proj)
            vs = core.violations_json(stdout)
            if vs is None:
                out["errors"].append(f"{c}: exit {code}: {stdout[:200]}")
                continue
            out["by_cmd"][c] = {"exit": code, "vs": sorted([v["rule_id"], Path(v["file_path"]).name, v["line"]] for v in vs)}
    except Exception as exc:  # noqa: BLE001
        out["errors"].append(f"{type(exc).__name__}: {exc}")
    finally:
        shutil.rmtree(proj, ignore_errors=True)
    return out


def multi_case(args):
    """several files of unmapped / missing extension in ONE run: each file's language is decided by that
    file alone, so the run reports the union of the single-file runs, in every argument order"""
    idx, order, cmds, root = args
    proj = Path(root) / f"mu{idx}"
    proj.mkdir(parents=True)
    out = {"errors": [], "single": {}, "together": {}, "directory": {}}
    files = {"deploy": "#!/usr/bin/env python3\n" + CONTENT["py"], "NOTES": "Release notes: 4242 things (see { } and if/for)\n" * 3,
             "tool": "#!/bin/sh\n" + CONTENT["py"], "runner": "#!/usr/bin/python\n" + CONTENT["py"].replace("deep", "deeper"),
             "data.cfg": CONTENT["py"], "script.cfg": "#!/usr/bin/env python\n" + CONTENT["py"], "a.py": CONTENT["py"]}
    try:
        for n, t in files.items():
            (proj / n).write_text(t)
        def run(c, names):
            code, stdout = core.run_cli(["--project-root", str(proj), c, "--format", "json"] + names, cwd=proj)
            vs = core.violations_json(stdout)
            return None if vs is None else sorted([v["file_path"], v["rule_id"], v["line"], v["message"]] for v in vs)
        for c in cmds:
            out["single"][c] = {n: run(c, [n]) for n in files}
            out["together"][c] = run(c, order)
            out["directory"][c] = run(c, ["."])
    except Exception as exc:  # noqa: BLE001
        out["errors"].append(f"{type(exc).__name__}: {exc}")
    finally:
        shutil.rmtree(proj, ignore_errors=True)
    return out


def run(tier: str, seed: int, st: core.ProofStatus) -> core.Result:
    res = core.Result()
    res.rule = ("exhaustive matrix: 24 file-name variants (extensions in several letter cases, unsupported extensions, "
                "extensionless with python / sh shebang) x 3 content languages x every linter command, plus per command "
                "perturbations of other linters' config sections (seeded sample in quick tier, all in thorough); a case is "
                "non-trivial when the unfiltered run reports at least two different linters' rules")
    rng = core.sub_rng(seed, PROP, tier)
    cmds = commands()
    drv = core.Driver()
    work, meta = [], []
    idx = 0
    root = core.scratch_dir("c15")
    for ext in EXTS:
        for ck in ("py", "ts", "rs"):
            name, text, suffix, first = file_for(ext, ck, idx)
            det = drv.call({"prop": PROP, "op": "detect", "suffix": suffix, "nonEmpty": True, "firstLine": first})
            work.append((idx, name, text, cmds, None, str(root)))
            meta.append({"ext": ext, "content": ck, "name": name, "detect": det, "cfg": None, "base": None})
            idx += 1
    # perturbation runs: native content only
    base_index = {(m["ext"], m["content"]): i for i, m in enumerate(meta)}
    pert = [(sec, val) for sec, val in PERTURB.items()] + MISTYPED
    combos = [(e, ck) for e, ck in ((".py", "py"), (".ts", "ts"), (".rs", "rs"))]
    chosen = [(e, ck, sec, val) for e, ck in combos for sec, val in pert]
    if tier == "quick":
        chosen = rng.sample([c for c in chosen if (c[2], c[3]) not in MISTYPED], 10) + rng.sample([c for c in chosen if (c[2], c[3]) in MISTYPED], 12)
    for e, ck, sec, val in chosen:
        name, text, suffix, first = file_for(e, ck, idx)
        work.append((idx, name, text, cmds, {sec: val}, str(root)))
        meta.append({"ext": e, "content": ck, "name": name, "detect": meta[base_index[(e, ck)]]["detect"], "cfg": {sec: val},
                     "base": base_index[(e, ck)]})
        idx += 1
    names = ["deploy", "NOTES", "tool", "runner", "data.cfg", "script.cfg", "a.py"]
    orders = []
    for _ in range(6 if tier == "quick" else 40):
        o = list(names)
        rng.shuffle(o)
        orders.append(o)
    orders += [["NOTES", "deploy", "tool", "runner", "data.cfg", "script.cfg", "a.py"], ["data.cfg", "script.cfg", "tool", "NOTES", "deploy", "runner", "a.py"]]
    try:
        if True:
            impls = core.pmap(impl_case, work, procs=16, chunksize=1)
        pair_work = [(k, ext, ck, str(root)) for k, (ext, ck) in enumerate((e, c) for e in EXTS if not e.startswith("@") for c in ("py", "ts", "rs"))]
        pairs = core.pmap(pair_case, pair_work, procs=16)
        multis = core.pmap(multi_case, [(k, o, ["nesting", "magic-numbers", "print-statements"], str(root)) for k, o in enumerate(orders)], procs=16)
    finally:
        shutil.rmtree(root, ignore_errors=True)
    for (k, ext, ck, _r), pa in zip(pair_work, pairs):
        res.evaluations += 1
        res.bump("pair_runs (cross-file linters on)")
        _n, _t, suffix, first = file_for(ext, ck, k)
        det = drv.call({"prop": PROP, "op": "detect", "suffix": suffix, "nonEmpty": True, "firstLine": first})
        if pa["errors"]:
            res.disagreements.append(core.Disagreement(case={"ext": ext, "content": ck, "pair": True}, impl=pa["errors"], model=det, spec=None, property_fails=True,
                                                       note=pa["errors"][0][:500]))
            continue
        for c, o in pa["by_cmd"].items():
            if o["vs"] and (det["language"] == "unknown" or not det["mayReport"].get(c, True)):
                res.disagreements.append(core.Disagreement(
                    case={"ext": ext, "content": ck, "pair": True, "cmd": c}, impl=o["vs"][:4], model=det, spec=None, property_fails=True,
                    note=f"two identical files with suffix {ext!r} ({ck} content), detected as {det['language']}: `thailint {c}` reported {o['vs'][:2]}"))
            if o["vs"]:
                res.nontrivial.add(core.canon(["pair", ext, ck, c]))
            if (1 if o["vs"] else 0) != o["exit"]:
                res.disagreements.append(core.Disagreement(case={"ext": ext, "content": ck, "pair": True, "cmd": c}, impl=o, model=None, spec=None, property_fails=True,
                                                           note=f"`thailint {c}` exit {o['exit']} with {len(o['vs'])} violations"))
        if ext == ".py" and ck == "py" and not pa["by_cmd"].get("dry", {}).get("vs"):
            res.disagreements.append(core.Disagreement(case={"ext": ext, "content": ck, "pair": True}, impl=pa["by_cmd"], model=det, spec=None, property_fails=True,
                                                       note="two identical Python files and dry enabled: no duplicate-code finding (the pair probe is blind)"))
    for o, mu in zip(orders, multis):
        res.evaluations += 1
        res.bump("multi_file_runs")
        if mu["errors"]:
            res.disagreements.append(core.Disagreement(case={"order": o}, impl=mu["errors"], model=None, spec=None, property_fails=True, note=mu["errors"][0][:500]))
            continue
        for c in mu["single"]:
            union = sorted(v for n in o for v in (mu["single"][c][n] or []))
            for label in ("together", "directory"):
                got = mu[label][c]
                if got != union:
                    res.disagreements.append(core.Disagreement(
                        case={"order": o, "cmd": c, "mode": label}, impl=got, model=union, spec=union, property_fails=True,
                        note=f"`thailint {c}` on several extensionless/unmapped files ({label}) is not the union of the single-file runs: "
                             f"extra {[v for v in (got or []) if v not in union][:2]} missing {[v for v in union if v not in (got or [])][:2]}"))
            # expected languages from the model: shebang-python scripts are python, the rest unknown
            for n, first in (("deploy", "#!/usr/bin/env python3"), ("NOTES", "Release"), ("tool", "#!/bin/sh"), ("runner", "#!/usr/bin/python"),
                             ("data.cfg", "import re"), ("script.cfg", "#!/usr/bin/env python")):
                suffix = "." + n.split(".")[1] if "." in n else ""
                det = drv.call({"prop": PROP, "op": "detect", "suffix": suffix, "nonEmpty": True, "firstLine": first})
                rep = bool(mu["single"][c][n])
                if det["language"] == "unknown" and rep:
                    res.disagreements.append(core.Disagreement(case={"file": n, "cmd": c}, impl=mu["single"][c][n][:2], model=det, spec=None, property_fails=True,
                                                               note=f"{n} is of unrecognised type but `thailint {c}` reported on it"))
                if det["language"] == "python" and not rep and c in ("nesting", "magic-numbers"):
                    res.disagreements.append(core.Disagreement(case={"file": n, "cmd": c}, impl=[], model=det, spec=None, property_fails=True,
                                                               note=f"{n} has a python shebang but `thailint {c}` reported nothing on it"))
        res.nontrivial.add(core.canon(["multi", o]))

    def strip(vs, name):
        return [[r, l, c, m.replace(name, "<file>")] for r, l, c, m in vs]

    for i, (m, im) in enumerate(zip(meta, impls)):
        res.evaluations += 1
        lang = m["detect"]["language"]
        res.bump("detected_language", lang)
        res.bump("content", m["content"])
        problems, fails = [], False
        if im["errors"]:
            problems.append("; ".join(im["errors"])[:600])
            fails = True
        allv = im.get("all", [])
        linters = {r.split(".")[0] for r, *_ in allv}
        if len(linters) >= 2:
            res.nontrivial.add(core.canon([m["ext"], m["content"], m["cfg"]]))
        for c, o in im["by_cmd"].items():
            ids = sorted({v[0] for v in o["vs"]})
            ow = drv.call({"prop": PROP, "op": "owns", "cmd": c, "ids": ids})
            foreign = [r for r, ok in zip(ids, ow["owns"]) if not ok]
            if foreign:
                problems.append(f"`thailint {c}` printed rule ids of other linters: {foreign}")
                fails = True
            # the command prints exactly the owned part of what the unfiltered run finds (config untouched by the command)
            allids = sorted({v[0] for v in allv})
            owall = drv.call({"prop": PROP, "op": "owns", "cmd": c, "ids": allids})
            owned = {r for r, ok in zip(allids, owall["owns"]) if ok}
            expect = [v for v in allv if v[0] in owned]
            if o["vs"] != expect and c not in ("dry",):
                problems.append(f"`thailint {c}` printed {len(o['vs'])} violations, the owned part of the unfiltered run has {len(expect)}: "
                                f"{[v for v in o['vs'] if v not in expect][:3]} / {[v for v in expect if v not in o['vs']][:3]}")
                fails = True
            if (1 if o["vs"] else 0) != o["exit"]:
                problems.append(f"`thailint {c}` exit {o['exit']} with {len(o['vs'])} violations")
                fails = True
            if o["vs"] and not m["detect"]["mayReport"].get(c, True):
                problems.append(f"`thailint {c}` reported on a file detected as {lang}: {o['vs'][:2]}")
                fails = True
            if lang == "unknown" and c not in NOT_SOURCE and o["vs"]:
                problems.append(f"unrecognised file type but `thailint {c}` reported {o['vs'][:2]}")
                fails = True
        # a file detected as language L holding L's trigger content gets what the same content gets under L's plain suffix
        canon = {"python": ".py", "typescript": ".ts", "rust": ".rs"}
        if m["cfg"] is None and lang in canon and {"python": "py", "typescript": "ts", "rust": "rs"}[lang] == m["content"] and m["ext"] != canon[lang]:
            j = base_index.get((canon[lang], m["content"]))
            if j is not None:
                for c, o in im["by_cmd"].items():
                    if c in NOT_SOURCE:
                        continue
                    a = sorted(v[0] for v in o["vs"])
                    b = sorted(v[0] for v in impls[j]["by_cmd"].get(c, {"vs": []})["vs"])
                    if a != b and not (lang == "typescript" and m["ext"].lower() in (".js", ".jsx", ".tsx")):
                        problems.append(f"`thailint {c}` on {m['name']} (detected as {lang}) reports rules {Counter(a).most_common(3)}, the same content as {canon[lang]} gets {Counter(b).most_common(3)}")
                        fails = True
                res.bump("same_content_pairs")
        # case-insensitivity: same content under suffixes that differ only in letter case
        if m["cfg"] is None and m["ext"].lower() != m["ext"] and not m["ext"].startswith("#"):
            j = base_index.get((m["ext"].lower(), m["content"]))
            if j is not None:
                a = {c: strip(o["vs"], m["name"]) for c, o in im["by_cmd"].items()}
                b = {c: strip(o["vs"], meta[j]["name"]) for c, o in impls[j]["by_cmd"].items()}
                if a != b:
                    diff = [c for c in a if a[c] != b.get(c)]
                    problems.append(f"suffix {m['ext']} and {m['ext'].lower()} give different findings for {diff}")
                    fails = True
                res.bump("case_pairs")
        # other linters' sections are irrelevant
        if m["base"] is not None:
            sec = next(iter(m["cfg"]))
            for c, o in im["by_cmd"].items():
                if SECTION_OF.get(c) == sec or c in ("file-header", "file-placement", "lazy-ignores"):
                    continue
                b = strip(impls[m["base"]]["by_cmd"][c]["vs"], meta[m["base"]]["name"])
                if strip(o["vs"], m["name"]) != b:
                    problems.append(f"`thailint {c}` changed its findings when only section {sec!r} was configured")
                    fails = True
            res.bump("perturbation_runs")
        if problems:
            res.disagreements.append(core.Disagreement(case={"file": m["name"], "ext": m["ext"], "content": m["content"], "config": m["cfg"]},
                                                       impl={c: o for c, o in im["by_cmd"].items() if o["vs"]}, model=m["detect"], spec=None,
                                                       property_fails=fails, note=" | ".join(problems)[:3000]))
        if len(res.samples) < 3 and len(linters) >= 3 and m["ext"] in (".PY", ".rs", "#!py"):
            res.samples.append({"file": m["name"], "content": m["content"], "detected": lang,
                                "rules_per_command": {c: sorted(Counter(v[0] for v in o["vs"]).items()) for c, o in im["by_cmd"].items() if o["vs"]}})
    drv.close()
    res.exhaustive = tier == "thorough"
    res.assumptions += ["the ownership table (command -> linter prefix) and the supported-language table are my reading of the docs (Lean `ownership`, `supported`)"]
    return res


def replay(path: str, st: core.ProofStatus) -> int:
    data = json.loads(Path(path).read_text())
    print(json.dumps(data, indent=1)[:3000])
    print("re-run `./check C15` to re-evaluate the matrix cell named above")
    return 1
