"""C16 — SRP thresholds.  Generated classes / structs+impls with member kinds mixed and method counts and
body sizes swept around the limits, several classes per file, per-language overrides; the real
`thailint srp` against the Lean model (count_methods, count_loc, evaluate_metrics, from_dict)."""
from __future__ import annotations

import json
import shutil
from pathlib import Path

from .. import core

PROP = "C16"
LEVEL_NOTE = ("theorems are about the threshold logic and the counting functions on class descriptions (members, line kinds); what a "
              "'public method' is per language is the implementation's notion (Python excludes @property, TypeScript counts accessors); "
              "parsers are trusted")
EXT = {"py": "py", "ts": "ts", "rs": "rs"}
LANGUAGE = {"py": "python", "ts": "typescript", "rs": "rust"}
KEYWORDS = ["Manager", "Handler", "Processor", "Utility", "Helper"]


def gen_class(rng, lang: str, idx: int, target_methods: int):
    """returns (name, members, rendered lines, line kinds, header offset)"""
    name = rng.choice(["Widget", "Order", "Parser", "Account", "Report"]) + str(idx)
    has_kw = rng.random() < 0.3
    if has_kw:
        name = name + rng.choice(KEYWORDS)
    members = [("asyncPub" if rng.random() < 0.3 else "pub") for _ in range(target_methods)]
    extras = {"py": ["priv", "dunder", "ctor", "property", "static", "field", "setter"], "ts": ["priv", "ctor", "property", "static", "field", "setter"],
              "rs": ["priv", "ctor", "static", "field"]}[lang]
    for _ in range(rng.randint(0, 5)):
        members.append(rng.choice(extras))
    if lang != "rs" and members.count("ctor") > 1:
        members = [m for m in members if m != "ctor"] + ["ctor"]
    rng.shuffle(members)
    lines, kinds = [], []

    def add(text, kind="code"):
        lines.append(text)
        kinds.append(kind)

    def noise(ind):
        r = rng.random()
        if r < 0.2:
            add("", "blank")
        elif r < 0.35:
            add(ind + ("# note" if lang == "py" else "// note"), "comment")

    k = [0]

    def nm(prefix):
        k[0] += 1
        return f"{prefix}{k[0]}"

    if lang == "py":
        add(f"class {name}:")
        body_extra = rng.randint(0, 3)
        for m in members:
            noise("    ")
            if m == "pub":
                n = nm("act_")
                add(f"    def {n}(self):")
            elif m == "asyncPub":
                add(f"    async def {nm('co_')}(self):")
            elif m == "priv":
                add(f"    def {nm('_hid_')}(self):")
            elif m == "dunder":
                add(f"    def __{nm('dd')}__(self):")
            elif m == "ctor":
                add("    def __init__(self):")
            elif m == "property":
                add("    @property")
                add(f"    def {nm('prop_')}(self):")
            elif m == "static":
                add("    @staticmethod")
                add(f"    def {nm('st_')}():")
            elif m == "setter":
                n = nm("val_")
                add(f"    @{n}.{rng.choice(['setter', 'setter', 'deleter'])}")
                add(f"    def {n}(self, value=None):")
            else:
                add(f"    {nm('field_')} = {rng.randint(0, 5)}")
                continue
            for _ in range(rng.randint(0, body_extra)):
                add(f"        self.{nm('x')} = 1")
                if rng.random() < 0.2:
                    add("        # inner note", "comment")
            add("        return None")
        if not members:
            add("    pass")
    elif lang == "ts":
        form = rng.choice(["plain", "plain", "abstract", "expr", "export"])
        add({"plain": f"class {name} {{", "abstract": f"abstract class {name} {{", "expr": f"const K_{idx} = class {name} {{", "export": f"export class {name} {{"}[form])
        for m in members:
            noise("  ")
            if m == "pub":
                # a method is a method however it is named: identifier, string, number, computed key
                head = rng.choice([f"  {nm('act')}() {{"] * 3 + [f"  '{nm('to-json')}'() {{", f"  {100 + k[0]}() {{", f"  [Symbol.for('{nm('sym')}')]() {{", f"  [\"{nm('key')}\" + SUFFIX]() {{"])
            elif m == "asyncPub":
                head = f"  async {nm('co')}() {{"
            elif m == "priv":
                head = f"  {nm('_hid')}() {{"
            elif m == "ctor":
                head = "  constructor() {"
            elif m == "property":
                head = f"  get {nm('prop')}() {{"
            elif m == "static":
                head = f"  static {nm('st')}() {{"
            elif m == "setter":
                head = f"  set {nm('val')}(v) {{"
            else:
                add(f"  {nm('field')} = {rng.randint(0, 5)};")
                continue
            add(head)
            for _ in range(rng.randint(0, 2)):
                add(f"    this.{nm('x')} = 1;")
            add("    return;" if m in ("ctor", "setter") else "    return 1;")
            add("  }")
        add("};" if form == "expr" else "}")
    else:
        fields = [m for m in members if m == "field"]
        fns = [m for m in members if m != "field"]
        generic = rng.random() < 0.3
        gp = "<T>" if generic else ""
        add(f"struct {name}{gp} {{")
        for _ in fields:
            noise("    ")
            add(f"    {nm('field_')}: i32,")
        add("}")
        # gap between struct and impl is outside both nodes
        split = rng.randint(0, len(fns)) if rng.random() < 0.4 else len(fns)
        for part in (fns[:split], fns[split:]):
            if not part and part is not fns[:split]:
                continue
            lines.append("")           # not part of any node
            kinds.append("outside")
            # an inherent impl, or (for the second block) the implementation of a trait: both belong to the struct
            trait_impl = part is not fns[:split] and rng.random() < 0.5
            add(f"impl{gp} Tr{idx} for {name}{gp} {{" if trait_impl else f"impl{gp} {name}{gp} {{")
            for m in part:
                noise("    ")
                if m == "pub":
                    add(f"    {'' if trait_impl else 'pub '}fn {nm('act_')}(&self) -> i32 {{")
                elif m == "asyncPub":
                    add(f"    pub async fn {nm('co_')}(&self) -> i32 {{")
                elif m == "priv":
                    add(f"    fn {nm('_hid_')}(&self) -> i32 {{")
                elif m == "ctor":
                    add(f"    pub fn {nm('new_')}() -> i32 {{")
                else:
                    add(f"    pub fn {nm('st_')}() -> i32 {{")
                for _ in range(rng.randint(0, 2)):
                    add(f"        let {nm('x')} = 1;")
                add("        1")
                add("    }")
            add("}")
    return {"name": name, "members": members, "lines": lines, "kinds": kinds, "hasKeyword": has_kw}


def rename_class(c, new_name, has_kw):
    old = c["name"]
    return {**c, "name": new_name, "hasKeyword": has_kw, "lines": [l.replace(old, new_name) for l in c["lines"]]}


def gen_case(rng, idx: int):
    lang = rng.choice(["py", "py", "ts", "rs"])
    max_methods = rng.randint(1, 6)
    classes = []
    for ci in range(rng.randint(1, 4)):
        target = max(0, max_methods + rng.choice([-2, -1, 0, 0, 1, 1, 2, 3]))
        c = gen_class(rng, lang, idx * 10 + ci, target)
        if classes and lang != "rs" and rng.random() < 0.25:
            # two classes of one file with the same name (e.g. nested Config/Meta classes): still one verdict each
            c = rename_class(c, classes[0]["name"], classes[0]["hasKeyword"])
            c["lines"] = ([f"def factory_{idx}_{ci}():"] + ["    " + l if l else l for l in c["lines"]]) if lang == "py" else \
                         ([f"namespace ns_{idx}_{ci} {{"] + ["  " + l if l else l for l in c["lines"]] + ["}"])
            c["kinds"] = ["outside"] + c["kinds"] + ([] if lang == "py" else ["outside"])
            c["header_offset"] = 1
        elif rng.random() < 0.35:
            # a class is a class wherever it is declared: under a compound statement, in a function, in a namespace / module
            head, tail, ind = rng.choice({
                "py": [(["if FEATURE_%d:" % ci], [], "    "), (["if TYPE_CHECKING:", "    pass", "else:"], [], "    "),
                       (["try:"], ["except ImportError:", "    pass"], "    "), (["try:", "    import fast_%d" % ci, "except ImportError:"], [], "    "),
                       (["with scope_%d():" % ci], [], "    "), (["for _round_%d in range(1):" % ci], [], "    "),
                       (["while RUNNING_%d:" % ci], ["    break"], "    "), (["def build_%d_%d():" % (idx, ci)], [], "    "),
                       (["async def abuild_%d_%d():" % (idx, ci)], [], "    "),
                       (["if FEATURE_%d:" % ci, "    try:"], ["    finally:", "        pass"], "        ")],
                "ts": [(["namespace space_%d_%d {" % (idx, ci)], ["}"], "  "), (["if (FEATURE_%d) {" % ci], ["}"], "  "),
                       (["function build_%d_%d() {" % (idx, ci)], ["}"], "  "), (["try {"], ["} catch (e) { }"], "  "),
                       (["export namespace pub_%d_%d {" % (idx, ci)], ["}"], "  "), (["{"], ["}"], "  ")],
                "rs": [(["mod inner_%d_%d {" % (idx, ci)], ["}"], "    "), (["pub mod api_%d_%d {" % (idx, ci)], ["}"], "    "),
                       (["fn build_%d_%d() {" % (idx, ci)], ["}"], "    ")],
            }[lang])
            c["lines"] = head + [ind + l if l else l for l in c["lines"]] + tail
            c["kinds"] = ["outside"] * len(head) + c["kinds"] + ["outside"] * len(tail)
            c["header_offset"] = len(head)
            c["wrapped"] = head[-1].split("(")[0].split()[0].rstrip(":{") or "block"
        classes.append(c)
    # max_loc around one class's measured size (computed by the model later: use the raw code-line count here)
    c0 = rng.choice(classes)
    size = len([k for k in c0["kinds"] if k == "code"]) if lang != "ts" else len([k for k in c0["kinds"] if k != "outside"])
    max_loc = max(1, size + rng.choice([-2, -1, 0, 0, 1, 2, 50]))
    base = {"max_methods": max_methods, "max_loc": max_loc}
    overrides = []
    r = rng.random()
    if r < 0.3:
        o = {"language": LANGUAGE[lang]}
        if rng.random() < 0.6:
            o["max_methods"] = max(1, max_methods + rng.choice([-1, 1, 2]))
        if rng.random() < 0.6 or "max_methods" not in o:
            o["max_loc"] = max(1, max_loc + rng.choice([-1, 0, 3]))
        overrides.append(o)
    elif r < 0.6:
        other = rng.choice([l for l in ("python", "typescript", "rust") if l != LANGUAGE[lang]])
        overrides.append({"language": other, "max_methods": 1, "max_loc": 1})
    check_kw = rng.random() < 0.7
    return {"lang": lang, "classes": classes, "base": base, "overrides": overrides, "checkKeywords": check_kw,
            "separators": [rng.choice([0, 0, 0, 1, 2, 3, 4]) for _ in range(8)]}


def render_file(case):
    out, headers = [], []
    cm = "# " if case["lang"] == "py" else "// "
    for k, c in enumerate(case["classes"]):
        # what stands between (and before) the classes: blank lines, or lines holding characters that only str.splitlines() takes
        # for line ends (a form-feed page break, NEL / LINE SEPARATOR / FILE SEPARATOR in a comment)
        sep = {0: [], 1: ["\x0c"], 2: [cm + "page\u2028break"], 3: [cm + "next\x85line", "\x0c"], 4: [cm + "file\x1csep"]}[case.get("separators", [0] * 8)[k % 8]]
        out += sep
        headers.append(len(out) + 1 + c.get("header_offset", 0))
        out += c["lines"]
        out += ["", ""]
    return out, headers


def impl_case(args):
    idx, case, root = args
    import yaml
    proj = Path(root) / f"s{idx}"
    proj.mkdir(parents=True)
    out = {"errors": []}
    try:
        lines, _ = render_file(case)
        f = proj / f"mod.{EXT[case['lang']]}"
        f.write_text("\n".join(lines) + "\n")
        cfg = {"max_methods": case["base"]["max_methods"], "max_loc": case["base"]["max_loc"], "check_keywords": case["checkKeywords"]}
        for o in case["overrides"]:
            cfg[o["language"]] = {k: o[k] for k in ("max_methods", "max_loc") if k in o}
        (proj / ".thailint.yaml").write_text(yaml.safe_dump({"srp": cfg}))
        code, stdout = core.run_cli(["srp", "--format", "json", str(f)], cwd=proj)
        vs = core.violations_json(stdout)
        if vs is None:
            out["errors"].append(f"exit {code}: {stdout[:300]}")
        else:
            out["vs"] = sorted([v["line"], v["message"], v["rule_id"]] for v in vs)
            out["exit"] = code
    except Exception as exc:  # noqa: BLE001
        out["errors"].append(f"{type(exc).__name__}: {exc}")
    finally:
        shutil.rmtree(proj, ignore_errors=True)
    return out


def run(tier: str, seed: int, st: core.ProofStatus) -> core.Result:
    res = core.Result()
    res.rule = ("seeded files in Python / TypeScript / Rust with 1-4 classes (struct + one or two impl blocks), public-method counts swept "
                "-2..+3 around max_methods, mixed member kinds (private, dunder, constructor, property getter, property setter / deleter, static, fields), blank/comment "
                "lines, a third of the classes declared under if / else / try / except / with / for / while / def / namespace / mod / a bare block, max_loc swept around one class's size, keyword names, check_keywords on/off, overrides for the file's language or "
                "another one; non-trivial = a file with both a reported and an unreported class; distinct by rendered text + config")
    rng = core.sub_rng(seed, PROP, tier)
    n = 600 if tier == "quick" else 5000
    cases = [gen_case(rng, i) for i in range(n)]
    root = core.scratch_dir("c16")
    try:
        impls = core.pmap(impl_case, [(i, c, str(root)) for i, c in enumerate(cases)], procs=16, chunksize=4)
    finally:
        shutil.rmtree(root, ignore_errors=True)
    drv = core.Driver()
    reqs = []
    for c in cases:
        reqs.append({"prop": PROP, "lang": c["lang"], "language": LANGUAGE[c["lang"]], "base": c["base"], "overrides": c["overrides"],
                     "checkKeywords": c["checkKeywords"], "defaultMaxMethods": 7, "defaultMaxLoc": 200,
                     "classes": [{"members": k["members"], "lines": [x for x in k["kinds"] if x != "outside"], "hasKeyword": k["hasKeyword"]} for k in c["classes"]]})
    leans = drv.batch(reqs)
    drv.close()
    for c, im, m in zip(cases, impls, leans):
        res.evaluations += 1
        res.bump("lang", c["lang"])
        for k in c["classes"]:
            res.bump("class declared under", k.get("wrapped", "top level / same-name wrapper"))
        lines, headers = render_file(c)
        case = {"lang": c["lang"], "text": "\n".join(lines), "config": {"base": c["base"], "overrides": c["overrides"], "checkKeywords": c["checkKeywords"]}}
        if im["errors"]:
            res.disagreements.append(core.Disagreement(case=case, impl=im["errors"], model=None, spec=None, property_fails=True, note=im["errors"][0][:500]))
            continue
        exp = []
        for k, h, mk in zip(c["classes"], headers, m["classes"]):
            res.bump("methods_minus_limit", mk["methods"] - m["maxMethods"])
            if mk["reported"]:
                exp.append([h, f"Class '{k['name']}' may violate SRP: {', '.join(mk['issues'])}", "srp.violation"])
        exp.sort()
        rep = [mk["reported"] for mk in m["classes"]]
        if any(rep) and not all(rep):
            res.nontrivial.add(core.canon(case))
        if im["vs"] != exp or im["exit"] != (1 if exp else 0):
            res.disagreements.append(core.Disagreement(case=case, impl=im["vs"], model=exp, spec=exp, property_fails=True,
                                                       note=f"srp reports {im['vs']}, model {exp} (limits methods {m['maxMethods']} loc {m['maxLoc']})"[:2500]))
        if len(res.samples) < 2 and any(rep):
            res.samples.append({"lang": c["lang"], "limits": [m["maxMethods"], m["maxLoc"]], "classes": [[k["name"], mk["methods"], mk["loc"], mk["issues"]] for k, mk in zip(c["classes"], m["classes"])]})
    return res


def replay(path: str, st: core.ProofStatus) -> int:
    data = json.loads(Path(path).read_text())
    print(json.dumps(data, indent=1)[:3000])
    print(f"VIOLATION property={PROP} replay={path}")
    return 1
