"""C17 — Rust safety linters.  Seeded Rust projects are generated from a structure (nested modules,
impl blocks, attributes with and without comments before the item, async/sync functions, loops of every
kind, closures, blocks, wrapper calls in three spellings, macro invocations) with planted unwrap / expect /
clone / blocking-path calls; the tree of frames and sites is known by construction.  The real CLI
(`thailint unwrap-abuse|clone-abuse|blocking-async --format json .`, options through .thailint.yaml) is
compared with the Lean scan of the same tree and with the property's reading of it."""
from __future__ import annotations

import json
import shutil
from pathlib import Path

from .. import core

PROP = "C17"
LEVEL_NOTE = ("theorems hold for every tree of frames and sites and every option setting; the Rust grammar (tree-sitter) is trusted and tied by the "
              "correspondence check; attribute texts are restricted to an alphabet proved plain; `used afterwards` means: in a later statement of "
              "the same block; calls inside macro arguments are the recorded finding F17c")

LINTERS = ["unwrap-abuse", "clone-abuse", "blocking-async"]
OPTIONS = {
    "unwrap": ["allow_in_tests", "allow_expect"],
    "clone": ["allow_in_tests", "detect_clone_in_loop", "detect_clone_chain", "detect_unnecessary_clone"],
    "blocking": ["allow_in_tests", "detect_fs_in_async", "detect_sleep_in_async", "detect_net_in_async"],
}
SECTION = {"unwrap": "unwrap-abuse", "clone": "clone-abuse", "blocking": "blocking-async"}

PATHS = [["std", "fs", "read_to_string"], ["fs", "read"], ["std", "fs", "write"], ["fs", "remove_file"], ["std", "fs", "metadata"],
         ["std", "thread", "sleep"], ["thread", "sleep"], ["std", "net", "TcpStream", "connect"], ["net", "UdpSocket", "bind"],
         ["std", "net", "TcpListener", "bind"], ["TcpStream", "connect"], ["tokio", "fs", "read"], ["std", "fs", "File", "open"],
         ["tokio", "time", "sleep"], ["std", "fs", "read_dir"], ["fs", "canonicalize"], ["mycrate", "fs", "read"], ["std", "fsx", "read"]]
WRAPPERS = [("scoped", "tokio::task::spawn_blocking", "spawn_blocking"), ("ident", "spawn_blocking", "spawn_blocking"),
            ("scoped", "tokio::task::block_in_place", "block_in_place"), ("ident", "asyncify", "asyncify"),
            ("method", "handle.spawn_blocking", "spawn_blocking"), ("scoped", "tokio::spawn_local", "spawn_local"),
            ("ident", "run_later", "run_later"), ("method", "pool.execute", "execute"), ("scoped", "std::thread::spawn", "spawn")]


# ---------------------------------------------------------------- structure generation
class Gen:
    def __init__(self, rng, alphabet):
        self.rng = rng
        self.fn_attrs = alphabet["fn"]
        self.mod_attrs = [a for a in alphabet["mod"]]
        self.n = 0

    def fresh(self, p):
        self.n += 1
        return f"{p}{self.n}"

    def attrs(self, pool, test_first):
        r = self.rng
        seen, hidden = [], []
        k = r.choice([0, 0, 1, 1, 2, 3])
        for _ in range(k):
            a = r.choice(pool[:test_first]) if r.random() < 0.45 else r.choice(pool)
            (hidden if r.random() < 0.3 else seen).append(a)
        return seen, hidden

    def item(self, depth):
        r = self.rng
        x = r.random()
        if x < 0.28 and depth < 3:
            seen, hidden = self.attrs(self.mod_attrs, 1)
            return {"k": "mod", "name": self.fresh("m"), "seen": seen, "hidden": hidden, "items": [self.item(depth + 1) for _ in range(r.randint(1, 3))]}
        if x < 0.36 and depth < 3:
            return {"k": "impl", "name": self.fresh("T"), "items": [self.fn(depth + 1) for _ in range(r.randint(1, 2))]}
        return self.fn(depth)

    def fn(self, depth):
        r = self.rng
        seen, hidden = self.attrs(self.fn_attrs, 4)
        return {"k": "fn", "name": self.fresh("f"), "seen": seen, "hidden": hidden, "async": r.random() < 0.5, "pub": r.random() < 0.3,
                "body": self.body(0, r.randint(1, 5))}

    def body(self, depth, n):
        return [self.stmt(depth) for _ in range(n)]

    def stmt(self, depth):
        r = self.rng
        x = r.random()
        if depth < 3 and x < 0.30:
            kind = r.choice(["for", "while", "loop", "whilelet", "labeled", "block", "if", "unsafe", "closure", "foreach", "asyncblock", "nestedfn", "wrapper", "wrapper", "wrapper"])
            st = {"k": kind, "body": self.body(depth + 1, r.randint(1, 3))}
            if kind == "wrapper":
                st["w"] = r.randrange(len(WRAPPERS))
                st["braced"] = r.random() < 0.7
                st["turbofish"] = r.random() < 0.3
                if not st["braced"]:
                    st["body"] = [self.expr_stmt()]
            if kind == "nestedfn":
                seen, hidden = self.attrs(self.fn_attrs, 4)
                st.update({"name": self.fresh("g"), "seen": seen, "hidden": hidden, "async": r.random() < 0.4})
            return st
        return self.expr_stmt()

    def expr_stmt(self):
        r = self.rng
        x = r.random()
        if x < 0.30:
            form = r.choice(["let", "stmt", "chain2", "closure_arg", "generic", "macro", "question", "field", "other", "mention", "onpath"])
            return {"k": "unwrap", "form": form, "m": r.choice(["unwrap", "unwrap", "expect"]), "m2": r.choice(["unwrap", "expect"]), "v": self.fresh("o"),
                    "path": r.randrange(len(PATHS))}
        if x < 0.62:
            form = r.choice(["let", "let", "let", "chain", "arg", "field", "letarg", "letblock", "letclosure", "macro", "stmt", "method_after"])
            return {"k": "clone", "form": form, "v": self.fresh("s"), "used": r.random() < 0.45, "use_form": r.choice(["call", "macro", "nested"])}
        form = r.choice(["stmt", "let", "await", "try", "unwrap", "macro"])
        return {"k": "path", "form": form, "path": r.randrange(len(PATHS))}


# ---------------------------------------------------------------- rendering: text + tree + positions
class Render:
    def __init__(self, flip=False):
        self.lines = []
        self.ids = 0
        self.pos = {}           # node id -> (line, col)
        self.flip = flip        # twin file: async-ness of every function flipped, byte layout unchanged
        self.stats = {}

    def nid(self):
        self.ids += 1
        return self.ids

    def node(self, frame=None, site=None, ch=None, at=None):
        i = self.nid()
        if at is not None:
            self.pos[i] = at
        return {"id": i, "frame": frame, "site": site, "ch": ch or []}

    def emit(self, ind, text):
        self.lines.append("    " * ind + text)
        return len(self.lines), 4 * ind      # 1-based line, 0-based column of the first character

    def attr_lines(self, ind, seen, hidden, rng_tag):
        comments = ["// note", "/* block note */", "/// documented"]
        if hidden:
            for a in hidden:
                self.emit(ind, f"#[{a}]")
            self.emit(ind, comments[rng_tag % 3])
        for a in seen:
            self.emit(ind, f"#[{a}]")

    def items(self, ind, items):
        out = []
        for it in items:
            out.append(self.item(ind, it))
        return out

    def fn_header(self, f):
        is_async = f["async"] != self.flip
        name = f["name"] if is_async else f["name"] + "_plain"
        return is_async, ("pub " if f.get("pub") else "") + ("async " if is_async else "") + f"fn {name}()"

    def item(self, ind, it):
        if it["k"] == "mod":
            self.attr_lines(ind, it["seen"], it["hidden"], len(it["name"]))
            self.emit(ind, f"mod {it['name']} {{")
            ch = self.items(ind + 1, it["items"])
            self.emit(ind, "}")
            return self.node({"k": "mod", "seen": it["seen"], "hidden": it["hidden"]}, None, ch)
        if it["k"] == "impl":
            self.emit(ind, f"impl {it['name']} {{")
            ch = self.items(ind + 1, it["items"])
            self.emit(ind, "}")
            return self.node(None, None, ch)
        return self.fn(ind, it)

    def fn(self, ind, f):
        self.attr_lines(ind, f["seen"], f["hidden"], len(f["name"]) + 1)
        is_async, header = self.fn_header(f)
        self.emit(ind, header + " {")
        ch = self.block(ind + 1, f["body"])
        self.emit(ind, "}")
        self.stats["fn_async" if is_async else "fn_sync"] = self.stats.get("fn_async" if is_async else "fn_sync", 0) + 1
        return self.node({"k": "fn", "seen": f["seen"], "hidden": f["hidden"], "async": is_async}, None, [self.node({"k": "block"}, None, ch)])

    def block(self, ind, stmts):
        """statements of one block; returns the child nodes.  `later use` statements are appended after the let."""
        out = []
        for st in stmts:
            out.extend(self.stmt(ind, st))
        return out

    def braced(self, ind, head, body, tail="}"):
        self.emit(ind, head)
        ch = self.block(ind + 1, body)
        self.emit(ind, tail)
        return self.node({"k": "block"}, None, ch)

    def stmt(self, ind, st):
        k = st["k"]
        if k in ("for", "while", "loop", "whilelet", "labeled"):
            head = {"for": "for _i in 0..3 {", "while": "while keep_going() {", "loop": "loop {", "whilelet": "while let Some(_x) = next_item() {",
                    "labeled": "'outer: loop {"}[k]
            self.emit(ind, head)
            ch = self.block(ind + 1, st["body"])
            if k in ("loop", "labeled"):
                self.emit(ind + 1, "break;")
            self.emit(ind, "}")
            return [self.node({"k": "loop"}, None, [self.node({"k": "block"}, None, ch)])]
        if k == "block":
            return [self.braced(ind, "{", st["body"])]
        if k == "unsafe":
            return [self.braced(ind, "unsafe {", st["body"])]
        if k == "if":
            a = self.braced(ind, "if ready() {", st["body"][:1], "} else {")
            ch = self.block(ind + 1, st["body"][1:])
            self.emit(ind, "}")
            return [a, self.node({"k": "block"}, None, ch)]
        if k == "closure":
            self.emit(ind, "let _c = |_z: i32| {")
            ch = self.block(ind + 1, st["body"])
            self.emit(ind, "};")
            return [self.node({"k": "let"}, None, [self.node({"k": "closure"}, None, [self.node({"k": "block"}, None, ch)])])]
        if k == "foreach":
            self.emit(ind, "items().iter().for_each(|_it| {")
            ch = self.block(ind + 1, st["body"])
            self.emit(ind, "});")
            return [self.node({"k": "call", "style": "method", "name": "for_each"}, None, [self.node({"k": "closure"}, None, [self.node({"k": "block"}, None, ch)])])]
        if k == "asyncblock":
            self.emit(ind, "let _fut = async {")
            ch = self.block(ind + 1, st["body"])
            self.emit(ind, "};")
            return [self.node({"k": "let"}, None, [self.node({"k": "block"}, None, ch)])]
        if k == "nestedfn":
            f = {"name": st["name"], "seen": st["seen"], "hidden": st["hidden"], "async": st["async"], "body": st["body"]}
            return [self.fn(ind, f)]
        if k == "wrapper":
            style, text, name = WRAPPERS[st["w"]]
            frame = {"k": "call", "style": style, "name": name}
            if st.get("turbofish"):
                text = text + "::<_, ()>"          # explicit type arguments: the same call
            site = None
            if style == "scoped":
                site = {"k": "path", "parts": text.split("::")}
            if st["braced"]:
                line, col = self.emit(ind, f"{text}(move || {{")
                ch = self.block(ind + 1, st["body"])
                self.emit(ind, "});")
                inner = [self.node({"k": "closure"}, None, [self.node({"k": "block"}, None, ch)])]
            else:
                pre = f"{text}(|| "
                line = len(self.lines) + 1
                col = 4 * ind
                ch = self.inline_expr(ind, st["body"][0], prefix=pre, suffix=");")
                inner = [self.node({"k": "closure"}, None, ch)]
            return [self.node(frame, site, inner, at=(line, col))]
        return self.expr(ind, st)

    # -- expression statements -------------------------------------------------
    def inline_expr(self, ind, st, prefix, suffix):
        """one expression on one line behind `prefix`; returns its nodes"""
        col0 = 4 * ind + len(prefix)
        line = len(self.lines) + 1
        text, nodes = self.expr_text(st, line, col0, inline=True)
        self.emit(ind, prefix + text + suffix)
        return nodes

    def expr(self, ind, st):
        line = len(self.lines) + 1
        k, form = st["k"], st["form"]
        pre_lines, post_lines = [], []
        if k == "clone":
            pre_lines.append(f"let {st['v']} = String::new();")
        for p in pre_lines:
            self.emit(ind, p)
        line = len(self.lines) + 1
        text, nodes, lead = self.stmt_text(st, line, 4 * ind)
        self.emit(ind, text)
        if k == "clone" and st["used"]:
            v = st["v"]
            use = {"call": f"consume(&{v});", "macro": f"println!(\"{{}}\", {v});", "nested": f"if ready() {{ consume(&{v}); }}"}[st["use_form"]]
            self.emit(ind, use)
        return nodes

    def stmt_text(self, st, line, col):
        """returns (statement text, nodes, _) with site positions computed from `col`"""
        k, form = st["k"], st["form"]
        if k == "unwrap":
            return self.unwrap_text(st, line, col)
        if k == "clone":
            return self.clone_text(st, line, col)
        return self.path_text(st, line, col)

    def expr_text(self, st, line, col, inline):
        text, nodes, _ = self.stmt_text(dict(st, form={"unwrap": "stmt", "clone": "arg0", "path": "stmt"}[st["k"]], used=False), line, col)
        return text.rstrip(";"), nodes

    def unwrap_text(self, st, line, col):
        m, v, form = st["m"], st["v"], st["form"]
        call = lambda meth: f'.{meth}("must")' if meth == "expect" else f".{meth}()"  # noqa: E731
        site = lambda meth, at, ch=None: self.node(None, {"k": "unwrap", "m": meth}, ch, at=at)  # noqa: E731
        self.stats["unwrap_" + form] = self.stats.get("unwrap_" + form, 0) + 1
        if form == "let":
            pre = f"let _{v} = "
            return pre + f"opt(){call(m)};", [self.node({"k": "let"}, None, [site(m, (line, col + len(pre)))])], None
        if form == "stmt":
            return f"opt(){call(m)};", [site(m, (line, col))], None
        if form == "chain2":
            inner = self.node({"k": "call", "style": "method", "name": "into_inner"}, None, [site(m, (line, col))])
            outer = site(st["m2"], (line, col), [inner])
            outer["frame"] = {"k": "call", "style": "method", "name": st["m2"]}
            return f"opt(){call(m)}.into_inner(){call(st['m2'])};", [outer], None
        if form == "closure_arg":
            pre = "items().iter().map(|x| "
            n = site(m, (line, col + len(pre)))
            return pre + f"x.parse_it(){call(m)}).count();", [self.node({"k": "call", "style": "method", "name": "count"}, None,
                                                                       [self.node({"k": "call", "style": "method", "name": "map"}, None, [self.node({"k": "closure"}, None, [n])])])], None
        if form == "generic":
            return f'"7".parse::<i32>(){call(m)};', [site(m, (line, col))], None
        if form == "macro":
            pre = 'println!("{}", '
            n = site(m, (line, col + len(pre)))
            return pre + f"opt(){call(m)});", [self.node({"k": "macro"}, None, [n])], None
        if form == "question":
            return "opt().ok_or(0)?;", [site("other", (line, col))], None
        if form == "field":
            return f"self.slot{call(m)};", [site(m, (line, col))], None
        if form == "other":
            return "opt().unwrap_or(0);", [site("other", (line, col))], None
        if form == "mention":
            return 'let _t = "x.unwrap()"; // y.unwrap() and z.expect("q")', [], None
        # onpath: a blocking path call whose result is unwrapped
        parts = PATHS[st["path"]]
        inner = self.node(None, {"k": "path", "parts": parts}, None, at=(line, col))
        outer = site(m, (line, col), [inner])
        outer["frame"] = {"k": "call", "style": "method", "name": m}
        return "::".join(parts) + f'("p"){call(m)};', [outer], None

    def clone_text(self, st, line, col):
        v, form = st["v"], st["form"]
        used = st["used"]
        self.stats["clone_" + form] = self.stats.get("clone_" + form, 0) + 1
        site = lambda chained, simple, at, ch=None: self.node(None, {"k": "clone", "chained": chained, "simple": simple, "usedAfter": used}, ch, at=at)  # noqa: E731
        if form == "let":
            pre = f"let _{v}c = "
            return pre + f"{v}.clone();", [self.node({"k": "let"}, None, [site(False, True, (line, col + len(pre)))])], None
        if form == "chain":
            pre = f"let _{v}c = "
            at = (line, col + len(pre))
            outer = site(True, False, at, [site(False, True, at)])
            outer["frame"] = {"k": "call", "style": "method", "name": "clone"}
            return pre + f"{v}.clone().clone();", [self.node({"k": "let"}, None, [outer])], None
        if form in ("arg", "arg0"):
            pre = "consume("
            n = site(False, True, (line, col + len(pre)))
            return pre + f"{v}.clone());", [self.node({"k": "call", "style": "ident", "name": "consume"}, None, [n])], None
        if form == "field":
            pre = f"let _{v}c = "
            return pre + "self.items.clone();", [self.node({"k": "let"}, None, [site(False, False, (line, col + len(pre)))])], None
        if form == "letarg":
            pre = f"let _{v}c = wrap("
            n = site(False, True, (line, col + len(pre)))
            return pre + f"{v}.clone());", [self.node({"k": "let"}, None, [self.node({"k": "call", "style": "ident", "name": "wrap"}, None, [n])])], None
        if form == "letblock":
            pre = f"let _{v}c = {{ "
            n = site(False, True, (line, col + len(pre)))
            return pre + f"{v}.clone() }};", [self.node({"k": "let"}, None, [self.node({"k": "block"}, None, [n])])], None
        if form == "letclosure":
            pre = f"let _{v}c = || "
            n = site(False, True, (line, col + len(pre)))
            return pre + f"{v}.clone();", [self.node({"k": "let"}, None, [self.node({"k": "closure"}, None, [n])])], None
        if form == "macro":
            pre = f"let _{v}c = format!(\"{{}}\", "
            n = site(False, True, (line, col + len(pre)))
            return pre + f"{v}.clone());", [self.node({"k": "let"}, None, [self.node({"k": "macro"}, None, [n])])], None
        if form == "stmt":
            return f"{v}.clone();", [site(False, True, (line, col))], None
        # method_after: the clone is the receiver of a further call, inside a let
        pre = f"let _{v}c = "
        n = site(False, True, (line, col + len(pre)))
        return pre + f"{v}.clone().len();", [self.node({"k": "let"}, None, [self.node({"k": "call", "style": "method", "name": "len"}, None, [n])])], None

    def path_text(self, st, line, col):
        parts, form = PATHS[st["path"]], st["form"]
        p = "::".join(parts)
        self.stats["path_" + form] = self.stats.get("path_" + form, 0) + 1
        site = lambda at, ch=None: self.node(None, {"k": "path", "parts": parts}, ch, at=at)  # noqa: E731
        if form == "stmt":
            return f'{p}("a");', [site((line, col))], None
        if form == "let":
            pre = "let _r = "
            return pre + f'{p}("a");', [self.node({"k": "let"}, None, [site((line, col + len(pre)))])], None
        if form == "await":
            return f'{p}("a").await;', [site((line, col))], None
        if form == "try":
            pre = "let _r = "
            return pre + f'{p}("a")?;', [self.node({"k": "let"}, None, [site((line, col + len(pre)))])], None
        if form == "unwrap":
            inner = site((line, col))
            return f'{p}("a").unwrap_or_default();', [self.node({"k": "call", "style": "method", "name": "unwrap_or_default"}, {"k": "unwrap", "m": "other"}, [inner], at=(line, col))], None
        pre = 'println!("{:?}", '
        n = site((line, col + len(pre)))
        return pre + f'{p}("a"));', [self.node({"k": "macro"}, None, [n])], None


IMPORT_VARIANTS = [
    (["use std::fs;", "use std::thread;", "use std::net::TcpStream;"], []),
    (["use tokio::fs;", "use std::thread;", "use std::net::TcpStream;"], ["fs"]),
    (["use std::fs;", "use std::thread;", "use tokio::net::TcpStream;"], ["TcpStream"]),
    (["use tokio::{fs, net};", "use std::thread;", "pub use async_std::net::UdpSocket as Udp;"], ["fs", "net", "Udp"]),
    (["use std::{fs, thread};", "use std::net::{TcpStream, UdpSocket};"], []),
]


def render_file(struct, flip, variant=0):
    r = Render(flip)
    for ln in IMPORT_VARIANTS[variant][0]:
        r.emit(0, ln)
    ch = r.items(0, struct)
    root = r.node(None, None, ch)
    r.stats["imports_variant_%d" % variant] = 1
    text = "\n".join(r.lines) + "\n"
    if variant % 3 == 1:
        # an item at the end of the file that the bundled grammar cannot parse (stable Rust 2024 syntax): the tree has an ERROR
        # node there and is perfectly good everywhere else
        text += "\nunsafe extern \"C\" {\n    pub safe fn c_hook();\n}\n"
        r.stats["file ends with an item the grammar cannot parse"] = 1
    return text, root, r.pos, r.stats, IMPORT_VARIANTS[variant][1]


def gen_project(rng, alphabet):
    g = Gen(rng, alphabet)
    files = {}
    base = [g.item(0) for _ in range(rng.randint(2, 5))]
    names = ["src/a.rs", "src/b.rs", "lib.rs", "src/deep/c.rs"]
    n_files = rng.choice([1, 2, 2, 3])
    for i in range(n_files):
        if i == 0:
            files[names[i]] = (base, False)
        elif rng.random() < 0.6:
            files[names[i]] = (base, True)            # twin: same byte layout, async-ness of every function flipped
        else:
            files[names[i]] = ([g.item(0) for _ in range(rng.randint(1, 4))], False)
    cfg = {}
    for sec, opts in OPTIONS.items():
        if rng.random() < 0.12:
            continue                                  # section absent: defaults
        cfg[sec] = {o: rng.random() < 0.5 for o in opts if rng.random() < 0.85}
    spell = {sec: rng.choice(["hyphen", "underscore"]) for sec in OPTIONS}
    return files, cfg, spell


def yaml_of(cfg, spell):
    out = {}
    for sec, opts in cfg.items():
        key = SECTION[sec] if spell[sec] == "hyphen" else SECTION[sec].replace("-", "_")
        out[key] = dict(opts)
    return out


def impl_case(args):
    idx, texts, ycfg, root = args
    import yaml
    proj = Path(root) / f"p{idx}"
    out = {"errors": [], "reports": {}}
    try:
        for rel, text in texts.items():
            f = proj / rel
            f.parent.mkdir(parents=True, exist_ok=True)
            f.write_text(text)
        (proj / ".thailint.yaml").write_text(yaml.safe_dump(ycfg, sort_keys=False) if ycfg else "{}\n")
        for linter in LINTERS:
            code, stdout = core.run_cli([linter, "--format", "json", "."], cwd=proj)
            vs = core.violations_json(stdout)
            if vs is None:
                out["errors"].append(f"{linter}: exit {code}: {stdout[:300]}")
                continue
            rep = []
            for v in vs:
                fp = v["file_path"]
                try:
                    fp = str(Path(fp).resolve().relative_to(proj.resolve()))
                except ValueError:
                    pass
                rep.append([fp, v["line"], v["column"], v["rule_id"]])
            out["reports"][linter] = sorted(rep)
            if code != (1 if vs else 0):
                out["errors"].append(f"{linter}: exit {code} with {len(vs)} violations")
    except Exception as exc:  # noqa: BLE001
        out["errors"].append(f"{type(exc).__name__}: {exc}")
    finally:
        shutil.rmtree(proj, ignore_errors=True)
    return out


def expected(drv, rendered, cfg):
    """model / spec / pre-repair reports per linter for one project"""
    exp = {k: {lt: [] for lt in LINTERS} for k in ("impl", "spec", "old")}
    meta = {"notPlain": 0, "macroSites": [], "sites": 0, "inTest": 0}
    for rel, (text, tree, pos, _stats, shadowed) in rendered.items():
        m = drv.call({"prop": PROP, "cfg": dict(cfg, shadowed=shadowed), "tree": tree})
        for kind in ("impl", "spec", "old"):
            for nid, rule in m[kind]:
                line, col = pos[nid]
                exp[kind][rule.split(".")[0]].append([rel, line, col, rule])
        meta["notPlain"] += len(m["notPlain"])
        meta["sites"] += m["sites"]
        meta["inTest"] += len(m["inTest"])
        meta["macroFree"] = meta.get("macroFree", True) and m["macroFree"]
    for kind in exp:
        for lt in LINTERS:
            exp[kind][lt].sort()
    return exp, meta


def run(tier: str, seed: int, st: core.ProofStatus) -> core.Result:
    res = core.Result()
    res.rule = ("seeded Rust projects of 1-3 files (one may be a byte-for-byte twin of another with every function's async-ness flipped): nested "
                "mod / impl / fn items with 0-3 attributes from an alphabet of 15 function and 7 module attributes, some separated from the item by a "
                "comment; bodies of loops (for, while, while let, loop, labelled), blocks, if/else, unsafe, closures, for_each, async blocks, nested "
                "functions and 9 wrapper spellings; 11 unwrap/expect, 12 clone and 6 blocking-path statement forms over 18 paths; every option of "
                "the three linters set at random or left out, section keys spelled with hyphen or underscore; non-trivial = a project in which "
                "some planted call is reported and some is not")
    rng = core.sub_rng(seed, PROP, tier)
    drv = core.Driver()
    alphabet = drv.call({"prop": PROP, "op": "alphabet"})
    n = 300 if tier == "quick" else 2500
    projects = [gen_project(rng, alphabet) for _ in range(n)]
    rendered_all = []
    for files, cfg, spell in projects:
        variant = rng.choice([0, 0, 0, 1, 2, 3, 4])          # one import style per project: twin files keep identical byte layout
        rendered_all.append({rel: render_file(struct, flip, variant) for rel, (struct, flip) in files.items()})
    root = core.scratch_dir("c17")
    try:
        impls = core.pmap(impl_case, [(i, {rel: r[0] for rel, r in rd.items()}, yaml_of(p[1], p[2]), str(root)) for i, (p, rd) in enumerate(zip(projects, rendered_all))],
                          procs=16, chunksize=2)
    finally:
        shutil.rmtree(root, ignore_errors=True)
    for (files, cfg, spell), rd, im in zip(projects, rendered_all, impls):
        res.evaluations += 1
        case = {"files": {rel: r[0] for rel, r in rd.items()}, "config": yaml_of(cfg, spell)}
        for r in rd.values():
            for k, v in r[3].items():
                res.bump("forms", k, v)
        res.bump("files_per_project", len(rd))
        res.bump("twin_files", sum(1 for _, fl in files.values() if fl))
        for sec in OPTIONS:
            res.bump("section_" + sec, spell[sec] if sec in cfg else "absent")
        if im["errors"]:
            res.disagreements.append(core.Disagreement(case=case, impl=im["errors"], model=None, spec=None, property_fails=True, note=im["errors"][0][:500]))
            continue
        exp, meta = expected(drv, rd, cfg)
        res.bump("sites_in_test_code", min(meta["inTest"], 20))
        total_rep = sum(len(v) for v in im["reports"].values())
        if 0 < total_rep < meta["sites"]:
            res.nontrivial.add(core.canon(case["files"]))
        for lt in LINTERS:
            got = im["reports"].get(lt, [])
            res.bump("reports_" + lt, min(len(got), 15))
            problems, fails = [], False
            if got != exp["impl"][lt]:
                if got == exp["old"][lt]:
                    dif = [x for x in got if x not in exp["impl"][lt]] + [x for x in exp["impl"][lt] if x not in got]
                    res.findings.setdefault("F17ab" if lt != "blocking-async" else "F17abd", {"linter": lt, "config": case["config"], "files": case["files"], "differs_at": dif[:4]})
                else:
                    extra = [x for x in got if x not in exp["impl"][lt]][:3]
                    missing = [x for x in exp["impl"][lt] if x not in got][:3]
                    problems.append(f"{lt}: implementation reports {extra} which the model does not, misses {missing}")
                    fails = got != exp["spec"][lt]
            if exp["impl"][lt] != exp["spec"][lt] and not problems:
                only_macro = [x for x in exp["spec"][lt] if x not in exp["impl"][lt]]
                extra = [x for x in exp["impl"][lt] if x not in exp["spec"][lt]]
                if extra or meta["macroFree"]:
                    if meta["notPlain"] == 0:
                        problems.append(f"{lt}: model differs from the specification: extra {extra[:3]} missing {only_macro[:3]}")
                else:
                    res.findings.setdefault(f"F17c:{lt}", {"linter": lt, "config": case["config"], "not_reported_inside_macro_arguments": only_macro[:3],
                                                           "files": {k: v for k, v in case["files"].items() if k == only_macro[0][0]}})
            if problems:
                res.disagreements.append(core.Disagreement(case=case, impl={lt: got[:12]}, model={lt: exp["impl"][lt][:12]}, spec={lt: exp["spec"][lt][:12]},
                                                           property_fails=fails, note=" | ".join(problems)[:2500]))
        if len(res.samples) < 2 and 2 < total_rep < 12:
            res.samples.append({"config": case["config"], "files": list(case["files"]), "reports": im["reports"]})
    drv.close()
    return res


def replay(path: str, st: core.ProofStatus) -> int:
    data = json.loads(Path(path).read_text())
    case = data.get("case") or data.get("witness")
    print(json.dumps(data, indent=1)[:3000])
    if case and "files" in case:
        root = core.scratch_dir("c17r")
        print(json.dumps(impl_case((0, case["files"], case.get("config") or {}, str(root))), indent=1)[:2500])
        shutil.rmtree(root, ignore_errors=True)
    print(f"VIOLATION property={PROP} replay={path}")
    return 1
