"""C18 — file-placement verdicts.  Rule sets over a small alphabet of directory keys and regular
expressions (nested directory rules, overlapping allow/deny, global_deny, global_patterns) x all paths
of a fixed tree; the real `thailint file-placement` against the Lean model (regex matching supplied as
the matrix Python's re.search computes) and against the specification; invalid patterns must be
rejected as configuration errors."""
from __future__ import annotations

import json
import re
import shutil
from pathlib import Path

from .. import core

PROP = "C18"
LEVEL_NOTE = ("theorems hold for every rule set, path and every regex semantics (matching is a parameter); Python's re is trusted; "
              "reading: global_deny and global_patterns apply to every file, also to files governed by a directory rule")

KEYS = ["src", "src/models", "tests", "/", "lib", "docs", "src/models/deep", "sr", "src/", "lib/", "scripts"]
PATTERNS = [r".*\.py$", r"test_.*", r".*_model\.py$", r"^(?!src/).*\.ts$", r".*\.(md|txt)$", r"__init__\.py$", r"tmp", r"\.yaml$", r"^src/", r".*",
            # anchors that belong to one alternative only, anchors inside groups, an end anchor first, inline flags, a lazy prefix
            r"^docs/|\.md$", r"^tests/|_model\.py$|^top", r"(^lib/|models/)", r"\.ts$|^src2/", r"(?s)^.*deep.*$", r"^$|helper", r".*?models/.*?\.py", r"\Asrc/|file\.py\Z"]
PATHS = ["scripts/build", "scripts/deploy", "lib/dist", "src/a.py", "src/models/user_model.py", "src/models/x.py", "src/models/deep/d_model.py", "src2/b.py", "srcfile.py", "tests/test_a.py",
         "tests/helper.py", "lib/c.ts", "README.md", "docs/guide.md", "src/a.ts", "top.py", "src/models/__init__.py", "notes.TMP", "lib/TMPfile.py",
         ".thailint.yaml"]
# a second rule set, used first on the same project directory in the same process: what it decided must not stick
PRIME = {"file-placement": {"directories": {"/": {"deny": [{"pattern": r".*", "reason": "PRIME"}]}, "src": {"allow": [r"^$"]}}}}


def _rel(fp, proj):
    q = Path(fp)
    try:
        return q.resolve().relative_to(Path(proj).resolve()).as_posix() if q.is_absolute() else q.as_posix()
    except ValueError:
        return q.as_posix()


def library_after_other_rules(proj, root, idx):
    """the same rule set through the library, after another Linter object judged the same directory by other rules"""
    import yaml
    from src.api import Linter
    prime = Path(root) / f"prime{idx}.yaml"
    prime.write_text(yaml.safe_dump(PRIME))
    try:
        Linter(config_file=prime, project_root=proj).lint(proj, rules=["file-placement"])
        vs = Linter(config_file=proj / ".thailint.yaml", project_root=proj).lint(proj, rules=["file-placement"])
        return sorted([_rel(v.file_path, proj), v.message] for v in vs)
    finally:
        prime.unlink(missing_ok=True)


def gen_config(rng):
    def pats(k=3):
        return sorted(rng.sample(range(len(PATTERNS)), rng.randint(1, k)))
    dirs = None
    if rng.random() < 0.85:
        dirs = []
        seen = set()
        for key in rng.sample(KEYS, rng.randint(1, 4)):
            if key.rstrip("/") in seen:
                continue      # one rule per directory: `src` and `src/` name the same one
            seen.add(key.rstrip("/"))
            r = {"key": key, "deny": None, "allow": None}
            m = rng.random()
            if m < 0.15:
                pass                      # an empty rule still governs (shields) its directory
            elif m < 0.5:
                r["allow"] = pats()
            elif m < 0.7:
                r["deny"] = pats(2)
            else:
                r["allow"], r["deny"] = pats(), pats(2)
            dirs.append(r)
    gd = pats(2) if rng.random() < 0.25 else None
    gp = None
    if rng.random() < 0.3:
        gp = {"deny": pats(2) if rng.random() < 0.5 else None, "allow": pats() if rng.random() < 0.6 else None}
    return {"dirs": dirs, "globalDeny": gd, "globalPatterns": gp}


def to_yaml_cfg(cfg):
    fp = {}
    deny_item = lambda i: {"pattern": PATTERNS[i], "reason": f"R{i}"}  # noqa: E731
    if cfg["dirs"] is not None:
        fp["directories"] = {}
        for r in cfg["dirs"]:
            d = {}
            if r["allow"] is not None:
                d["allow"] = [PATTERNS[i] for i in r["allow"]]
            if r["deny"] is not None:
                d["deny"] = [deny_item(i) for i in r["deny"]]
            fp["directories"][r["key"]] = d
    if cfg["globalDeny"] is not None:
        fp["global_deny"] = [deny_item(i) for i in cfg["globalDeny"]]
    if cfg["globalPatterns"] is not None:
        g = {}
        if cfg["globalPatterns"]["deny"] is not None:
            g["deny"] = [deny_item(i) for i in cfg["globalPatterns"]["deny"]]
        if cfg["globalPatterns"]["allow"] is not None:
            g["allow"] = [PATTERNS[i] for i in cfg["globalPatterns"]["allow"]]
        fp["global_patterns"] = g
    return {"file-placement": fp}


def impl_case(args):
    idx, ycfg, root = args
    import yaml
    proj = Path(root) / f"k{idx}"
    out = {"errors": []}
    try:
        for p in PATHS:
            f = proj / p
            f.parent.mkdir(parents=True, exist_ok=True)
            if p != ".thailint.yaml":
                f.write_text("x = 1\n")
        (proj / ".thailint.yaml").write_text(yaml.safe_dump(ycfg, sort_keys=False))
        lib_after = library_after_other_rules(proj, root, idx) if idx % 3 == 0 else None   # before anything else touched this directory
        code, stdout = core.run_cli(["file-placement", "--format", "json", "."], cwd=proj)
        vs = core.violations_json(stdout)
        if vs is None:
            out["errors"].append(f"exit {code}: {stdout[:300]}")
        else:
            out["vs"] = sorted([v["file_path"], v["message"]] for v in vs)
            out["exit"] = code
            if lib_after is not None:
                out["lib_after"] = lib_after
    except Exception as exc:  # noqa: BLE001
        out["errors"].append(f"{type(exc).__name__}: {exc}")
    finally:
        shutil.rmtree(proj, ignore_errors=True)
    return out


def invalid_case(args):
    idx, where, root = args
    import yaml
    proj = Path(root) / f"iv{idx}"
    proj.mkdir(parents=True)
    bad = "([a-z"
    fp = {"directories": {"src": {"allow": [bad]}}} if where == "allow" else {"directories": {"src": {"deny": [{"pattern": bad, "reason": "x"}]}}} if where == "deny" \
        else {"global_deny": [{"pattern": bad}]} if where == "global_deny" else {"global_patterns": {"allow": [bad]}}
    try:
        (proj / "src").mkdir()
        (proj / "src" / "a.py").write_text("x = 1\n")
        (proj / ".thailint.yaml").write_text(yaml.safe_dump({"file-placement": fp}))
        code, so, se = core.run_cli_subprocess(["file-placement", "."], cwd=proj)
        return {"where": where, "exit": code, "out": (so + se)[-200:]}
    finally:
        shutil.rmtree(proj, ignore_errors=True)


def message_of(v, rel):
    k = v["kind"]
    if k == "dirDeny":
        return f"File '{rel}' not allowed in {v['key']}: R{v['pat']}"
    if k == "dirAllow":
        return f"File '{rel}' does not match allowed patterns for {v['key']}"
    if k == "globalDeny":
        return f"R{v['pat']}"
    return f"File '{rel}' does not match any allowed patterns"


def run(tier: str, seed: int, st: core.ProofStatus) -> core.Result:
    res = core.Result()
    res.rule = ("seeded rule sets: 1-4 directory keys out of 8 (nested keys, '/', a key that is a string prefix of another directory name), "
                "allow / deny / both with 1-3 of 28 regexes, optional global_deny and global_patterns, judged on all 20 paths of a fixed "
                "tree (incl. src2/, srcfile.py, upper-case names, extension-less files named like build directories, the config file itself); every third rule set "
                "also through the library after another Linter object judged the same directory by other rules; 4 invalid-pattern placements; non-trivial = a "
                "rule set under which some path is reported and some is not")
    rng = core.sub_rng(seed, PROP, tier)
    n = 600 if tier == "quick" else 4000
    cfgs = [gen_config(rng) for _ in range(n)]
    # corpus: the F18a witness
    cfgs.insert(0, {"dirs": [{"key": "src", "deny": None, "allow": [2]}], "globalDeny": None, "globalPatterns": None})
    root = core.scratch_dir("c18")
    try:
        impls = core.pmap(impl_case, [(i, to_yaml_cfg(c), str(root)) for i, c in enumerate(cfgs)], procs=16, chunksize=4)
        invalid = core.pmap(invalid_case, [(i, w, str(root)) for i, w in enumerate(["allow", "deny", "global_deny", "global_patterns"])], procs=4)
    finally:
        shutil.rmtree(root, ignore_errors=True)
    matrix = [[bool(re.compile(p, re.IGNORECASE).search(path)) for p in PATTERNS] for path in PATHS]
    drv = core.Driver()
    probe_old = None
    for ci, (c, im) in enumerate(zip(cfgs, impls)):
        res.evaluations += 1
        case = {"config": to_yaml_cfg(c)}
        if im["errors"]:
            res.disagreements.append(core.Disagreement(case=case, impl=im["errors"], model=None, spec=None, property_fails=True, note=im["errors"][0][:500]))
            continue
        m = drv.call({"prop": PROP, **c, "componentAware": True, "paths": [{"path": p, "matches": mt} for p, mt in zip(PATHS, matrix)]})
        exp, exp_old_rep, spec_rep = [], [], []
        for p, mp in zip(PATHS, m["paths"]):
            for v in mp["violations"]:
                exp.append([p, message_of(v, p)])
            if mp["spec"]:
                spec_rep.append(p)
            if mp["modelOld"]:
                exp_old_rep.append(p)
        exp.sort()
        got_rep = sorted({f for f, _ in im["vs"]})
        model_rep = sorted({f for f, _ in exp})
        res.bump("reported_paths", min(len(got_rep), len(PATHS)))
        if 0 < len(got_rep) < len(PATHS):
            res.nontrivial.add(core.canon(case))
        problems, fails = [], False
        if im["vs"] != exp:
            if got_rep == sorted(exp_old_rep) and got_rep != model_rep:
                res.findings.setdefault("F18a", {"config": case["config"], "reported_though_not_contained": [p for p in got_rep if p not in model_rep][:4]})
            else:
                problems.append(f"implementation {[v for v in im['vs'] if v not in exp][:3]} vs model {[v for v in exp if v not in im['vs']][:3]}")
                if got_rep != sorted(spec_rep):
                    fails = True
        if model_rep != sorted(spec_rep):
            problems.append(f"model verdicts differ from the specification on {sorted(set(model_rep) ^ set(spec_rep))[:4]}")
        if "lib_after" in im:
            res.bump("library_after_other_rules", "same" if im["lib_after"] == im["vs"] else "differs")
            if im["lib_after"] != im["vs"]:
                problems.append(f"a second Linter object on the same directory, after one with other rules: {[v for v in im['lib_after'] if v not in im['vs']][:3]} / "
                                f"missing {[v for v in im['vs'] if v not in im['lib_after']][:3]}")
                fails = True
        if im["exit"] != (1 if im["vs"] else 0):
            problems.append(f"exit {im['exit']} with {len(im['vs'])} violations")
            fails = True
        if problems:
            res.disagreements.append(core.Disagreement(case=case, impl=im["vs"][:10], model=exp[:10], spec=spec_rep, property_fails=fails, note=" | ".join(problems)[:2500]))
        if len(res.samples) < 2 and 2 < len(got_rep) < 12:
            res.samples.append({"config": case["config"], "reported": got_rep})
    drv.close()
    for iv in invalid:
        res.evaluations += 1
        res.bump("invalid_pattern_where", iv["where"])
        if iv["exit"] != 2:
            res.disagreements.append(core.Disagreement(case={"invalid_pattern_in": iv["where"]}, impl=iv, model={"exit": 2}, spec={"exit": 2}, property_fails=True,
                                                       note=f"syntactically invalid pattern in {iv['where']}: exit {iv['exit']} instead of 2: {iv['out']}"))
    return res


def replay(path: str, st: core.ProofStatus) -> int:
    data = json.loads(Path(path).read_text())
    case = data.get("case") or data.get("witness")
    print(json.dumps(data, indent=1)[:2500])
    if case and "config" in case:
        root = core.scratch_dir("c18r")
        print(json.dumps(impl_case((0, case["config"], str(root))), indent=1)[:2000])
        shutil.rmtree(root, ignore_errors=True)
    print(f"VIOLATION property={PROP} replay={path}")
    return 1
