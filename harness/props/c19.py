"""C19 — every linter honours its documented examples, wherever they are embedded.

T1: the examples are extracted from /repo/docs/*-linter.md on every run (harness/extract_examples.py); used are
the blocks of each document's "Violation Examples" section that the text itself labels ("Code with violation",
VIOLATION line markers, "Refactored code"), with the configuration the text states for them.
(A) absolute: every documented violating example is reported by its linter (with the documented rule id where
the document prints one), every documented refactoring is not.
(B) embedding, for the pattern linters: each parsable example is embedded 1-3 times (same names or renamed) at
module level, inside functions, methods, if / try / with blocks, between filler code; the findings must be
those the Lean walk model computes from the stand-alone findings (k copies -> k times, in order, shifted)."""
from __future__ import annotations

import ast
import json
import re
import shutil
from pathlib import Path

from .. import core
from ..extract_examples import extract

PROP = "C19"
LEVEL_NOTE = ("theorems hold for every tree, context, multiplicity and renaming under the walk scheme (full traversal, verdict a function of the subtree); "
              "that each linter follows the scheme and what its verdict is on the documented examples is tied by the correspondence check only")

CMD = {"collection-pipeline": "pipeline", "performance": "perf"}
PREFIX = {"collection-pipeline": "collection-pipeline", "performance": "performance", "print-statements": "improper-logging", "improper-logging": "improper-logging"}
EXT = {"py": ".py", "ts": ".ts", "js": ".js", "rs": ".rs"}
EMBEDDABLE = {"print-statements", "improper-logging", "method-property", "stateless-class", "collection-pipeline", "lbyl", "performance", "cqs"}
KNOWN_RULE_PREFIXES = ("nesting", "srp", "dry", "magic-numbers", "file-placement", "improper-logging", "print-statements", "stringly-typed", "file-header", "method-property",
                       "stateless-class", "collection-pipeline", "lazy-ignores", "performance", "unwrap-abuse", "clone-abuse", "blocking-async", "lbyl", "cqs")


def selected_examples():
    docs = Path(core.REPO) / "docs"
    allx = extract(docs)
    texts = {}
    out = []
    for e in allx:
        if "violation examples" not in e["section"].lower():
            continue
        label = e["label"].lower()
        if e["kind"] == "violation" and (e["marked"] or label.startswith("**code with violation")):
            pass
        elif e["kind"] == "acceptable" and label.startswith("**refactored code"):
            pass
        else:
            continue
        # documented configuration and documented rule ids: from the example's own heading / label / markers and the "Violation message" block after it
        lines = texts.setdefault(e["doc"], (docs / e["doc"]).read_text(encoding="utf-8").split("\n"))
        after = "\n".join(lines[e["line"] + len(e["code"].split("\n")): e["line"] + len(e["code"].split("\n")) + 14])
        msg_block = ""
        m = re.search(r"\*\*Violation messages?:?\*\*:?\s*\n```[^\n]*\n(.*?)```", after, re.S)
        if m:
            msg_block = m.group(1)
        cfg = {}
        ctx_text = " ".join([e["heading"], e["label"], e["code"], msg_block])
        if e["linter"] == "nesting":
            mm = re.search(r"max\s*[=:]\s*(\d+)", ctx_text)
            if mm:
                cfg["nesting"] = {"max_nesting_depth": int(mm.group(1))}
        if e["linter"] == "unwrap-abuse" and re.search(r"allow_expect[`:\s]*(?:is\s*)?`?false", ctx_text, re.I):
            cfg["unwrap-abuse"] = {"allow_expect": False}
        if e["linter"] == "dry":
            cfg["dry"] = {"enabled": True}
        e["config"] = cfg
        e["doc_rules"] = sorted({r for r in re.findall(r"\b([a-z]+(?:-[a-z]+)*\.[a-z]+(?:-[a-z]+)*)\b", msg_block) if r.split(".")[0] in KNOWN_RULE_PREFIXES}) if e["kind"] == "violation" else []
        out.append(e)
    return out


def lint_text(proj: Path, linter: str, lang: str, text: str, cfg: dict):
    import yaml
    shutil.rmtree(proj, ignore_errors=True)
    (proj / "src").mkdir(parents=True)
    (proj / ".git").mkdir()
    f = proj / "src" / ("example" + EXT[lang])
    parts = re.split(r"(?m)^(?://|#) File: (\S+)[^\n]*\n", text)
    if len(parts) >= 5 and not parts[0].strip():
        # one documented block that shows several files ("// File: src/a.ts" ... "// File: src/b.ts")
        for name, body in zip(parts[1::2], parts[2::2]):
            g = proj / (name if name.startswith("src/") else "src/" + name)
            g.parent.mkdir(parents=True, exist_ok=True)
            g.write_text(body)
        f = proj / (parts[1] if parts[1].startswith("src/") else "src/" + parts[1])
    else:
        f.write_text(text)
    (proj / ".thailint.yaml").write_text(yaml.safe_dump(cfg) if cfg else "{}\n")
    pre = PREFIX.get(linter, linter)
    if linter == "cqs":
        from src.orchestrator.core import Orchestrator
        core._reset_singletons()
        vs = Orchestrator(project_root=proj).lint_file(f)
        return 0, sorted([v.rule_id, v.line] for v in vs if v.rule_id.startswith("cqs")), ""
    code, out = core.run_cli([CMD.get(linter, linter), "--format", "json", "src"], cwd=proj)
    vs = core.violations_json(out)
    if vs is None:
        return code, None, out[-200:]
    return code, sorted([v["rule_id"], v["line"]] for v in vs if v["rule_id"].startswith(pre)), ""


FILLER_PY = ["def filler_{i}(value):", "    copy_{i} = value", "    return copy_{i}", ""]
FILLER_PY_VARIANTS = [
    FILLER_PY,
    ["def filler_{i}(text):", "    import re as regex_mod_{i}", "    import os as operating_{i}", "    return regex_mod_{i}.escape(text), operating_{i}.sep", ""],
    ["class Filler{i}:", "    def __init__(self, value):", "        self.value_{i} = value", "", "    def bump(self):", "        self.value_{i} += 1", "        return self.value_{i}", ""],
    ["from re import compile as compile_{i}", "FILLER_{i} = compile_{i}('a+')", ""],
    ["def filler_{i}(flag):", "    if flag:", "        return None", "    return flag", ""],
]
FILLER_TS = ["function filler{i}(value: number): number {{", "  const copy{i} = value;", "  return copy{i};", "}}", ""]


def defined_names(code: str):
    names = set()
    try:
        tree = ast.parse(code)
    except SyntaxError:
        return names
    for node in ast.walk(tree):
        if isinstance(node, (ast.FunctionDef, ast.AsyncFunctionDef, ast.ClassDef)) and not node.name.startswith("__"):
            names.add(node.name)
    return names


PY_CONTEXTS = ["module", "function", "method", "if", "try", "with", "nested", "for", "for_matching", "while",
               "fluent_method", "init", "property", "async_function", "decorated", "else_branch"]
PY_TAILS = {"try": ["except Exception:", "    raise"], "fluent_method": ["        return self"], "property": ["        return self._value"]}


def embed_py(rng, code: str, k: int, renamed: bool, ctx: str | None = None):
    """returns (text, copies) where copies = list of (first line of the copy in the file, indent)"""
    ctx = ctx or rng.choice(["module", "module", "module", "function", "method", "if", "try", "with", "nested", "for", "for_matching", "while"])
    head, indent = {"for": (["for outer_item in OUTER_ITEMS:"], "    "), "while": (["while keep_running():"], "    "),
                    "for_matching": (["for outer_item in OUTER_ITEMS:", "    if not outer_item:", "        continue"], "    "),
                    "module": ([], ""), "function": (["def outer_scope():"], "    "), "method": (["class OuterScope:", "    def run(self):"], "        "),
                    "if": (["if FEATURE_FLAG:"], "    "), "try": (["try:"], "    "), "with": (["with managed():"], "    "),
                    "nested": (["def outer_scope():", "    if FEATURE_FLAG:", "        with managed():"], "            "),
                    # functions that rules treat specially themselves (a fluent builder method, a constructor, a property getter, a
                    # coroutine, a decorated function): what is defined inside them is still code of its own
                    "fluent_method": (["class OuterBuilder:", "    def with_defaults(self):"], "        "),
                    "init": (["class OuterScope:", "    def __init__(self):"], "        "),
                    "property": (["class OuterScope:", "    @property", "    def value(self):"], "        "),
                    "async_function": (["async def outer_scope():"], "    "),
                    "decorated": (["@functools.cache", "def outer_scope():"], "    "),
                    "else_branch": (["if FEATURE_FLAG:", "    pass", "else:"], "    ")}[ctx]
    lines, copies = [], []
    n_fill = 0
    for _ in range(rng.randint(0, 2)):
        lines += [ln.format(i=n_fill) for ln in rng.choice(FILLER_PY_VARIANTS)]
        n_fill += 1
    lines += head
    names = defined_names(code)
    for c in range(k):
        body = code
        if renamed and c > 0:
            for nm in sorted(names, key=len, reverse=True):
                body = re.sub(r"(?<![\w.])" + re.escape(nm) + r"(?![\w])", f"{nm}_{c}" if not nm[0].isupper() else f"{nm}{c}", body)
        copies.append((len(lines) + 1, indent))
        lines += [(indent + ln) if ln.strip() else ln for ln in body.split("\n")]
        if c < k - 1:
            lines += [indent + f"separator_{c} = {c}", ""]
    lines += PY_TAILS.get(ctx, [])
    for _ in range(rng.randint(0, 2)):
        lines += [""] + [ln.format(i=n_fill) for ln in rng.choice(FILLER_PY_VARIANTS)]
        n_fill += 1
    return "\n".join(lines) + "\n", copies, ctx


TS_CONTEXTS = ["module", "function", "if", "namespace"]


def embed_ts(rng, code: str, k: int, renamed: bool, ctx: str | None = None):
    ctx = ctx or rng.choice(["module", "function", "if", "namespace"])
    head, tail, indent = {"module": ([], [], ""), "function": (["function outerScope(): void {"], ["}"], "  "), "if": (["if (FEATURE_FLAG) {"], ["}"], "  "),
                          "namespace": (["namespace OuterScope {"], ["}"], "  ")}[ctx]
    lines, copies = [], []
    for i in range(rng.randint(0, 2)):
        lines += [ln.format(i=i) for ln in FILLER_TS]
    lines += head
    names = set(re.findall(r"\b(?:function|class)\s+(\w+)", code))
    for c in range(k):
        body = code
        if renamed and c > 0:
            for nm in sorted(names, key=len, reverse=True):
                body = re.sub(r"(?<![\w.])" + re.escape(nm) + r"(?![\w])", f"{nm}{c}", body)
        elif c > 0 and names and ctx != "module":
            pass
        copies.append((len(lines) + 1, indent))
        lines += [(indent + ln) if ln.strip() else ln for ln in body.split("\n")]
    lines += tail
    return "\n".join(lines) + "\n", copies, ctx


def inlined_variant(code: str):
    """the body of a documented single-function example used at statement level (its `return X` becomes an assignment):
    the same detector must report the same constructs when the documented code is not wrapped in its own function"""
    try:
        tree = ast.parse(code)
    except SyntaxError:
        return None
    defs = [n for n in tree.body if isinstance(n, ast.FunctionDef)]
    others = [n for n in tree.body if not isinstance(n, (ast.FunctionDef, ast.Import, ast.ImportFrom))]
    if len(defs) != 1 or others or any(isinstance(n, (ast.Yield, ast.YieldFrom, ast.Await)) for n in ast.walk(defs[0])):
        return None
    fn = defs[0]
    if any(isinstance(n, ast.Return) for st in fn.body[:-1] for n in ast.walk(st)):
        return None
    lines = code.split("\n")
    head = [ln for n in tree.body if isinstance(n, (ast.Import, ast.ImportFrom)) for ln in lines[n.lineno - 1:n.end_lineno]]
    body = lines[fn.body[0].lineno - 1:fn.end_lineno]
    ind = len(body[0]) - len(body[0].lstrip())
    body = [ln[ind:] if ln.strip() else ln for ln in body]
    last = fn.body[-1]
    if isinstance(last, ast.Return):
        k = last.lineno - fn.body[0].lineno
        body[k] = body[k].replace("return", "inlined_result =", 1) if last.value is not None else "pass"
    return "\n".join(head + body)


def example_case(args):
    idx, e, embeds, root = args
    proj = Path(root) / f"x{idx}"
    res = {"errors": []}
    try:
        code, vs, tail = lint_text(proj, e["linter"], e["lang"], e["code"] + "\n", e["config"])
        res["standalone"] = {"exit": code, "vs": vs, "tail": tail}
        res["embedded"] = []
        for text, copies, ctx, k, renamed in embeds:
            code2, vs2, tail2 = lint_text(proj, e["linter"], e["lang"], text, e["config"])
            res["embedded"].append({"exit": code2, "vs": vs2, "tail": tail2})
    except Exception as exc:  # noqa: BLE001
        res["errors"].append(f"{type(exc).__name__}: {exc}")
    finally:
        shutil.rmtree(proj, ignore_errors=True)
    return res


def pattern_details_probe(res) -> None:
    """docs/lbyl-linter.md documents its patterns under 'Pattern Details' ('**Detects:**' blocks), not under 'Violation Examples',
    so the extractor does not see them.  Every such block that is reported stand-alone under the default pattern switches must keep
    each of its findings in every Python context (Lean: `embedded_finding_reported`, `embedding_count_ge`): read from the
    documentation on every run, one embedding per context, no random choice."""
    import random
    doc_path = core.REPO / "docs" / "lbyl-linter.md" if hasattr(core, "REPO") else Path("/repo/docs/lbyl-linter.md")
    if not doc_path.exists():
        return
    doc = doc_path.read_text()
    if "## Pattern Details" not in doc:
        return
    sec = doc.split("## Pattern Details", 1)[1].split("\n## ", 1)[0]
    blocks = re.findall(r"\*\*Detects:\*\*\s*\n```python\n(.*?)```", sec, flags=re.S)
    cfg = {"lbyl": {"enabled": True}}
    root = core.scratch_dir("c19p")
    try:
        for b in blocks:
            code = b.rstrip("\n")
            doc_line = doc[:doc.index(b)].count("\n") + 1
            _, vs0, _ = lint_text(root / "p", "lbyl", "py", code + "\n", cfg)
            res.evaluations += 1
            res.bump("lbyl pattern details", "reported stand-alone" if vs0 else "not reported under the default switches")
            if not vs0:
                continue
            rules0 = sorted(v[0] for v in vs0)
            for ctx in PY_CONTEXTS:
                text, copies, ctx = embed_py(random.Random(0), code, 1, False, ctx)
                _, vs1, tail1 = lint_text(root / "p", "lbyl", "py", text, cfg)
                res.evaluations += 1
                res.bump("lbyl pattern details context", ctx)
                res.nontrivial.add(core.canon(["lbyl-pattern", doc_line, ctx]))
                rules1 = sorted(v[0] for v in (vs1 or []))
                lost = [r for r in set(rules0) if rules1.count(r) < rules0.count(r)]
                if lost:
                    res.disagreements.append(core.Disagreement(
                        case={"doc": "lbyl-linter.md", "doc_line": doc_line, "linter": "lbyl", "lang": "py", "kind": "pattern-details", "config": cfg,
                              "code": code, "embedded": text, "context": ctx},
                        impl=vs1, model=vs0, spec="every stand-alone finding of the documented pattern survives the embedding",
                        property_fails=True,
                        note=f"docs/lbyl-linter.md:{doc_line} (Pattern Details) embedded in {ctx}: findings {lost} are lost ({tail1[-200:] if tail1 else ''})"))
    finally:
        shutil.rmtree(root, ignore_errors=True)


def run(tier: str, seed: int, st: core.ProofStatus) -> core.Result:
    res = core.Result()
    res.rule = ("every labelled example of the 'Violation Examples' sections of docs/*-linter.md (extracted on every run) with its documented configuration: "
                "stand-alone verdict (reported / not reported, documented rule ids); for the pattern linters each parsable Python / TypeScript example is embedded "
                "in 7 Python / 4 TypeScript contexts x multiplicity 1-3 x same or renamed identifiers x 0-2 filler functions before and after, and the "
                "findings must equal those of the Lean walk model built from the stand-alone findings; non-trivial = an embedding whose example has findings")
    rng = core.sub_rng(seed, PROP, tier)
    examples = selected_examples()
    for e in list(examples):
        if e["lang"] == "py" and e["linter"] in ("performance", "collection-pipeline", "lbyl", "print-statements", "improper-logging"):
            inl = inlined_variant(e["code"])
            if inl:
                examples.append(dict(e, code=inl, kind="derived", doc_rules=[], derived_from=e["line"]))
    n_embed = 12 if tier == "quick" else 40
    jobs = []
    for i, e in enumerate(examples):
        embeds = []
        parsable = False
        if e["lang"] == "py":
            try:
                ast.parse(e["code"])
                parsable = True
            except SyntaxError:
                parsable = False
        elif e["lang"] == "ts":
            parsable = e["code"].count("{") == e["code"].count("}")
        blocked = "__main__" in e["code"] or "import *" in e["code"] or "from __future__" in e["code"]
        if e["linter"] in EMBEDDABLE and parsable and not blocked and e["lang"] in ("py", "ts"):
            for ctx in (PY_CONTEXTS if e["lang"] == "py" else TS_CONTEXTS):       # every context once
                text, copies, ctx = (embed_py if e["lang"] == "py" else embed_ts)(rng, e["code"], 1, False, ctx)
                embeds.append((text, copies, ctx, 1, False))
            for _ in range(n_embed):
                k = rng.choice([1, 2, 2, 3])
                renamed = rng.random() < 0.5
                text, copies, ctx = (embed_py if e["lang"] == "py" else embed_ts)(rng, e["code"], k, renamed)
                embeds.append((text, copies, ctx, k, renamed))
        jobs.append((i, e, embeds))
    root = core.scratch_dir("c19")
    try:
        impls = core.pmap(example_case, [(i, e, emb, str(root)) for i, e, emb in jobs], procs=16, chunksize=1)
    finally:
        shutil.rmtree(root, ignore_errors=True)
    drv = core.Driver()
    for (i, e, embeds), im in zip(jobs, impls):
        res.evaluations += 1
        where = f"{e['doc']}:{e['line']}" + ("(body inlined)" if e["kind"] == "derived" else "")
        res.bump("examples", f"{e['linter']}:{e['kind']}")
        case = {"doc": e["doc"], "doc_line": e["line"], "linter": e["linter"], "kind": e["kind"], "config": e["config"], "code": e["code"]}
        if im["errors"]:
            res.disagreements.append(core.Disagreement(case=case, impl=im["errors"], model=None, spec=None, property_fails=False, note=im["errors"][0][:400]))
            continue
        sa = im["standalone"]
        if sa["vs"] is None:
            res.disagreements.append(core.Disagreement(case=case, impl=sa, model=None, spec=None, property_fails=True, note=f"{where}: linter exits {sa['exit']} on the example: {sa['tail']}"))
            continue
        # (A) absolute
        problem = None
        if e["kind"] == "violation":
            if not sa["vs"]:
                problem = f"{where}: documented as a {e['linter']} violation but nothing is reported (config {e['config'] or 'default'})"
            else:
                missing = [r for r in e["doc_rules"] if r.startswith(PREFIX.get(e["linter"], e["linter"]).split('.')[0]) and not any(v[0] == r for v in sa["vs"])]
                if missing:
                    problem = f"{where}: documented rule id {missing} not among the reported {sorted({v[0] for v in sa['vs']})}"
        elif e["kind"] == "acceptable" and sa["vs"]:
            problem = f"{where}: documented as the refactored / acceptable form but {e['linter']} reports {sa['vs'][:3]}"
        if problem:
            res.findings.setdefault(f"F19:{where}", {"doc": e["doc"], "doc_line": e["line"], "linter": e["linter"], "what": problem, "config": e["config"], "code": e["code"][:1500]})
        # (B) embedding through the Lean walk model
        for (text, copies, ctx, k, renamed), emb in zip(embeds, im["embedded"]):
            res.evaluations += 1
            res.bump("embedding_context", f"{e['lang']}:{ctx}")
            res.bump("multiplicity", k)
            ecase = dict(case, embedded=text, context=ctx, copies=k, renamed=renamed)
            if emb["vs"] is None:
                res.disagreements.append(core.Disagreement(case=ecase, impl=emb, model=None, spec=None, property_fails=True,
                                                           note=f"{where} embedded in {ctx} x{k}: exit {emb['exit']}: {emb['tail']}"))
                continue
            rules = sorted({v[0] for v in sa["vs"]})
            verdict = [[rules.index(v[0]) * 1000 + v[1], 0] for v in sa["vs"]]        # (rule, relative line) packed
            tree = {"label": 0, "name": 0, "ch": [{"label": 0, "name": 0, "ch": []}] + [{"label": 7, "name": c + 1, "ch": []} for c in range(k)]}
            m = drv.call({"prop": PROP, "tree": tree, "verdicts": [[7, [x[0] for x in verdict]]]})
            exp = []
            for packed, anchor in m["findings"]:
                first, _indent = copies[anchor - 1]
                exp.append([rules[packed // 1000], first + (packed % 1000) - 1])
            exp.sort()
            if sa["vs"]:
                res.nontrivial.add(f"{where}:{ctx}:{k}:{renamed}:{res.evaluations}")
            loop_ctx = ctx in ("for", "for_matching", "while")
            if loop_ctx:
                # the enclosing loop may be a finding of its own and may turn the example's statements into further findings
                # (regex / concatenation now inside a loop): the example's own findings must all survive
                remaining = list(emb["vs"])
                lost = []
                for v in exp:
                    if v in remaining:
                        remaining.remove(v)
                    else:
                        lost.append(v)
                if lost:
                    res.disagreements.append(core.Disagreement(case=ecase, impl=emb["vs"][:10], model=exp[:10], spec="the example's findings survive the embedding",
                                                               property_fails=True,
                                                               note=f"{where} ({e['linter']}, {e['kind']}) embedded in a {ctx} loop x{k}: the example's findings {lost[:3]} are missing"))
                continue
            if emb["vs"] != exp:
                gained = [v for v in emb["vs"] if v not in exp][:3]
                lost = [v for v in exp if v not in emb["vs"]][:3]
                if e["linter"] == "cqs" and e["lang"] == "ts" and ctx == "function" and not lost:
                    res.findings.setdefault("F19d", {"doc": e["doc"], "doc_line": e["line"], "what": "cqs (TypeScript) reports the enclosing function for the operations of "
                                                     "functions nested in it", "embedded": text[:1200], "unexpected": gained})
                    continue
                res.disagreements.append(core.Disagreement(case=ecase, impl=emb["vs"][:10], model=exp[:10], spec="k copies report k times the stand-alone findings, shifted",
                                                           property_fails=True,
                                                           note=f"{where} ({e['linter']}, {e['kind']}) embedded in {ctx} x{k}{' renamed' if renamed else ''}: unexpected {gained} missing {lost}"))
    drv.close()
    pattern_details_probe(res)
    res.samples.append({"examples": len(examples), "by_linter": sorted({e["linter"] for e in examples})})
    return res


def replay(path: str, st: core.ProofStatus) -> int:
    data = json.loads(Path(path).read_text())
    case = data.get("case") or data.get("witness") or {}
    print(json.dumps(data, indent=1)[:3500])
    if "linter" in case and ("embedded" in case or "code" in case):
        root = core.scratch_dir("c19r")
        lang = case.get("lang") or ("py" if "def " in case.get("code", "") or "import " in case.get("code", "") else "ts")
        for e in selected_examples():
            if e["doc"] == case.get("doc") and e["line"] == case.get("doc_line"):
                lang = e["lang"]
        print(lint_text(root / "p", case["linter"], lang, case.get("embedded") or case["code"] + "\n", case.get("config") or {}))
        shutil.rmtree(root, ignore_errors=True)
    print(f"VIOLATION property={PROP} replay={path}")
    return 1
