"""C20 — config tooling.  (a) `thailint init-config` without --force on generated existing files (any subset
of sections, hyphen/underscore spellings, comments, extra keys, block / flow / indented styles, banner
present or not, document markers) x presets: real CLI against the Lean text-level model (outcome and exact
merged text, Python's YAML parser supplied as the parser parameter) and against the specification (valid
YAML, every old setting kept and in effect, second run changes nothing).  (b) the generated file of every
preset is accepted by every linter command.  (c) sequences of `config set / get / reset` on YAML and JSON
files: exit codes, printed values, file contents after every command against the Lean state machine."""
from __future__ import annotations

import json
import math
import shutil
from pathlib import Path

from .. import core

PROP = "C20"
LEVEL_NOTE = ("theorems hold for every text, template and YAML parser (the parser is a parameter) and for every command sequence; PyYAML / json "
              "round trips and Python's int()/float() conversions are trusted and sampled by the correspondence check")

PRESETS = ["strict", "standard", "lenient"]


# ---------------------------------------------------------------- (a) init-config merge
def user_value(rng, depth=0):
    x = rng.random()
    if x < 0.3:
        return rng.choice([True, False])
    if x < 0.6:
        return rng.choice([0, 1, 2, 3, 7, 42, 1000])
    if x < 0.75:
        return rng.choice(["text", "src/**", "a b", "#not-a-comment", "x: y", ""])
    if x < 0.9 or depth > 0:
        return [rng.choice([1, 2, 42, "a", "tests/"]) for _ in range(rng.randint(0, 3))]
    return {rng.choice(["python", "typescript", "rust"]): {"max_nesting_depth": rng.randint(1, 6)}}


def gen_existing(rng, sections, template_text):
    """returns (text, style) — a valid YAML mapping written the way users write it"""
    import yaml
    chosen = rng.sample(sections, rng.randint(0, min(len(sections), 6)))
    if rng.random() < 0.1:
        chosen = list(sections)
    entries = []
    for name in chosen:
        spelled = name.replace("-", "_") if rng.random() < 0.3 else name
        if name == "pipeline" and rng.random() < 0.6:
            spelled = rng.choice(["collection-pipeline", "collection_pipeline"])      # the names the linter's documentation uses
        body = {"enabled": rng.random() < 0.7}
        for _ in range(rng.randint(0, 3)):
            body[rng.choice(["max_nesting_depth", "max_methods", "allowed_numbers", "ignore", "min_duplicate_lines", "custom_opt"])] = user_value(rng)
        if name == "pipeline":
            body["min_continues"] = rng.choice([1, 2, 3])
        if name == "nesting":
            body["max_nesting_depth"] = rng.choice([1, 2, 3, 5])
        if name == "stateless-class":
            body["min_methods"] = rng.choice([1, 3, 5])
        entries.append((spelled, body if rng.random() < 0.9 else None))
    for extra in rng.sample(["exclude", "output_format", "my-team-setting", "fail_on_violations", "version"], rng.randint(0, 2)):
        entries.append((extra, user_value(rng, 1) if extra in ("exclude", "my-team-setting") else rng.choice(["json", True, 2])))
    rng.shuffle(entries)
    style = rng.choices(["block", "block_comments", "flow_values", "flow_doc", "indented", "markers", "json_doc", "banner"], [30, 25, 12, 6, 4, 5, 4, 14])[0]
    if not entries and style in ("flow_doc", "json_doc", "indented"):
        style = "block"
    doc = dict(entries)
    if style == "flow_doc":
        text = yaml.safe_dump(doc, default_flow_style=True, sort_keys=False, width=10000)
    elif style == "json_doc":
        text = json.dumps(doc, indent=rng.choice([None, 2])) + "\n"
    elif style == "indented":
        text = "".join("  " + ln + "\n" for ln in yaml.safe_dump(doc, sort_keys=False).splitlines())
    else:
        parts = []
        for k, v in entries:
            if style == "flow_values":
                inline = yaml.safe_dump(v, default_flow_style=True, width=10000).strip()
                if inline.endswith("..."):
                    inline = inline[:-3].strip()
                chunk = f"{k}: {inline}\n"
            else:
                chunk = yaml.safe_dump({k: v}, sort_keys=False, default_flow_style=False)
            if style in ("block_comments", "banner") and rng.random() < 0.6:
                chunk = rng.choice(["# team override\n", "# see ADR-12: keep low\n", "\n# ---- section ----\n"]) + chunk
                if rng.random() < 0.4:
                    lines = chunk.splitlines()
                    lines[-1] += "  # keep"
                    chunk = "\n".join(lines) + "\n"
            parts.append(chunk)
        if style == "banner":
            # the GLOBAL SETTINGS banner of the shipped template, with the user's global settings after it
            banner = "# ============================================================================\n# GLOBAL SETTINGS\n# ============================================================================\n"
            cut = rng.randint(0, len(parts))
            text = "".join(parts[:cut]) + banner + "".join(parts[cut:])
            if rng.random() < 0.3:
                text = "# my config\n" + text
        else:
            text = "".join(parts)
        if style == "markers":
            text = "---\n" + text + rng.choice(["...\n", ""])
    tail = rng.choice(["", "", "\n", "\n\n", "   \n", "NONL"])
    if tail == "NONL":
        text = text.rstrip("\n")
    else:
        text += tail
    return text, style


def canon_val(v):
    return json.dumps(v, sort_keys=True, default=str)


def doc_json(text):
    import yaml
    try:
        d = yaml.safe_load(text)
    except yaml.YAMLError:
        return None
    if d is None:
        d = {}
    if not isinstance(d, dict):
        return "notmapping"
    return [{"k": str(k), "v": canon_val(v)} for k, v in d.items()]


def merge_case(args):
    idx, text, preset, root = args
    import yaml

    from src.cli.config import _generate_config_content
    from src.core.config_parser import _normalize_config_keys
    d = Path(root) / f"m{idx}"
    d.mkdir(parents=True)
    out = {"errors": []}
    try:
        f = d / ".thailint.yaml"
        f.write_bytes(text.encode("utf-8"))
        code, stdout = core.run_cli(["init-config", "--non-interactive", "--preset", preset, "-o", str(f)], cwd=d)
        after = f.read_bytes().decode("utf-8")
        code2, _ = core.run_cli(["init-config", "--non-interactive", "--preset", preset, "-o", str(f)], cwd=d)
        after2 = f.read_bytes().decode("utf-8")
        out["effect"] = behaviour(d, text, after) if after != text else None
        out.update({"exit": code, "after": after, "exit2": code2, "after2": after2, "stdout": stdout[-300:],
                    "template": _generate_config_content(preset).split("\n")})
        before_doc = yaml.safe_load(text) or {}
        try:
            after_doc = yaml.safe_load(after)
            out["after_valid"] = isinstance(after_doc, dict) or (after_doc is None and not before_doc)
        except yaml.YAMLError as exc:
            after_doc, out["after_valid"] = None, False
            out["yaml_error"] = str(exc)[:200]
        if isinstance(after_doc, dict):
            out["lost_raw"] = [str(k) for k, v in before_doc.items() if k not in after_doc or canon_val(after_doc[k]) != canon_val(v)]
            nb, na = _normalize_config_keys({str(k): v for k, v in before_doc.items()}), _normalize_config_keys({str(k): v for k, v in after_doc.items()})
            norm_keys = [str(k).replace("-", "_") for k in before_doc]
            out["ambiguous_before"] = len(set(norm_keys)) != len(norm_keys)
            out["lost_effective"] = [k for k in nb if k not in na or canon_val(na[k]) != canon_val(nb[k])]
            out["after_keys"] = [str(k) for k in after_doc]
    except Exception as exc:  # noqa: BLE001
        out["errors"].append(f"{type(exc).__name__}: {exc}")
    finally:
        shutil.rmtree(d, ignore_errors=True)
    return out


def behaviour(d: Path, before: str, after: str):
    """`stays in effect`, observed: the same small project linted with the file before and after init-config must give the same findings
    for the linters whose sections existed before"""
    import yaml
    from .c05 import PIPE, PY_NEST, STATELESS
    proj = d / "effect"
    (proj / "src").mkdir(parents=True)
    (proj / ".git").mkdir()
    (proj / "src" / "p.py").write_text(PIPE)
    (proj / "src" / "n.py").write_text(PY_NEST)
    (proj / "src" / "s.py").write_text(STATELESS)
    try:
        existing = {str(k).replace("_", "-") for k in (yaml.safe_load(before) or {})}
    except yaml.YAMLError:
        return None
    cmds = [c for c, names in (("pipeline", {"pipeline", "collection-pipeline"}), ("nesting", {"nesting"}), ("stateless-class", {"stateless-class"})) if names & existing]
    res = {}
    for tag, text in (("before", before), ("after", after)):
        (proj / ".thailint.yaml").write_text(text)
        for c in cmds:
            code, out = core.run_cli([c, "--format", "json", "src"], cwd=proj)
            vs = core.violations_json(out)
            res.setdefault(c, {})[tag] = None if vs is None else sorted([v["file_path"], v["line"], v["rule_id"]] for v in vs)
    shutil.rmtree(proj, ignore_errors=True)
    return {c: r for c, r in res.items() if r.get("before") != r.get("after")}


# ---------------------------------------------------------------- (b) generated files are accepted by every linter command
def accept_case(args):
    preset, partial, root = args
    import yaml
    d = Path(root) / f"acc_{preset}_{int(partial)}"
    (d / "src").mkdir(parents=True)
    res = {"preset": preset, "partial": partial, "problems": []}
    try:
        (d / "src" / "a.py").write_text("def f(x):\n    if x:\n        return 1\n    return x\n")
        (d / "src" / "b.ts").write_text("export function g(x: number): number { return x; }\n")
        (d / "src" / "c.rs").write_text("fn main() { let x = Some(1); let _y = x.unwrap_or(0); }\n")
        cfg = d / ".thailint.yaml"
        if partial:
            cfg.write_text("nesting:\n  max_nesting_depth: 2\n")
        code, out = core.run_cli(["init-config", "--non-interactive", "--preset", preset, "-o", str(cfg)], cwd=d)
        if code != 0:
            res["problems"].append(f"init-config exit {code}: {out[-200:]}")
        try:
            doc = yaml.safe_load(cfg.read_text())
            if not isinstance(doc, dict):
                res["problems"].append("generated file is not a mapping")
        except yaml.YAMLError as exc:
            res["problems"].append(f"generated file does not parse: {exc}"[:200])
        from src.cli_main import cli
        cmds = sorted(n for n, c in cli.commands.items() if any(p.name in ("paths", "path") for p in c.params) and n not in ("init-config",))
        res["commands"] = cmds
        for name in cmds:
            code, out = core.run_cli([name, "--config", str(cfg), "src"], cwd=d)
            if code not in (0, 1):
                res["problems"].append(f"`thailint {name} --config <generated {preset}>` exits {code}: {out[-200:]}")
    except Exception as exc:  # noqa: BLE001
        res["problems"].append(f"{type(exc).__name__}: {exc}")
    finally:
        shutil.rmtree(d, ignore_errors=True)
    return res


# ---------------------------------------------------------------- (c) config set / get / reset
KEYS = ["log_level", "output_format", "max_retries", "timeout", "app_name", "greeting", "version", "my-key", "my_key", "team-name", "x", "magic-numbers"]
RAW_VALUES = ["DEBUG", "INFO", "debug", "WARNING", "text", "json", "yaml", "xml", "0", "1", "5", "-1", "-0", "007", "1_000", "2.5", "0.0", "-3.5", "1e3", "1e400", "nan",
              "inf", "-inf", "Infinity", "true", "True", "FALSE", "false", "", " ", "hello world", "null", "~", "yes", "on", "0x10", "1:30", "=", "a: b", "#x", "- y",
              "[1, 2]", "{a: 1}", "'quoted'", '"dq"', "tab\there", "line\nbreak", "ünï", "日本", "\u2028", "@at", "`tick", "%pct", "!bang", "&anc", "*ref", "|", ">", "99999999999999999999999",
              "0.1", "3.0", "1e-7", ".5", "5.", "+4", " 7 ", "١٢"]


def convert(value: str):
    """the documented conversion of `config set` values: booleans, then integers, then floats, else text (Python's own int()/float())"""
    if value.lower() in ("true", "false"):
        return value.lower() == "true"
    for conv in (int, float):
        try:
            return conv(value)
        except ValueError:
            pass
    return value


def val_json(v, others):
    if isinstance(v, bool):
        return {"t": "bool", "v": v}
    if isinstance(v, int):
        return {"t": "int", "v": str(v)}
    if isinstance(v, float):
        cls = "nan" if math.isnan(v) else "posInf" if v == math.inf else "negInf" if v == -math.inf else "pos" if v > 0 else "neg" if v < 0 else "zero"
        return {"t": "float", "repr": repr(v), "cls": cls}
    if isinstance(v, str):
        return {"t": "str", "v": v}
    key = canon_val(v)
    if key not in others:
        others[key] = (len(others) + 1, v)
    return {"t": "other", "id": others[key][0]}


def val_text(j, others):
    """what `config get` prints for a model value"""
    t = j["t"]
    if t == "bool":
        return str(j["v"])
    if t == "int":
        return j["v"]
    if t == "float":
        return j["repr"]
    if t == "str":
        return j["v"]
    for _k, (i, v) in others.items():
        if i == j["id"]:
            return str(v)
    return "?"


def gen_initial(rng):
    x = rng.random()
    if x < 0.3:
        return None
    d = {}
    for k in rng.sample(["log_level", "output_format", "max_retries", "timeout", "app_name", "greeting", "my-key", "team_name", "magic-numbers", "nesting", "exclude"], rng.randint(0, 5)):
        d[k] = {"log_level": rng.choice(["DEBUG", "ERROR", "INFO"] + (["loud", "loud"] if rng.random() < 0.5 else [])), "output_format": rng.choice(["json", "text"]),
                "max_retries": rng.choice([0, 2, 9]), "timeout": rng.choice([1, 2.5, 30]), "app_name": rng.choice(["demo", "x y"]), "greeting": rng.choice(["Hi", "Yo"]),
                "my-key": rng.choice([1, "v"]), "team_name": "core", "magic-numbers": {"allowed_numbers": [1, 2, 42]}, "nesting": {"max_nesting_depth": 3},
                "exclude": ["a/", "b/"]}[k]
    return d


def config_case(args):
    idx, initial, suffix, ops, root = args
    import yaml
    d = Path(root) / f"c{idx}"
    d.mkdir(parents=True)
    f = d / f"settings{suffix}"
    out = {"errors": [], "steps": []}
    try:
        if initial is not None:
            f.write_text(json.dumps(initial, indent=2) if suffix == ".json" else yaml.safe_dump(initial, sort_keys=False))
        for op in ops:
            before = f.read_bytes() if f.exists() else None
            if op["op"] == "set":
                argv = ["--config", str(f), "config", "set", "--", op["k"], op["raw"]]
            elif op["op"] == "get":
                argv = ["--config", str(f), "config", "get", "--", op["k"]]
            else:
                argv = ["--config", str(f), "config", "reset", "--yes"]
            code, stdout = core.run_cli(argv, cwd=d)
            after = f.read_bytes() if f.exists() else None
            step = {"exit": code, "stdout": stdout, "changed": before != after}
            if after is not None:
                try:
                    doc = json.loads(after.decode()) if suffix == ".json" else yaml.safe_load(after.decode())
                    step["doc"] = [[str(k), v] for k, v in doc.items()] if isinstance(doc, dict) else "notmapping"
                except Exception as exc:  # noqa: BLE001
                    step["doc"] = f"unparsable: {exc}"[:200]
            else:
                step["doc"] = None
            out["steps"].append(step)
    except Exception as exc:  # noqa: BLE001
        out["errors"].append(f"{type(exc).__name__}: {exc}")
    finally:
        shutil.rmtree(d, ignore_errors=True)
    return out


def run(tier: str, seed: int, st: core.ProofStatus) -> core.Result:
    res = core.Result()
    res.rule = ("(a) existing .thailint.yaml files with 0-6 (or all) of the template's linter sections spelled with hyphens or underscores, user values, "
                "null sections, extra keys, in 8 styles (block, comments, flow values, flow document, JSON document, indented mapping, document markers, "
                "GLOBAL SETTINGS banner) and 6 kinds of file ending, x 3 presets, each run twice; (b) the generated file of every preset (fresh and merged "
                "into a partial file) given to every linter command; (c) sequences of 3-8 config set/get/reset commands over 12 keys and 66 raw values on "
                "absent / YAML / JSON files, some initially invalid; non-trivial = a merge that wrote the file, or a command sequence with both an "
                "accepted and a rejected set")
    rng = core.sub_rng(seed, PROP, tier)
    drv = core.Driver()
    import yaml  # noqa: F401
    sys_sections = [s for s, _ in drv.call({"prop": PROP, "op": "extract"})]
    template_text = ""
    n_merge = 150 if tier == "quick" else 3000
    n_cfg = 150 if tier == "quick" else 3000
    merges = []
    while len(merges) < n_merge:
        text, style = gen_existing(rng, sys_sections, template_text)
        if doc_json(text) in (None, "notmapping"):
            res.bump("generator_rejects", style)          # not a valid existing configuration: outside the quantifier
            continue
        merges.append((text, style, rng.choice(PRESETS)))
    # corpus: the witnesses of F20a / F20b
    merges.insert(0, ("magic_numbers:\n  allowed_numbers: [42]\n  max_small_integer: 77\n", "corpus", "standard"))
    merges.insert(1, ("{nesting: {max_nesting_depth: 2}}\n", "corpus", "strict"))
    merges.insert(2, ("", "corpus", "lenient"))
    cfgs = []
    for _ in range(n_cfg):
        ops = []
        for _ in range(rng.randint(3, 8)):
            x = rng.random()
            if x < 0.55:
                k = rng.choice(KEYS)
                raw = rng.choice(RAW_VALUES)
                if rng.random() < 0.4:
                    raw = {"log_level": rng.choice(["DEBUG", "ERROR", "CRITICAL", "info"]), "output_format": rng.choice(["json", "yaml", "csv"]),
                           "max_retries": rng.choice(["0", "4", "-2", "1.5", "true"]), "timeout": rng.choice(["10", "0.5", "0", "-1", "nan", "false"]),
                           "app_name": rng.choice(["svc", " ", "7"])}.get(k, raw)
                ops.append({"op": "set", "k": k, "raw": raw})
            elif x < 0.93:
                ops.append({"op": "get", "k": rng.choice(KEYS)})
            else:
                ops.append({"op": "reset"})
        cfgs.append((gen_initial(rng), rng.choice([".yaml", ".yaml", ".yml", ".json"]), ops))
    cfgs.insert(0, (None, ".yaml", [{"op": "set", "k": "my-key", "raw": "5"}, {"op": "get", "k": "my-key"}, {"op": "set", "k": "max_retries", "raw": "true"},
                                    {"op": "set", "k": "timeout", "raw": "nan"}, {"op": "get", "k": "timeout"}]))
    root = core.scratch_dir("c20")
    try:
        m_impl = core.pmap(merge_case, [(i, t, p, str(root)) for i, (t, _s, p) in enumerate(merges)], procs=16, chunksize=4)
        a_impl = core.pmap(accept_case, [(p, partial, str(root)) for p in PRESETS for partial in (False, True)], procs=6)
        c_impl = core.pmap(config_case, [(i, ini, suf, ops, str(root)) for i, (ini, suf, ops) in enumerate(cfgs)], procs=16, chunksize=4)
    finally:
        shutil.rmtree(root, ignore_errors=True)

    # ---- (a)
    for (text, style, preset), im in zip(merges, m_impl):
        res.evaluations += 1
        res.bump("merge_style", style)
        case = {"kind": "init-config", "existing": text, "preset": preset}
        if im["errors"]:
            res.disagreements.append(core.Disagreement(case=case, impl=im["errors"], model=None, spec=None, property_fails=True, note=im["errors"][0][:400]))
            continue
        req = {"prop": PROP, "op": "merge", "existing": text, "template": im["template"], "yaml": [{"text": text, "doc": doc_json(text)}]}
        m = drv.call(req)
        while "needYaml" in m:
            dj = doc_json(m["needYaml"])
            req["yaml"].append({"text": m["needYaml"], "doc": dj if dj != "notmapping" else None})
            m = drv.call(req)
        new, old = m["new"], m["old"]
        impl_outcome = "written" if im["after"] != text else ("complete" if im["exit"] == 0 else "refused-or-error")
        model_outcome = new["outcome"] if new["outcome"] in ("written", "complete") else "refused-or-error"
        res.bump("merge_outcome", new["outcome"])
        if new["outcome"] == "written":
            res.nontrivial.add(core.canon(case))
            res.bump("sections_added", min(len(new["added"]), 16))
        problems, fails = [], False
        # specification
        spec = []
        if not im["after_valid"]:
            spec.append(f"result is not valid YAML ({im.get('yaml_error', '')})")
        if im.get("lost_raw"):
            spec.append(f"pre-existing settings changed or lost: {im['lost_raw'][:3]}")
        if im.get("lost_effective") and not im.get("ambiguous_before"):
            spec.append(f"pre-existing settings no longer in effect after key normalisation: {im['lost_effective'][:3]}")
        if im["after2"] != im["after"]:
            spec.append("a second run changed the file again")
        if im.get("effect"):
            c0, r0 = sorted(im["effect"].items())[0]
            spec.append(f"`thailint {c0}` reports differently with the file after init-config: {len(r0['before'] or [])} findings before, {len(r0['after'] or [])} after "
                        "(a pre-existing section no longer in effect)")
        if im["exit"] == 0 and impl_outcome == "written" and isinstance(im.get("after_keys"), list):
            missing = [s for s in sys_sections if s.replace("-", "_") not in {k.replace("-", "_") for k in im["after_keys"]}]
            if missing:
                spec.append(f"exit 0 but linter sections still missing: {missing[:4]}")
        if im["exit"] != 0 and im["after"] != text:
            spec.append(f"exit {im['exit']} but the file was modified")
        agree = impl_outcome == model_outcome and (model_outcome != "written" or im["after"] == new["content"])
        if not agree:
            old_outcome = old["outcome"] if old["outcome"] in ("written", "complete") else "refused-or-error"
            if impl_outcome == old_outcome and (old_outcome != "written" or im["after"] == old.get("content")):
                res.findings.setdefault("F20ab", {"existing": text, "preset": preset, "spec_problems": spec, "after_head": im["after"][:300]})
            else:
                problems.append(f"implementation outcome {impl_outcome} (exit {im['exit']}) vs model {new['outcome']}"
                                + ("" if im["after"] == new.get("content") else "; merged text differs"))
                fails = bool(spec)
        elif spec:
            problems.append("implementation and model agree but the specification is violated: " + "; ".join(spec))
            fails = True
        if problems:
            res.disagreements.append(core.Disagreement(case=case, impl={"exit": im["exit"], "after_head": im["after"][:400], "stdout": im["stdout"]},
                                                       model={"outcome": new["outcome"], "added": new.get("added")}, spec=spec, property_fails=fails,
                                                       note=" | ".join(problems)[:2500]))
    # ---- (b)
    for a in a_impl:
        res.evaluations += 1
        res.bump("accept_commands", len(a.get("commands", [])))
        if a["problems"]:
            res.disagreements.append(core.Disagreement(case={"kind": "generated-file-accepted", "preset": a["preset"], "merged_into_partial": a["partial"]},
                                                       impl=a["problems"][:6], model=None, spec="exit 0 or 1 from every linter command", property_fails=True,
                                                       note=a["problems"][0][:500]))
    # ---- (c)
    for (initial, suffix, ops), im in zip(cfgs, c_impl):
        res.evaluations += 1
        res.bump("config_carrier", suffix if initial is not None else "absent" + suffix)
        case = {"kind": "config-commands", "initial": initial, "suffix": suffix, "ops": ops}
        if im["errors"]:
            res.disagreements.append(core.Disagreement(case=case, impl=im["errors"], model=None, spec=None, property_fails=True, note=im["errors"][0][:400]))
            continue
        others: dict = {}
        file_j = None if initial is None else [{"k": k, "v": val_json(v, others)} for k, v in initial.items()]
        mops = [dict(op, v=val_json(convert(op["raw"]), others)) if op["op"] == "set" else op for op in ops]
        m = drv.call({"prop": PROP, "op": "config", "file": file_j, "ops": mops})
        mo = drv.call({"prop": PROP, "op": "config", "file": file_j, "ops": mops, "repaired": False})
        outs = [s["out"]["out"] for s in m["steps"]]
        if "ok" in outs and "rejected" in outs:
            res.nontrivial.add(core.canon(case))
        problems, fails, old_explains = [], False, True
        for i, (op, ist, mst, ost) in enumerate(zip(ops, im["steps"], m["steps"], mo["steps"])):
            res.bump("config_out", mst["out"]["out"])
            def matches(ms):
                o = ms["out"]["out"]
                exp_exit = {"ok": 0, "value": 0, "rejected": 1, "notFound": 1, "loadError": 2}[o]
                if ist["exit"] != exp_exit:
                    return f"exit {ist['exit']} vs {exp_exit} ({o})"
                if o == "value" and ist["stdout"].rstrip("\n") != val_text(ms["out"]["v"], others).rstrip("\n"):
                    return f"printed {ist['stdout']!r} vs {val_text(ms['out']['v'], others)!r}"
                exp_doc = None if ms["file"] is None else [[e["k"], e["v"]] for e in ms["file"]]
                got_doc = ist["doc"]
                if (exp_doc is None) != (got_doc is None):
                    return "file presence differs"
                if exp_doc is not None:
                    if not isinstance(got_doc, list):
                        return f"file on disk: {got_doc}"
                    got = [[k, val_json(v, others)] for k, v in got_doc]
                    if got != exp_doc:
                        return f"file content differs: {got[:9]} vs {exp_doc[:9]}"
                return None
            why = matches(mst)
            if why:
                if matches(ost) is None:
                    res.findings.setdefault("F20cd", {"initial": initial, "suffix": suffix, "ops": ops[: i + 1], "step": i, "got": {"exit": ist["exit"], "stdout": ist["stdout"][:100]}})
                else:
                    problems.append(f"step {i} {op}: {why}")
                    fails = True
                break
            # specification: a command that did not succeed leaves the file byte-for-byte unchanged
            if mst["out"]["out"] != "ok" and ist["changed"]:
                problems.append(f"step {i} {op}: file bytes changed although the command did not succeed")
                fails = True
            if op["op"] == "set" and m["usable"] and (mst["out"]["out"] == "ok") != bool(m["specValid"][i]) and mst["out"]["out"] != "loadError":
                problems.append(f"step {i} {op}: accepted={mst['out']['out']} but documented validity={m['specValid'][i]}")
        if problems:
            res.disagreements.append(core.Disagreement(case=case, impl=im["steps"][:8], model=[s["out"] for s in m["steps"]], spec=None, property_fails=fails,
                                                       note=" | ".join(problems)[:2500]))
    drv.close()
    if len(res.samples) < 1:
        res.samples.append({"merge_example": merges[3][0][:300], "config_example": cfgs[1][2][:4]})
    return res


def replay(path: str, st: core.ProofStatus) -> int:
    data = json.loads(Path(path).read_text())
    case = data.get("case") or data.get("witness") or {}
    print(json.dumps(data, indent=1)[:3000])
    root = core.scratch_dir("c20r")
    try:
        if case.get("kind") == "init-config" or "existing" in case:
            r = merge_case((0, case["existing"], case.get("preset", "standard"), str(root)))
            r.pop("template", None)
            print(json.dumps(r, indent=1)[:2500])
        elif "ops" in case:
            print(json.dumps(config_case((0, case.get("initial"), case.get("suffix", ".yaml"), case["ops"], str(root))), indent=1)[:2500])
    finally:
        shutil.rmtree(root, ignore_errors=True)
    print(f"VIOLATION property={PROP} replay={path}")
    return 1
