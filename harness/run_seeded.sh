#!/bin/bash
# usage: harness/run_seeded.sh <Cxx> <patch.diff> [tier]   — apply a seeded change to /repo, run the check, undo it
set -u
prop=$1; patch=$2; tier=${3:-quick}
cd /repo || exit 2
if ! git diff --quiet; then echo "/repo has uncommitted changes"; exit 2; fi
git apply "$patch" || { echo "patch does not apply"; exit 2; }
cd /verif && ./check "$prop" --tier "$tier" 2>&1 | grep -E "VIOLATION|KNOWN|^\[C" ; rc=${PIPESTATUS[0]}
cd /repo && git checkout -- . 
echo "exit=$rc"
