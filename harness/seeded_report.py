#!/usr/bin/env python3
"""Run the registered check of each seeded change in /verif/seeded against /repo (apply, check, undo) and
record the outcome in its meta.json.  usage: harness/seeded_report.py [Cxx-mN ...] [--tier quick]"""
import json, os, subprocess, sys
from pathlib import Path
V = Path(__file__).resolve().parent.parent
names = [a for a in sys.argv[1:] if not a.startswith("--")]
tier = "thorough" if "--thorough" in sys.argv else "quick"
dirs = [V / "seeded" / n for n in names] if names else sorted((V / "seeded").iterdir())
for d in dirs:
    meta = json.loads((d / "meta.json").read_text())
    prop = meta.get("check_property", meta["property"])
    if subprocess.run(["git", "-C", "/repo", "diff", "--quiet"]).returncode:
        sys.exit("/repo dirty")
    if subprocess.run(["git", "-C", "/repo", "apply", str(d / "patch.diff")]).returncode:
        print(d.name, "patch does not apply"); continue
    try:
        p = subprocess.run(["./check", prop, "--tier", tier], cwd=V, capture_output=True, text=True, timeout=3600)
    finally:
        subprocess.run(["git", "-C", "/repo", "checkout", "--", "."])
    viol = [l for l in p.stdout.splitlines() if l.startswith("VIOLATION")]
    seed = os.environ.get("VERIF_SEED", "0")
    rec = {"check": f"./check {prop} --tier {tier}", "exit": p.returncode, "violation_lines": viol[:3],
           "with_failing_input": any("no-failing-input-found" not in l for l in viol)}
    if seed == "0":
        meta["detected_by"] = rec
    else:
        meta.setdefault("detected_by_other_seeds", {})[seed] = {"exit": p.returncode, "with_failing_input": rec["with_failing_input"]}
    (d / "meta.json").write_text(json.dumps(meta, indent=1))
    print(d.name, "exit", p.returncode, viol[:2])
