"""./check Cxx [--tier quick|thorough] [--replay FILE]"""
from __future__ import annotations

import argparse
import importlib
import os
import sys
import time
import traceback

from . import core


def main() -> int:
    ap = argparse.ArgumentParser()
    ap.add_argument("prop")
    ap.add_argument("--tier", default=os.environ.get("VERIF_TIER", "quick"), choices=["quick", "thorough"])
    ap.add_argument("--replay", default=None)
    ap.add_argument("--skip-build", action="store_true", help="debug only: reuse the existing build")
    a = ap.parse_args()
    seed = int(os.environ.get("VERIF_SEED", "0") or 0)
    prop = a.prop.upper()
    t0 = time.time()
    try:
        mod = importlib.import_module(f"harness.props.{prop.lower()}")
        if a.skip_build:
            st = core.ProofStatus(driver_ok=True, proofs_ok=True, audit_ok=True, theorems=core.theorem_names(prop))
        else:
            st = core.build_and_audit(prop, a.tier)
        if not st.driver_ok:
            print(st.log[-3000:], file=sys.stderr)
            print(f"[{prop}] harness error: the Lean model driver does not build", file=sys.stderr)
            return 2
        if a.replay:
            return mod.replay(a.replay, st)
        for old in (core.VERIF / "replays").glob(f"{prop}_*.json"):
            old.unlink()
        res = mod.run(a.tier, seed, st)
        return core.finish(prop, a.tier, seed, t0, st, res, getattr(mod, "LEVEL_NOTE", ""))
    except Exception:  # noqa: BLE001  harness crash is exit 2, never 1
        traceback.print_exc()
        return 2


if __name__ == "__main__":
    sys.exit(main())
