/-
Line-protocol driver: one JSON object per input line, one JSON object per output line.
`{"prop":"C01", …}` is dispatched to that property's `handle`.  Imports models only (no Mathlib,
no proofs), so it builds as a native executable.
-/
import Lean.Data.Json
import ThaiLintModel.C01.Drv
import ThaiLintModel.C02.Drv
import ThaiLintModel.C03.Drv
import ThaiLintModel.C04.Drv
import ThaiLintModel.C05.Drv
import ThaiLintModel.C06.Drv
import ThaiLintModel.C07.Drv
import ThaiLintModel.C08.Drv
import ThaiLintModel.C09.Drv
import ThaiLintModel.C10.Drv
import ThaiLintModel.C11.Drv
import ThaiLintModel.C12.Drv
import ThaiLintModel.C13.Drv
import ThaiLintModel.C14.Drv
import ThaiLintModel.C15.Drv
import ThaiLintModel.C16.Drv
import ThaiLintModel.C17.Drv
import ThaiLintModel.C18.Drv
import ThaiLintModel.C19.Drv
import ThaiLintModel.C20.Drv
open Lean

def dispatch (j : Json) : Json :=
  match (j.getObjValAs? String "prop").toOption.getD "" with
  | "C01" => ThaiLintModel.C01.handle j
  | "C02" => ThaiLintModel.C02.handle j
  | "C03" => ThaiLintModel.C03.handle j
  | "C04" => ThaiLintModel.C04.handle j
  | "C05" => ThaiLintModel.C05.handle j
  | "C06" => ThaiLintModel.C06.handle j
  | "C07" => ThaiLintModel.C07.handle j
  | "C08" => ThaiLintModel.C08.handle j
  | "C09" => ThaiLintModel.C09.handle j
  | "C10" => ThaiLintModel.C10.handle j
  | "C11" => ThaiLintModel.C11.handle j
  | "C12" => ThaiLintModel.C12.handle j
  | "C13" => ThaiLintModel.C13.handle j
  | "C14" => ThaiLintModel.C14.handle j
  | "C15" => ThaiLintModel.C15.handle j
  | "C16" => ThaiLintModel.C16.handle j
  | "C17" => ThaiLintModel.C17.handle j
  | "C18" => ThaiLintModel.C18.handle j
  | "C19" => ThaiLintModel.C19.handle j
  | "C20" => ThaiLintModel.C20.handle j
  | p => Json.mkObj [("error", s!"unknown prop {p}")]

partial def loop (h : IO.FS.Stream) (out : IO.FS.Stream) : IO Unit := do
  let line ← h.getLine
  if line.isEmpty then return ()
  if line.trimAscii.isEmpty then
    loop h out
  else
    match Json.parse line with
    | .ok j => out.putStrLn (Json.compress (dispatch j))
    | .error e => out.putStrLn (Json.compress (Json.mkObj [("error", e)]))
    out.flush
    loop h out

def main : IO Unit := do
  loop (← IO.getStdin) (← IO.getStdout)
