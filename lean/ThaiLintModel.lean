import ThaiLintModel.Core.Tree
import ThaiLintModel.C01.Model
