import ThaiLintModel.Core.Tree
import ThaiLintModel.Core.Glob
import ThaiLintModel.Core.GlobLemmas
import ThaiLintModel.C01.Props
import ThaiLintModel.C14.Props
import ThaiLintModel.C15.Props
import ThaiLintModel.C07.Props
