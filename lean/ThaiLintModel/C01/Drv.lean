/- C01 — driver glue (JSON in/out). Not part of any proof. -/
import ThaiLintModel.Core.J
import ThaiLintModel.C01.Render
import ThaiLintModel.Gen.Nesting
namespace ThaiLintModel.C01
open Lean ThaiLintModel

def loopKOf : String → LoopK
  | "while" => .whileL | "forIn" => .forIn | "forOf" => .forOf | "doWhile" => .doWhile
  | "loop" => .loopL | _ => .forL

instance : Inhabited Ctl := ⟨.stmt⟩
instance : Inhabited Body := ⟨.nil⟩
instance : Inhabited Arms := ⟨.nil⟩

mutual
  partial def ctlOf (j : Json) : Ctl :=
    match j with
    | .str _ => .stmt
    | _ =>
      match j.getObjVal? "if" with
      | .ok (.arr a) => .ifc (bodyOf a[0]!) (armsOf a[1]!) (bodyOf a[2]!)
      | _ =>
      match j.getObjVal? "loop" with
      | .ok (.arr a) => .loop (loopKOf (a[0]!.getStr?.toOption.getD "for")) (bodyOf a[1]!) (bodyOf a[2]!)
      | _ =>
      match j.getObjVal? "with" with
      | .ok (.arr a) => .wth (a[0]!.getBool?.toOption.getD false) (bodyOf a[1]!)
      | _ =>
      match j.getObjVal? "try" with
      | .ok (.arr a) => .tryc (bodyOf a[0]!) (armsOf a[1]!) (bodyOf a[2]!) (bodyOf a[3]!)
      | _ =>
      match j.getObjVal? "match" with
      | .ok (.arr a) => .mtch (armsOf a[0]!) (bodyOf (a[1]?.getD (Json.arr #[])))
      | _ =>
      match j.getObjVal? "clos" with
      | .ok (.arr a) => .clos (bodyOf a[0]!)
      | _ => .stmt
  partial def bodyOf (j : Json) : Body :=
    match j with
    | .arr a => a.foldr (fun x acc => .cons (ctlOf x) acc) .nil
    | _ => .nil
  partial def armsOf (j : Json) : Arms :=
    match j with
    | .arr a => a.foldr (fun x acc => .cons (bodyOf x) acc) .nil
    | _ => .nil
end

def langOf : String → Lang
  | "ts" => .ts | "rs" => .rs | _ => .py
def wrapOf : String → Wrap
  | "method" => .method | "arrow" => .arrow | "async" => .asyncFn
  | "funcExpr" => .funcExpr | "generator" => .generator | "underIf" => .underIf | "inner" => .inner | _ => .plain

mutual
  partial def Py.sexp : Py → String
    | .node ty .nil => ty
    | .node ty kids => "(" ++ ty ++ PyL.sexp kids ++ ")"
    | .ifn t b o => "(If " ++ Py.sexp t ++ " (body" ++ PyL.sexp b ++ ") (orelse" ++ PyL.sexp o ++ "))"
  partial def PyL.sexp : PyL → String
    | .nil => ""
    | .cons h t => " " ++ Py.sexp h ++ PyL.sexp t
end

def incTsG (ty : String) : Bool := Gen.Nesting.tsNestingTypes.contains ty
def incRsG (ty : String) : Bool := Gen.Nesting.rsNestingTypes.contains ty
def pyCsG (ty : String) : Bool := Gen.Nesting.pyControlStructures.contains ty

/-- depth the model of the implementation computes -/
def modelDepth (l : Lang) (b : Body) : Nat :=
  match l with
  | .py => pyFnDepth pyCsG b
  | .ts => tsFnDepth incTsG b
  | .rs => rsFnDepth incRsG b

/-- findings that explain a difference between model and specification on this body -/
def explain (l : Lang) (b : Body) : List String :=
  if modelDepth l b == docFn b then [] else
  match l with
  | .py =>
    if modelDepth l b + 1 == docFn b then ["F01a"]                                  -- documented depth − 1
    else if modelDepth l b + 1 == max 1 (docB 2 1 b) then ["F01a", "F01b"]          -- … and `match` counting two levels (repaired)
    else ["unexplained"]
  | _ => ["unexplained"]

def shapeOf (l : Lang) (b : Body) : String :=
  match l with
  | .py => PyL.sexp (toPyB b)
  | .ts => TSL.sexp (.cons (tk "{") (toTsB b ++ tsl [tk "}"]))
  | .rs => TSL.sexp (.cons (tk "{") (toRsB b ++ tsl [tk "}"]))

def handle (j : Json) : Json :=
  let l := langOf (J.strD j "lang" "py")
  let limit := J.natD j "limit" Gen.Nesting.defaultMaxNestingDepth
  let fns : List Fn := (J.arrD j "fns").toList.map fun f =>
    { name := J.strD f "name" "f", wrap := wrapOf (J.strD f "wrap" "plain"),
      body := bodyOf ((f.getObjVal? "body").toOption.getD (Json.arr #[])) }
  let (lines, hdrs) := renderFile l fns 0
  let wf := fns.all fun f => wfB l f.body && !f.body.isNil
  let outs := (fns.zip hdrs).map fun (f, line) =>
    let md := modelDepth l f.body
    Json.mkObj [("name", f.name), ("line", line), ("depth", md), ("doc", docFn f.body),
      ("reported", reported limit md), ("specReported", specReported limit f.body),
      ("explain", J.ofStrs (explain l f.body)), ("shape", shapeOf l f.body),
      ("common", commonB f.body)]
  Json.mkObj [("wf", wf), ("text", String.intercalate "\n" lines), ("fns", Json.arr outs.toArray),
              ("defaultLimit", Gen.Nesting.defaultMaxNestingDepth)]

end ThaiLintModel.C01
