import ThaiLintModel.C01.Model
import ThaiLintModel.Gen.Nesting
namespace ThaiLintModel.C01
open ThaiLintModel

def incTs (ty : String) : Bool := Gen.Nesting.tsNestingTypes.contains ty
def incRs (ty : String) : Bool := Gen.Nesting.rsNestingTypes.contains ty

theorem tsVisitL_append (inc : String → Bool) (d : Nat) (b : TSL) :
    (a : TSL) → tsVisitL inc d (a ++ b) = max (tsVisitL inc d a) (tsVisitL inc d b)
  | .nil => by simp [tsVisitL]
  | .cons h t => by simp [tsVisitL, tsVisitL_append inc d b t, Nat.max_assoc]

  theorem le_docC (m d : Nat) : (c : Ctl) → d ≤ docC m d c
    | .stmt => by simp [docC]
    | .ifc .. => by simp [docC]; omega
    | .loop .. => by simp [docC]; omega
    | .wth .. => by simp [docC]; omega
    | .tryc .. => by simp [docC]; omega
    | .mtch .. => by simp [docC]; omega
    | .clos .. => by simp [docC]; omega

theorem le_docB (m d : Nat) (b : Body) (h : b.isNil = false) : d ≤ docB m d b := by
  cases b with
  | nil => simp [Body.isNil] at h
  | cons c r => simp [docB]; have := le_docC m d c; omega

theorem le_docA (m d : Nat) (a : Arms) (l : Lang) (h : a.isNil = false) (hw : wfA l a = true) :
    d ≤ docA m d a := by
  cases a with
  | nil => simp [Arms.isNil] at h
  | cons b r =>
    simp [wfA] at hw
    have := le_docB m d b (by simpa using hw.1.1)
    simp [docA]; omega


/-! ### TypeScript helper lemmas (non-recursive: they take the induction hypotheses as premises) -/

macro "ts_unfold" : tactic => `(tactic|
  simp [toTs, toTsB, toTsElse, toTsCatch, toTsFinally, toTsCases, tsVisit, tsVisitL, tsl, TSL.ofList, tk,
        tsBlockOf, tsParen, tsCall, incTs, Gen.Nesting.tsNestingTypes, docC, docB, docA, tsVisitL_append] )

theorem ts_else_of (d : Nat) (els : Body)
    (hB : tsVisitL incTs d (toTsB els) = docB 1 d els) :
    tsVisitL incTs d (toTsElse els) = docB 1 d els := by
  cases els with
  | nil => simp [toTsElse, tsVisitL, docB]
  | cons c r =>
    have hc := le_docC 1 d c
    cases c <;> cases r <;>
      simp [toTsElse, toTsB, tsVisit, tsVisitL, tsl, TSL.ofList, tk, tsBlockOf, incTs,
        Gen.Nesting.tsNestingTypes, docB, tsVisitL_append] at hB ⊢ <;>
      (try simp [hB]) <;> (try simp [docB] at hc ⊢) <;> omega

theorem ts_default_of (d : Nat) (dflt : Body)
    (hB : tsVisitL incTs d (toTsB dflt) = docB 1 d dflt) :
    tsVisitL incTs d (tsDefault (toTsB dflt)) = docB 1 d dflt := by
  cases dflt with
  | nil => simp [toTsB, tsDefault, tsVisitL, docB]
  | cons c r =>
    have hc := le_docC 1 d c
    simp [tsDefault, toTsB, tsVisit, tsVisitL, tsl, TSL.ofList, tk, incTs,
        Gen.Nesting.tsNestingTypes, docB, tsVisitL_append] at hB ⊢
    omega

theorem ts_finally_of (d : Nat) (fin : Body)
    (hB : tsVisitL incTs d (toTsB fin) = docB 1 d fin) :
    tsVisitL incTs d (toTsFinally fin) = docB 1 d fin := by
  cases fin with
  | nil => simp [toTsFinally, tsVisitL, docB]
  | cons c r =>
    have hc := le_docC 1 d c
    simp [toTsFinally, toTsB, tsVisit, tsVisitL, tsl, TSL.ofList, tk, tsBlockOf, incTs,
        Gen.Nesting.tsNestingTypes, docB, tsVisitL_append] at hB ⊢
    omega


/-! ### Rust helper lemmas -/

macro "rs_unfold" : tactic => `(tactic|
  simp [toRs, toRsE, toRsB, toRsElse, toRsArms, tsVisit, tsVisitL, tsl, TSL.ofList, tk,
        rsBlockOf, rsCond, rsCall, rsExprStmt, incRs, Gen.Nesting.rsNestingTypes, docC, docB, docA, tsVisitL_append] )

theorem rs_default_of (d : Nat) (dflt : Body)
    (hB : tsVisitL incRs d (toRsB dflt) = docB 1 d dflt) :
    tsVisitL incRs d (rsDefault (toRsB dflt)) = docB 1 d dflt := by
  cases dflt with
  | nil => simp [toRsB, rsDefault, tsVisitL, docB]
  | cons c r =>
    have hc := le_docC 1 d c
    simp [rsDefault, toRsB, tsVisit, tsVisitL, tsl, TSL.ofList, tk, rsBlockOf, incRs,
        Gen.Nesting.rsNestingTypes, docB, tsVisitL_append] at hB ⊢
    omega

theorem rs_of_E (d : Nat) (c : Ctl) (hE : tsVisit incRs d (toRsE c) = docC 1 d c) :
    tsVisit incRs d (toRs c) = docC 1 d c := by
  have hc := le_docC 1 d c
  cases c <;>
    simp [toRs, toRsE, tsVisit, tsVisitL, tsl, TSL.ofList, tk, rsBlockOf, rsCall, rsExprStmt, incRs,
      Gen.Nesting.rsNestingTypes, docC, tsVisitL_append] at hE hc ⊢ <;>
    omega

theorem rs_else_of (d : Nat) (els : Body)
    (hB : tsVisitL incRs d (toRsB els) = docB 1 d els)
    (hE : ∀ t e l, els = .cons (.ifc t e l) .nil →
            tsVisit incRs d (toRsE (.ifc t e l)) = docC 1 d (.ifc t e l)) :
    tsVisitL incRs d (toRsElse els) = docB 1 d els := by
  cases els with
  | nil => simp [toRsElse, tsVisitL, docB]
  | cons c r =>
    have hc := le_docC 1 d c
    cases r with
    | nil =>
      cases c with
      | ifc t e l =>
        have := hE t e l rfl
        simp [toRsElse, tsVisit, tsVisitL, tsl, TSL.ofList, tk, incRs, Gen.Nesting.rsNestingTypes, docB] at this hc ⊢
        omega
      | _ =>
        simp [toRsElse, toRsB, tsVisit, tsVisitL, tsl, TSL.ofList, tk, rsBlockOf, incRs,
          Gen.Nesting.rsNestingTypes, docB, tsVisitL_append] at hB hc ⊢ <;> omega
    | cons c2 r2 =>
      cases c <;>
      simp [toRsElse, toRsB, tsVisit, tsVisitL, tsl, TSL.ofList, tk, rsBlockOf, incRs,
        Gen.Nesting.rsNestingTypes, docB, tsVisitL_append] at hB hc ⊢ <;> omega


/-! ### Python helper lemmas -/

def pyCs (ty : String) : Bool := Gen.Nesting.pyControlStructures.contains ty

/-- what the proofs need from the regenerated `_CONTROL_STRUCTURES` table -/
theorem pyCs_table :
    (∀ ty ∈ ["For", "While", "With", "AsyncWith", "Try", "Match"], pyCs ty = true) ∧
    (∀ ty ∈ ["Expr", "Call", "Name", "Load", "Store", "withitem", "ExceptHandler", "MatchValue", "match_case",
              "Constant"], pyCs ty = false) := by decide
@[simp] theorem pyCs_For : pyCs "For" = true := by decide
@[simp] theorem pyCs_While : pyCs "While" = true := by decide
@[simp] theorem pyCs_With : pyCs "With" = true := by decide
@[simp] theorem pyCs_AsyncWith : pyCs "AsyncWith" = true := by decide
@[simp] theorem pyCs_Try : pyCs "Try" = true := by decide
@[simp] theorem pyCs_Match : pyCs "Match" = true := by decide
@[simp] theorem pyCs_match_case : pyCs "match_case" = false := by decide   -- since fix of F01b: a `match` counts one level
@[simp] theorem pyCs_Expr : pyCs "Expr" = false := by decide
@[simp] theorem pyCs_Call : pyCs "Call" = false := by decide
@[simp] theorem pyCs_Name : pyCs "Name" = false := by decide
@[simp] theorem pyCs_Load : pyCs "Load" = false := by decide
@[simp] theorem pyCs_Store : pyCs "Store" = false := by decide
@[simp] theorem pyCs_withitem : pyCs "withitem" = false := by decide
@[simp] theorem pyCs_ExceptHandler : pyCs "ExceptHandler" = false := by decide
@[simp] theorem pyCs_MatchValue : pyCs "MatchValue" = false := by decide
@[simp] theorem pyCs_Constant : pyCs "Constant" = false := by decide

theorem pyVisitL_append (cs : String → Bool) (d : Nat) (b : PyL) :
    (a : PyL) → pyVisitL cs d (a ++ b) = max (pyVisitL cs d a) (pyVisitL cs d b)
  | .nil => by simp [pyVisitL]
  | .cons h t => by simp [pyVisitL, pyVisitL_append cs d b t, Nat.max_assoc]

/-- what `_visit_if_node` does with `node.orelse` -/
def pyOrelse (cs : String → Bool) (d : Nat) : PyL → Nat
  | .cons (.ifn t b o) .nil => pyVisit cs d true (.ifn t b o)
  | l => pyVisitL cs d l

theorem pyVisit_ifn (cs : String → Bool) (d : Nat) (isElif : Bool) (t : Py) (body orelse : PyL) :
    pyVisit cs d isElif (.ifn t body orelse) =
      max (if isElif then 0 else d + 1)
        (max (pyVisitL cs (if isElif then d else d + 1) body)
             (pyOrelse cs (if isElif then d else d + 1) orelse)) := by
  cases orelse with
  | nil => cases isElif <;> simp [pyVisit, pyOrelse]
  | cons h tl => cases h <;> cases tl <;> cases isElif <;> simp [pyVisit, pyOrelse]

/-- deepest record among the bodies of the `elif` arms -/
def pyArms (cs : String → Bool) (d : Nat) : Arms → Nat
  | .nil => 0
  | .cons b r => max (pyVisitL cs d (toPyB b)) (pyArms cs d r)

/-- an if/elif/…/else chain: every arm and the else branch are visited at the *same* depth -/
theorem pyOrelse_elifs (cs : String → Bool) (d : Nat) (elsP : PyL)
    (hels : pyOrelse cs d elsP = pyVisitL cs d elsP) :
    (elifs : Arms) → pyOrelse cs d (toPyElifs elifs elsP) = max (pyArms cs d elifs) (pyVisitL cs d elsP)
  | .nil => by simp [toPyElifs, pyArms, hels]
  | .cons e r => by
      have ih := pyOrelse_elifs cs d elsP hels r
      show pyVisit cs d true (.ifn pyName (toPyB e) (toPyElifs r elsP)) = _
      rw [pyVisit_ifn]
      simp [ih, pyArms]

def Py.isIf : Py → Bool
  | .ifn .. => true
  | _ => false
def Ctl.isIf : Ctl → Bool
  | .ifc .. => true
  | _ => false

theorem toPy_isIf (c : Ctl) : (toPy c).isIf = c.isIf := by
  cases c with
  | loop k _ _ => cases k <;> simp [toPy, Py.isIf, Ctl.isIf]
  | _ => simp [toPy, pyStmt, Py.isIf, Ctl.isIf]

theorem pyOrelse_cons_notIf (cs : String → Bool) (d : Nat) (h : Py) (t : PyL) (hh : h.isIf = false) :
    pyOrelse cs d (.cons h t) = pyVisitL cs d (.cons h t) := by
  cases h with
  | node ty kids => unfold pyOrelse; simp
  | ifn _ _ _ => simp [Py.isIf] at hh

theorem pyOrelse_cons_cons (cs : String → Bool) (d : Nat) (h h2 : Py) (t : PyL) :
    pyOrelse cs d (.cons h (.cons h2 t)) = pyVisitL cs d (.cons h (.cons h2 t)) := by
  unfold pyOrelse; simp

theorem pyOrelse_notSingleIf (cs : String → Bool) (d : Nat) (els : Body) (h : els.singleIf = false) :
    pyOrelse cs d (toPyB els) = pyVisitL cs d (toPyB els) := by
  cases els with
  | nil => simp [toPyB, pyOrelse]
  | cons c r =>
    cases r with
    | cons c2 r2 => simp only [toPyB]; exact pyOrelse_cons_cons ..
    | nil =>
      simp only [toPyB]
      apply pyOrelse_cons_notIf
      rw [toPy_isIf]
      cases c <;> simp [Body.singleIf] at h <;> simp [Ctl.isIf]


theorem comb (e x y X Y : Nat) (hx : max e x + 1 = max (e+1) X) (hy : max e y + 1 = max (e+1) Y) :
    max e (max x y) + 1 = max (e+1) (max X Y) := by omega

theorem fin_step (d M N D : Nat) (h : max (d+1) M + 1 = max (d+2) N) (hD : d + 2 ≤ D) (hN : D ≤ N) :
    max d (max (d+1) M) + 1 = max (d+1) N := by omega

macro "py_unfold" : tactic => `(tactic|
  simp [toPy, toPyB, toPyHandlers, toPyCases, pyVisit, pyVisitL, pyStmt, pyName,
        docC, docB, docA, pyVisitL_append, pyArms] )

theorem py_handlers (d : Nat) :
    (hs : Arms) → pyVisitL pyCs d (toPyHandlers hs) = pyArms pyCs d hs
  | .nil => by simp [toPyHandlers, pyVisitL, pyArms]
  | .cons b r => by
      have ih := py_handlers d r
      py_unfold
      simp [ih]

theorem pyCs_MatchAs : pyCs "MatchAs" = false := by decide

theorem py_default (d : Nat) (kids : PyL) :
    pyVisitL pyCs d (pyDefaultCase kids) =
      match kids with
      | .nil => 0
      | .cons _ _ => pyVisitL pyCs d kids := by
  cases kids with
  | nil => simp [pyDefaultCase, pyVisitL]
  | cons h t => simp [pyDefaultCase, pyVisitL, pyVisit, pyCs_MatchAs]

theorem py_cases (d : Nat) :
    (a : Arms) → pyVisitL pyCs d (toPyCases a) = pyArms pyCs d a
  | .nil => by simp [toPyCases, pyVisitL, pyArms]
  | .cons b r => by
      have ih := py_cases d r
      py_unfold
      simp [ih, pyArms]

end ThaiLintModel.C01
