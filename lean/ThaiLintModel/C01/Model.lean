/-
C01 — nesting linter.  Executable model (no Mathlib, no proofs).

* `Ctl / Body / Arms` : language-neutral control skeletons (the programs the property quantifies over).
* `docC / docB / docA / docFn` : the *specification* depth ("1 for the function body plus one for
  every control structure enclosing the deepest statement"; an if/elif/else chain counts once).
* `Py`, `pyVisit…`   : mirror of `src/linters/nesting/python_analyzer.py` on CPython `ast` shapes.
* `tsVisit…`         : mirror of `visit_node` in `typescript_analyzer.py` and `rust_analyzer.py`
                        on tree-sitter shapes (same algorithm, different node-type table).
* `toPy / toTs / toRs`: which parse tree a rendered skeleton has (validated against the real
                        parsers by the correspondence check on every run).
* `render…`          : the renderer that produces the text the implementation is run on.
-/
import ThaiLintModel.Core.Tree
namespace ThaiLintModel.C01

inductive Lang where | py | ts | rs
  deriving DecidableEq, Repr, Inhabited

inductive LoopK where | forL | whileL | forIn | forOf | doWhile | loopL
  deriving DecidableEq, Repr, Inhabited

mutual
  inductive Ctl where
    | stmt
    | ifc (thn : Body) (elifs : Arms) (els : Body)      -- `els = nil` : no else branch
    | loop (k : LoopK) (body : Body) (els : Body)       -- `els` only for Python for/while … else
    | wth (isAsync : Bool) (body : Body)                -- Python with / async with
    | tryc (body : Body) (handlers : Arms) (els : Body) (fin : Body)
    | mtch (cases : Arms) (dflt : Body)                 -- match / switch; `dflt = nil` : no default arm
    | clos (body : Body)                                -- Rust closure bound by `let`
  inductive Body where
    | nil
    | cons (c : Ctl) (r : Body)
  inductive Arms where
    | nil
    | cons (b : Body) (r : Arms)
end


/-! ## Well-formedness of a skeleton for a language (the program family the theorems range over)

Every construct has a non-empty principal body (so that it encloses at least one statement), every
arm is non-empty, and only constructs that exist in the language are used.  In Python an `else`
branch that consists of a single `if` *is* an `elif` (the two spellings have the same `ast`), so
the family keeps such chains in normal form (`elifs`).  In TypeScript/Rust there is no chain
construct: `else if` is an `if` nested in the `else` branch. -/

def Body.isNil : Body → Bool
  | .nil => true
  | _ => false
def Arms.isNil : Arms → Bool
  | .nil => true
  | _ => false
def Arms.len : Arms → Nat
  | .nil => 0
  | .cons _ r => r.len + 1
def Body.singleIf : Body → Bool
  | .cons (.ifc _ _ _) .nil => true
  | _ => false

def loopOk : Lang → LoopK → Bool
  | .py, .forL | .py, .whileL => true
  | .ts, .forL | .ts, .whileL | .ts, .forIn | .ts, .forOf | .ts, .doWhile => true
  | .rs, .forL | .rs, .whileL | .rs, .loopL => true
  | _, _ => false

mutual
  def wfC (l : Lang) : Ctl → Bool
    | .stmt => true
    | .ifc thn elifs els =>
        !thn.isNil && wfB l thn && wfA l elifs && wfB l els &&
        (match l with
         | .py => !els.singleIf
         | _ => elifs.isNil)
    | .loop k body els =>
        loopOk l k && !body.isNil && wfB l body && wfB l els && (l == .py || els.isNil)
    | .wth _ body => l == .py && !body.isNil && wfB l body
    | .tryc body hs els fin =>
        !body.isNil && wfB l body && wfA l hs && wfB l els && wfB l fin &&
        (match l with
         | .py => (!hs.isNil || !fin.isNil) && (els.isNil || !hs.isNil)
         | .ts => els.isNil && hs.len ≤ 1 && (!hs.isNil || !fin.isNil)
         | .rs => false)
    | .mtch cases dflt => !cases.isNil && wfA l cases && wfB l dflt
    | .clos body => l == .rs && !body.isNil && wfB l body
  def wfB (l : Lang) : Body → Bool
    | .nil => true
    | .cons c r => wfC l c && wfB l r
  /-- every arm non-empty and well-formed -/
  def wfA (l : Lang) : Arms → Bool
    | .nil => true
    | .cons b r => !b.isNil && wfB l b && wfA l r
end

/-! skeletons that mean the same in all three languages (used by the cross-language law) -/
mutual
  def commonC : Ctl → Bool
    | .stmt => true
    | .ifc thn elifs els => elifs.isNil && !els.singleIf && commonB thn && commonB els
    | .loop k body els => (k == .forL || k == .whileL) && els.isNil && commonB body
    | .mtch cases dflt => commonA cases && commonB dflt
    | _ => false
  def commonB : Body → Bool
    | .nil => true
    | .cons c r => commonC c && commonB r
  def commonA : Arms → Bool
    | .nil => true
    | .cons b r => commonB b && commonA r
end

/-! ## Specification depth -/

mutual
  /-- Depth reached inside construct `c` that sits, as a statement, at depth `d`.
      `m` is the increment a match/switch contributes (the specification uses `m = 1`). -/
  def docC (m : Nat) (d : Nat) : Ctl → Nat
    | .stmt => d
    | .ifc thn elifs els => max d (max (docB m (d+1) thn) (max (docA m (d+1) elifs) (docB m (d+1) els)))
    | .loop _ body els => max d (max (docB m (d+1) body) (docB m (d+1) els))
    | .wth _ body => max d (docB m (d+1) body)
    | .tryc body hs els fin =>
        max d (max (docB m (d+1) body) (max (docA m (d+1) hs) (max (docB m (d+1) els) (docB m (d+1) fin))))
    | .mtch cases dflt => max d (max (docA m (d+m) cases) (docB m (d+m) dflt))
    | .clos body => max d (docB m (d+1) body)
  /-- deepest statement of a body whose statements sit at depth `d` (0 for an empty body) -/
  def docB (m : Nat) (d : Nat) : Body → Nat
    | .nil => 0
    | .cons c r => max (docC m d c) (docB m d r)
  def docA (m : Nat) (d : Nat) : Arms → Nat
    | .nil => 0
    | .cons b r => max (docB m d b) (docA m d r)
end

/-- documented nesting depth of a function with body `b` -/
def docFn (b : Body) : Nat := max 1 (docB 1 1 b)

/-- the verdict the property demands -/
def specReported (limit : Nat) (b : Body) : Bool := decide (docFn b > limit)

/-! ## Python analyzer model -/

mutual
  /-- CPython `ast` node as seen through `ast.iter_child_nodes`, with `ast.If` kept apart because
      `_visit_if_node` reads its `body` and `orelse` fields separately (and never its `test`). -/
  inductive Py where
    | node (ty : String) (kids : PyL)
    | ifn (test : Py) (body : PyL) (orelse : PyL)
  inductive PyL where
    | nil
    | cons (h : Py) (t : PyL)
end

namespace PyL
def append : PyL → PyL → PyL
  | .nil, b => b
  | .cons h t, b => .cons h (append t b)
instance : Append PyL := ⟨append⟩
@[simp] theorem nil_append (b : PyL) : (PyL.nil ++ b) = b := rfl
@[simp] theorem cons_append (h : Py) (t b : PyL) : (PyL.cons h t ++ b) = PyL.cons h (t ++ b) := rfl
end PyL

mutual
  /-- `_visit_node` : returns the largest depth handed to `tracker.record` inside the subtree
      (0 when nothing is recorded). `cs` is membership in the `_CONTROL_STRUCTURES` tuple (by class name). -/
  def pyVisit (cs : String → Bool) (d : Nat) (isElif : Bool) : Py → Nat
    | .ifn _ body (.cons (.ifn t b o) .nil) =>      -- `_is_elif_chain(node.orelse)`
        let d' := if isElif then d else d + 1
        let r := if isElif then 0 else d'
        max r (max (pyVisitL cs d' body) (pyVisit cs d' true (.ifn t b o)))
    | .ifn _ body orelse =>
        let d' := if isElif then d else d + 1
        let r := if isElif then 0 else d'
        max r (max (pyVisitL cs d' body) (pyVisitL cs d' orelse))
    | .node ty kids =>
        if cs ty then max (d + 1) (pyVisitL cs (d + 1) kids)   -- `_visit_control_structure`
        else pyVisitL cs d kids                                          -- `_visit_children`
  def pyVisitL (cs : String → Bool) (d : Nat) : PyL → Nat
    | .nil => 0
    | .cons h t => max (pyVisit cs d false h) (pyVisitL cs d t)
end

/-- `calculate_max_depth` : every statement of the body is visited from depth 0 -/
def pyDepth (cs : String → Bool) (body : PyL) : Nat := pyVisitL cs 0 body

/-! ### Python parse shape of a skeleton -/

def pyName : Py := .node "Name" (.cons (.node "Load" .nil) .nil)
def pyStmt : Py :=
  .node "Expr" (.cons (.node "Call" (.cons pyName .nil)) .nil)

/-- `case _:` arm (absent when the default body is empty) -/
def pyDefaultCase : PyL → PyL
  | .nil => .nil
  | .cons h t => .cons (.node "match_case" (.cons (.node "MatchAs" .nil) (.cons h t))) .nil

mutual
  def toPy : Ctl → Py
    | .stmt => pyStmt
    | .ifc thn elifs els => .ifn pyName (toPyB thn) (toPyElifs elifs (toPyB els))
    | .loop .whileL body els => .node "While" (.cons pyName (toPyB body ++ toPyB els))
    | .loop _ body els =>
        .node "For" (.cons (.node "Name" (.cons (.node "Store" .nil) .nil)) (.cons pyName (toPyB body ++ toPyB els)))
    | .wth isAsync body =>
        .node (if isAsync then "AsyncWith" else "With") (.cons (.node "withitem" (.cons pyName .nil)) (toPyB body))
    | .tryc body hs els fin => .node "Try" (toPyB body ++ (toPyHandlers hs ++ (toPyB els ++ toPyB fin)))
    | .mtch cases dflt => .node "Match" (.cons pyName (toPyCases cases ++ pyDefaultCase (toPyB dflt)))
    | .clos body => .node "FunctionDef" (.cons (.node "arguments" .nil) (toPyB body))  -- nested def
  def toPyB : Body → PyL
    | .nil => .nil
    | .cons c r => .cons (toPy c) (toPyB r)
  /-- `elif` arms become an `If` that is the single element of the parent's `orelse` -/
  def toPyElifs : Arms → PyL → PyL
    | .nil, els => els
    | .cons e r, els => .cons (.ifn pyName (toPyB e) (toPyElifs r els)) .nil
  def toPyHandlers : Arms → PyL
    | .nil => .nil
    | .cons b r => .cons (.node "ExceptHandler" (.cons pyName (toPyB b))) (toPyHandlers r)
  def toPyCases : Arms → PyL
    | .nil => .nil
    | .cons b r =>
        .cons (.node "match_case" (.cons (.node "MatchValue" (.cons (.node "Constant" .nil) .nil)) (toPyB b)))
          (toPyCases r)
end

/-! ## tree-sitter analyzers (TypeScript/JavaScript and Rust share the algorithm) -/

mutual
  /-- `visit_node` : every node records its depth; children of a nesting node are one deeper -/
  def tsVisit (inc : String → Bool) (d : Nat) : TS → Nat
    | .node ty kids => max d (tsVisitL inc (if inc ty then d + 1 else d) kids)
  def tsVisitL (inc : String → Bool) (d : Nat) : TSL → Nat
    | .nil => 0
    | .cons h t => max (tsVisit inc d h) (tsVisitL inc d t)
end

/-- `calculate_max_depth` on the body block node (children visited from depth 1) -/
def tsDepth (inc : String → Bool) (blockKids : TSL) : Nat := tsVisitL inc 1 blockKids

open TS in
def tk (s : String) : TS := .node s .nil

def tsl (l : List TS) : TSL := TSL.ofList l

/-! ### TypeScript parse shape -/
def tsCall : TS :=
  .node "expression_statement" (tsl [.node "call_expression" (tsl [tk "identifier", .node "arguments" (tsl [tk "(", tk ")"])]), tk ";"])
def tsParen : TS := .node "parenthesized_expression" (tsl [tk "(", tk "identifier", tk ")"])

def tsBlockOf (kids : TSL) : TS := .node "statement_block" (.cons (tk "{") (kids ++ tsl [tk "}"]))

/-- `default:` arm of a switch (absent when the default body is empty) -/
def tsDefault : TSL → TSL
  | .nil => .nil
  | .cons h t => .cons (.node "switch_default" (.cons (tk "default") (.cons (tk ":")
        (.cons h t ++ tsl [.node "break_statement" (tsl [tk "break", tk ";"])])))) .nil

mutual
  def toTs : Ctl → TS
    | .stmt => tsCall
    | .ifc thn _ els =>
        .node "if_statement" (.cons (tk "if") (.cons tsParen (.cons (tsBlockOf (toTsB thn)) (toTsElse els))))
    | .loop .forL body _ =>
        .node "for_statement" (tsl [tk "for", tk "(",
          .node "lexical_declaration" (tsl [tk "let", .node "variable_declarator" (tsl [tk "identifier", tk "=", tk "number"]), tk ";"]),
          .node "binary_expression" (tsl [tk "identifier", tk "<", tk "identifier"]), tk ";",
          .node "update_expression" (tsl [tk "identifier", tk "++"]), tk ")", tsBlockOf (toTsB body)])
    | .loop .forIn body _ =>
        .node "for_in_statement" (tsl [tk "for", tk "(", tk "const", tk "identifier", tk "in", tk "identifier", tk ")", tsBlockOf (toTsB body)])
    | .loop .forOf body _ =>
        .node "for_in_statement" (tsl [tk "for", tk "(", tk "const", tk "identifier", tk "of", tk "identifier", tk ")", tsBlockOf (toTsB body)])
    | .loop .doWhile body _ =>
        .node "do_statement" (tsl [tk "do", tsBlockOf (toTsB body), tk "while", tsParen, tk ";"])
    | .loop _ body _ =>
        .node "while_statement" (tsl [tk "while", tsParen, tsBlockOf (toTsB body)])
    | .wth _ body => tsBlockOf (toTsB body)          -- not available in TS: rendered as a bare block
    | .tryc body hs _ fin =>
        .node "try_statement" (.cons (tk "try") (.cons (tsBlockOf (toTsB body)) (toTsCatch hs ++ toTsFinally fin)))
    | .mtch cases dflt =>
        .node "switch_statement" (tsl [tk "switch", tsParen,
          .node "switch_body" (.cons (tk "{") (toTsCases cases ++ (tsDefault (toTsB dflt) ++ tsl [tk "}"])))])
    | .clos body => tsBlockOf (toTsB body)            -- not available in TS: bare block
  def toTsB : Body → TSL
    | .nil => .nil
    | .cons c r => .cons (toTs c) (toTsB r)
  /-- `else { … }`; an else branch consisting of a single `if` is written `else if` -/
  def toTsElse : Body → TSL
    | .nil => .nil
    | .cons (.ifc t e l) .nil => .cons (.node "else_clause" (tsl [tk "else", toTs (.ifc t e l)])) .nil
    | .cons c r => .cons (.node "else_clause" (tsl [tk "else", tsBlockOf (toTsB (.cons c r))])) .nil
  def toTsCatch : Arms → TSL
    | .nil => .nil
    | .cons b _ => .cons (.node "catch_clause" (tsl [tk "catch", tk "(", tk "identifier", tk ")", tsBlockOf (toTsB b)])) .nil
  def toTsFinally : Body → TSL
    | .nil => .nil
    | .cons c r => .cons (.node "finally_clause" (tsl [tk "finally", tsBlockOf (toTsB (.cons c r))])) .nil
  def toTsCases : Arms → TSL
    | .nil => .nil
    | .cons b r =>
        .cons (.node "switch_case" (.cons (tk "case") (.cons (tk "number") (.cons (tk ":")
                (toTsB b ++ tsl [.node "break_statement" (tsl [tk "break", tk ";"])])))))
          (toTsCases r)
end

/-! ### Rust parse shape -/
def rsCall : TS :=
  .node "expression_statement" (tsl [.node "call_expression" (tsl [tk "identifier", .node "arguments" (tsl [tk "(", tk ")"])]), tk ";"])
def rsCond : TS := .node "binary_expression" (tsl [tk "identifier", tk ">", tk "integer_literal"])
def rsBlockOf (kids : TSL) : TS := .node "block" (.cons (tk "{") (kids ++ tsl [tk "}"]))
def rsExprStmt (e : TS) : TS := .node "expression_statement" (tsl [e])

/-- `_ => { … }` arm (absent when the default body is empty) -/
def rsDefault : TSL → TSL
  | .nil => .nil
  | .cons h t => .cons (.node "match_arm" (tsl [.node "match_pattern" (tsl [tk "_"]), tk "=>", rsBlockOf (.cons h t)])) .nil

mutual
  /-- the expression node of a construct (an `if` after `else` appears bare) -/
  def toRsE : Ctl → TS
    | .stmt => rsCall
    | .ifc thn _ els =>
        .node "if_expression" (.cons (tk "if") (.cons rsCond (.cons (rsBlockOf (toRsB thn)) (toRsElse els))))
    | .loop .whileL body _ => .node "while_expression" (tsl [tk "while", rsCond, rsBlockOf (toRsB body)])
    | .loop .loopL body _ => .node "loop_expression" (tsl [tk "loop", rsBlockOf (toRsB body)])
    | .loop _ body _ =>
        .node "for_expression" (tsl [tk "for", tk "identifier", tk "in",
          .node "range_expression" (tsl [tk "integer_literal", tk "..", tk "identifier"]), rsBlockOf (toRsB body)])
    | .wth _ body => rsBlockOf (toRsB body)
    | .tryc body _ _ _ => rsBlockOf (toRsB body)
    | .mtch cases dflt =>
        .node "match_expression" (tsl [tk "match", tk "identifier",
          .node "match_block" (.cons (tk "{") (toRsArms cases ++ (rsDefault (toRsB dflt) ++ tsl [tk "}"])))])
    | .clos body =>
        .node "closure_expression" (tsl [.node "closure_parameters" (tsl [tk "|", tk "|"]), rsBlockOf (toRsB body)])
  /-- the statement node of a construct inside a block -/
  def toRs : Ctl → TS
    | .stmt => rsCall
    | .clos body => .node "let_declaration" (tsl [tk "let", tk "identifier", tk "=", toRsE (.clos body), tk ";"])
    | c => rsExprStmt (toRsE c)
  def toRsB : Body → TSL
    | .nil => .nil
    | .cons c r => .cons (toRs c) (toRsB r)
  def toRsElse : Body → TSL
    | .nil => .nil
    | .cons (.ifc t e l) .nil => .cons (.node "else_clause" (tsl [tk "else", toRsE (.ifc t e l)])) .nil
    | .cons c r => .cons (.node "else_clause" (tsl [tk "else", rsBlockOf (toRsB (.cons c r))])) .nil
  def toRsArms : Arms → TSL
    | .nil => .nil
    | .cons b r =>
        .cons (.node "match_arm" (tsl [.node "match_pattern" (tsl [tk "integer_literal"]), tk "=>", rsBlockOf (toRsB b)]))
          (toRsArms r)
end


/-! ## Function level: what the linter reports -/

/-- TypeScript: `calculate_max_depth` on `statement_block` children `{ stmts… }` -/
def tsFnDepth (inc : String → Bool) (b : Body) : Nat :=
  tsDepth inc (.cons (tk "{") (toTsB b ++ tsl [tk "}"]))
/-- Rust: same on `block` children -/
def rsFnDepth (inc : String → Bool) (b : Body) : Nat :=
  tsDepth inc (.cons (tk "{") (toRsB b ++ tsl [tk "}"]))
def pyFnDepth (cs : String → Bool) (b : Body) : Nat := pyDepth cs (toPyB b)

/-- `if max_depth <= config.max_nesting_depth: continue` -/
def reported (limit depth : Nat) : Bool := !(decide (depth ≤ limit))

mutual
  def noMatchC : Ctl → Bool
    | .stmt => true
    | .ifc a b c => noMatchB a && noMatchA b && noMatchB c
    | .loop _ a b => noMatchB a && noMatchB b
    | .wth _ a => noMatchB a
    | .tryc a b c e => noMatchB a && noMatchA b && noMatchB c && noMatchB e
    | .mtch _ _ => false
    | .clos a => noMatchB a
  def noMatchB : Body → Bool
    | .nil => true
    | .cons c r => noMatchC c && noMatchB r
  def noMatchA : Arms → Bool
    | .nil => true
    | .cons b r => noMatchB b && noMatchA r
end

end ThaiLintModel.C01
