/-
C01 — property theorems (and only those; helper lemmas live in `Lemmas.lean`).
All theorems quantify over *every* skeleton, depth and limit: proofs are by mutual structural
induction over `Ctl / Body / Arms`; the node-type tables are the regenerated ones (`Gen.Nesting`).
-/
import ThaiLintModel.C01.Lemmas
namespace ThaiLintModel.C01
open ThaiLintModel

/-! ## TypeScript / JavaScript : the analyzer computes exactly the documented depth -/

mutual
  theorem ts_C (d : Nat) : (c : Ctl) → wfC .ts c = true → tsVisit incTs d (toTs c) = docC 1 d c
    | .stmt, _ => by ts_unfold
    | .ifc thn elifs els, h => by
        simp [wfC] at h
        obtain ⟨⟨⟨⟨h1, h2⟩, _⟩, h4⟩, h5⟩ := h
        have ih1 := ts_B (d+1) thn h2
        have ih2 := ts_else_of (d+1) els (ts_B (d+1) els h4)
        have := le_docB 1 (d+1) thn h1
        cases elifs with
        | cons _ _ => simp [Arms.isNil] at h5
        | nil => ts_unfold; simp [ih1, ih2]; omega
    | .loop k body els, h => by
        simp [wfC] at h
        obtain ⟨⟨⟨⟨h1, h2⟩, h3⟩, _⟩, h5⟩ := h
        have ih1 := ts_B (d+1) body h3
        have := le_docB 1 (d+1) body h2
        have h5 : els = .nil := by cases els <;> simp_all [Body.isNil]
        subst h5
        cases k <;> simp [loopOk] at h1 <;> ts_unfold <;> simp [ih1] <;> omega
    | .wth _ _, h => by simp [wfC] at h
    | .clos _, h => by simp [wfC] at h
    | .tryc body hs els fin, h => by
        simp [wfC] at h
        obtain ⟨⟨⟨⟨⟨h1, h2⟩, h3⟩, _⟩, h5⟩, ⟨⟨h6, h7⟩, _⟩⟩ := h
        have ih1 := ts_B (d+1) body h2
        have ih2 := ts_H (d+1) hs h3 h7
        have ih3 := ts_finally_of (d+1) fin (ts_B (d+1) fin h5)
        have := le_docB 1 (d+1) body h1
        have h6 : els = .nil := by cases els <;> simp_all [Body.isNil]
        subst h6
        ts_unfold; simp [ih1, ih2, ih3]; omega
    | .mtch cases dflt, h => by
        simp [wfC] at h
        have ih := ts_Cases (d+1) cases h.1.2
        have ih2 := ts_default_of (d+1) dflt (ts_B (d+1) dflt h.2)
        have := le_docA 1 (d+1) cases .ts h.1.1 h.1.2
        ts_unfold; simp [ih, ih2, h.1.1]; omega
  theorem ts_B (d : Nat) : (b : Body) → wfB .ts b = true → tsVisitL incTs d (toTsB b) = docB 1 d b
    | .nil, _ => by simp [toTsB, tsVisitL, docB]
    | .cons c r, h => by
        simp [wfB] at h
        simp [toTsB, tsVisitL, docB, ts_C d c h.1, ts_B d r h.2]
  /-- at most one `catch` clause -/
  theorem ts_H (d : Nat) : (a : Arms) → wfA .ts a = true → a.len ≤ 1 →
      tsVisitL incTs d (toTsCatch a) = docA 1 d a
    | .nil, _, _ => by simp [toTsCatch, tsVisitL, docA]
    | .cons b r, h, hl => by
        simp [wfA] at h
        have ih := ts_B d b h.1.2
        have := le_docB 1 d b h.1.1
        have hr : r = .nil := by cases r <;> simp_all [Arms.len]
        subst hr
        ts_unfold; simp [ih]; omega
  theorem ts_Cases (d : Nat) : (a : Arms) → wfA .ts a = true →
      tsVisitL incTs d (toTsCases a) = if a.isNil then 0 else docA 1 d a
    | .nil, _ => by simp [toTsCases, tsVisitL, Arms.isNil]
    | .cons b r, h => by
        simp [wfA] at h
        have ih := ts_B d b h.1.2
        have ih2 := ts_Cases d r h.2
        have := le_docB 1 d b h.1.1
        ts_unfold; simp [ih, ih2, Arms.isNil]
        split <;> simp [docA] <;> omega
end


/-! ## Rust : the analyzer computes exactly the documented depth -/

mutual
  theorem rs_E (d : Nat) : (c : Ctl) → wfC .rs c = true → tsVisit incRs d (toRsE c) = docC 1 d c
    | .stmt, _ => by rs_unfold
    | .ifc thn elifs els, h => by
        simp [wfC] at h
        obtain ⟨⟨⟨⟨h1, h2⟩, _⟩, h4⟩, h5⟩ := h
        have ih1 := rs_B (d+1) thn h2
        have ih2 := rs_else_of (d+1) els (rs_B (d+1) els h4) (by
          intro t e l he
          subst he
          simp [wfB] at h4
          exact rs_E (d+1) (.ifc t e l) h4)
        have := le_docB 1 (d+1) thn h1
        cases elifs with
        | cons _ _ => simp [Arms.isNil] at h5
        | nil => rs_unfold; simp [ih1, ih2]; omega
    | .loop k body els, h => by
        simp [wfC] at h
        obtain ⟨⟨⟨⟨h1, h2⟩, h3⟩, _⟩, h5⟩ := h
        have ih1 := rs_B (d+1) body h3
        have := le_docB 1 (d+1) body h2
        have h5 : els = .nil := by cases els <;> simp_all [Body.isNil]
        subst h5
        cases k <;> simp [loopOk] at h1 <;> rs_unfold <;> simp [ih1] <;> omega
    | .wth _ _, h => by simp [wfC] at h
    | .tryc _ _ _ _, h => by simp [wfC] at h
    | .clos body, h => by
        simp [wfC] at h
        have ih1 := rs_B (d+1) body h.2
        have := le_docB 1 (d+1) body h.1
        rs_unfold; simp [ih1]; omega
    | .mtch cases dflt, h => by
        simp [wfC] at h
        have ih := rs_Arms (d+1) cases h.1.2
        have ih2 := rs_default_of (d+1) dflt (rs_B (d+1) dflt h.2)
        have := le_docA 1 (d+1) cases .rs h.1.1 h.1.2
        rs_unfold; simp [ih, ih2, h.1.1]; omega
  theorem rs_B (d : Nat) : (b : Body) → wfB .rs b = true → tsVisitL incRs d (toRsB b) = docB 1 d b
    | .nil, _ => by simp [toRsB, tsVisitL, docB]
    | .cons c r, h => by
        simp [wfB] at h
        simp [toRsB, tsVisitL, docB, rs_of_E d c (rs_E d c h.1), rs_B d r h.2]
  theorem rs_Arms (d : Nat) : (a : Arms) → wfA .rs a = true →
      tsVisitL incRs d (toRsArms a) = if a.isNil then 0 else docA 1 d a
    | .nil, _ => by simp [toRsArms, tsVisitL, Arms.isNil]
    | .cons b r, h => by
        simp [wfA] at h
        have ih := rs_B d b h.1.2
        have ih2 := rs_Arms d r h.2
        have := le_docB 1 d b h.1.1
        rs_unfold; simp [ih, ih2, Arms.isNil]
        split <;> simp [docA] <;> omega
end


/-! ## Python : the analyzer is characterised exactly

`pyDepth + 1 = ` the depth computed with `match` counting **two** levels (`docC 2`): the Python
analyzer starts the body at depth 0 (finding F01a: it reports documented depth − 1) and counts
`Match` *and* `match_case` (finding F01b).  Without `match` this is `documented − 1` exactly. -/

mutual
  theorem py_C (d : Nat) : (c : Ctl) → wfC .py c = true →
      max d (pyVisit pyCs d false (toPy c)) + 1 = docC 1 (d+1) c
    | .stmt, _ => by py_unfold
    | .ifc thn elifs els, h => by
        simp [wfC] at h
        obtain ⟨⟨⟨⟨h1, h2⟩, h3⟩, h4⟩, h5⟩ := h
        have ih1 := py_B (d+1) thn h2
        have ih2 := py_A (d+1) elifs h3
        have ih3 := py_B (d+1) els h4
        have := le_docB 1 (d+2) thn h1
        simp only [Nat.add_assoc, Nat.reduceAdd] at ih1 ih2 ih3 this
        simp only [toPy]
        rw [pyVisit_ifn, pyOrelse_elifs _ _ _ (pyOrelse_notSingleIf _ _ els h5)]
        simp [docC]
        simp only [Nat.add_assoc, Nat.reduceAdd] at *
        omega
    | .loop k body els, h => by
        simp [wfC] at h
        obtain ⟨⟨⟨h1, h2⟩, h3⟩, h4⟩ := h
        have ih1 := py_B (d+1) body h3
        have ih2 := py_B (d+1) els h4
        have := le_docB 1 (d+2) body h2
        simp only [Nat.add_assoc, Nat.reduceAdd] at ih1 ih2 this
        revert h1
        cases k <;> intro h1 <;> simp [loopOk] at h1 <;> py_unfold <;>
          simp only [Nat.add_assoc, Nat.reduceAdd] at * <;> omega
    | .wth a body, h => by
        simp [wfC] at h
        have ih1 := py_B (d+1) body h.2
        have := le_docB 1 (d+2) body h.1
        simp only [Nat.add_assoc, Nat.reduceAdd] at ih1 this
        cases a <;> py_unfold <;> simp only [Nat.add_assoc, Nat.reduceAdd] at * <;> omega
    | .clos _, h => by simp [wfC] at h
    | .tryc body hs els fin, h => by
        simp [wfC] at h
        obtain ⟨⟨⟨⟨⟨h1, h2⟩, h3⟩, h4⟩, h5⟩, _⟩ := h
        have ih1 := py_B (d+1) body h2
        have ih2 := py_A (d+1) hs h3
        have ih3 := py_B (d+1) els h4
        have ih4 := py_B (d+1) fin h5
        have hh := py_handlers (d+1) hs
        have := le_docB 1 (d+2) body h1
        simp only [Nat.add_assoc, Nat.reduceAdd] at ih1 ih2 ih3 ih4 this
        have c := comb _ _ _ _ _ ih1 (comb _ _ _ _ _ ih2 (comb _ _ _ _ _ ih3 ih4))
        py_unfold
        simp [hh]
        simp only [Nat.add_assoc, Nat.reduceAdd]
        exact fin_step _ _ _ _ c this (Nat.le_max_left _ _)
    | .mtch cases dflt, h => by
        simp [wfC] at h
        have ih := py_A (d+1) cases h.1.2
        have ih2 := py_B (d+1) dflt h.2
        have hc := py_cases (d+1) cases
        have hd := py_default (d+1) (toPyB dflt)
        have := le_docA 1 (d+2) cases .py h.1.1 h.1.2
        simp only [Nat.add_assoc, Nat.reduceAdd] at ih ih2 hc hd this
        py_unfold
        simp [hc, hd, h.1.1]
        cases dflt with
        | nil =>
          simp [toPyB, docB] at ih2 ⊢
          simp only [Nat.add_assoc, Nat.reduceAdd] at *
          omega
        | cons c r =>
          simp only [toPyB] at ih2 ⊢
          simp only [Nat.add_assoc, Nat.reduceAdd] at *
          omega
  theorem py_B (d : Nat) : (b : Body) → wfB .py b = true →
      max d (pyVisitL pyCs d (toPyB b)) + 1 = max (d+1) (docB 1 (d+1) b)
    | .nil, _ => by simp [toPyB, pyVisitL, docB]
    | .cons c r, h => by
        simp [wfB] at h
        have ih1 := py_C d c h.1
        have ih2 := py_B d r h.2
        simp [toPyB, pyVisitL, docB]
        omega
  theorem py_A (d : Nat) : (a : Arms) → wfA .py a = true →
      max d (pyArms pyCs d a) + 1 = max (d+1) (docA 1 (d+1) a)
    | .nil, _ => by simp [pyArms, docA]
    | .cons b r, h => by
        simp [wfA] at h
        have ih1 := py_B d b h.1.2
        have ih2 := py_A d r h.2
        simp [pyArms, docA]
        omega
end


/-! ## Function-level statements of the property -/

/-- C01 (TypeScript/JavaScript): reported depth = documented depth, for every skeleton. -/
theorem ts_depth_eq_doc (b : Body) (h : wfB .ts b = true) : tsFnDepth incTs b = docFn b := by
  have := ts_B 1 b h
  simp [tsFnDepth, tsDepth, tsVisitL, tsVisit, tsVisitL_append, tsl, TSL.ofList, tk, this, docFn]
  omega

/-- C01 (Rust): reported depth = documented depth, for every skeleton. -/
theorem rs_depth_eq_doc (b : Body) (h : wfB .rs b = true) : rsFnDepth incRs b = docFn b := by
  have := rs_B 1 b h
  simp [rsFnDepth, tsDepth, tsVisitL, tsVisit, tsVisitL_append, tsl, TSL.ofList, tk, this, docFn]
  omega

/-- C01 (Python), exact characterisation: the analyzer reports the documented depth minus one
    (finding F01a), for every skeleton — `match` included since the repair of F01b. -/
theorem py_depth_characterised (b : Body) (h : wfB .py b = true) :
    pyFnDepth pyCs b + 1 = max 1 (docB 1 1 b) := by
  have := py_B 0 b h
  simpa [pyFnDepth, pyDepth] using this

mutual
  theorem noMatch_C (m d : Nat) : (c : Ctl) → noMatchC c = true → docC m d c = docC 1 d c
    | .stmt, _ => by simp [docC]
    | .ifc a b c, h => by
        simp [noMatchC] at h
        simp [docC, noMatch_B m (d+1) a h.1.1, noMatch_A m (d+1) b h.1.2, noMatch_B m (d+1) c h.2]
    | .loop _ a b, h => by
        simp [noMatchC] at h
        simp [docC, noMatch_B m (d+1) a h.1, noMatch_B m (d+1) b h.2]
    | .wth _ a, h => by
        simp [noMatchC] at h
        simp [docC, noMatch_B m (d+1) a h]
    | .tryc a b c e, h => by
        simp [noMatchC] at h
        simp [docC, noMatch_B m (d+1) a h.1.1.1, noMatch_A m (d+1) b h.1.1.2, noMatch_B m (d+1) c h.1.2,
          noMatch_B m (d+1) e h.2]
    | .mtch _ _, h => by simp [noMatchC] at h
    | .clos a, h => by
        simp [noMatchC] at h
        simp [docC, noMatch_B m (d+1) a h]
  theorem noMatch_B (m d : Nat) : (b : Body) → noMatchB b = true → docB m d b = docB 1 d b
    | .nil, _ => by simp [docB]
    | .cons c r, h => by
        simp [noMatchB] at h
        simp [docB, noMatch_C m d c h.1, noMatch_B m d r h.2]
  theorem noMatch_A (m d : Nat) : (a : Arms) → noMatchA a = true → docA m d a = docA 1 d a
    | .nil, _ => by simp [docA]
    | .cons b r, h => by
        simp [noMatchA] at h
        simp [docA, noMatch_B m d b h.1, noMatch_A m d r h.2]
end

/-- C01 (Python) under finding F01a: Python reports documented depth − 1 for *every* function, `match`
    statements included (so the Python verdict flips one limit value earlier than TS/Rust). -/
theorem py_depth_is_doc_minus_one (b : Body) (h : wfB .py b = true) :
    pyFnDepth pyCs b + 1 = docFn b := by
  rw [py_depth_characterised b h, docFn]

/-- The verdict is a threshold on the depth: reported ⇔ depth > limit … -/
theorem verdict_threshold (limit depth : Nat) : reported limit depth = true ↔ depth > limit := by
  simp [reported]

/-- … so it flips at exactly one value of the limit: reported for every `limit < depth`,
    not reported for every `limit ≥ depth`. -/
theorem unique_flip (depth : Nat) :
    (∀ l, l < depth → reported l depth = true) ∧ (∀ l, depth ≤ l → reported l depth = false) := by
  constructor <;> intro l hl <;> simp [reported] <;> omega

/-- TS/Rust verdict = specification verdict, for every skeleton and every limit. -/
theorem ts_verdict (limit : Nat) (b : Body) (h : wfB .ts b = true) :
    reported limit (tsFnDepth incTs b) = specReported limit b := by
  rw [Bool.eq_iff_iff]; simp [ts_depth_eq_doc b h, reported, specReported]
theorem rs_verdict (limit : Nat) (b : Body) (h : wfB .rs b = true) :
    reported limit (rsFnDepth incRs b) = specReported limit b := by
  rw [Bool.eq_iff_iff]; simp [rs_depth_eq_doc b h, reported, specReported]
/-- Python verdict (finding F01a): what the specification demands for `limit + 1`. -/
theorem py_verdict_shifted (limit : Nat) (b : Body) (h : wfB .py b = true) :
    reported limit (pyFnDepth pyCs b) = specReported (limit + 1) b := by
  have := py_depth_is_doc_minus_one b h
  rw [Bool.eq_iff_iff]; simp [reported, specReported]; omega

/-- Same skeleton, same depth in TypeScript and Rust (both equal the documented depth). -/
theorem cross_language_ts_rs (b : Body) (h1 : wfB .ts b = true) (h2 : wfB .rs b = true) :
    tsFnDepth incTs b = rsFnDepth incRs b := by
  rw [ts_depth_eq_doc b h1, rs_depth_eq_doc b h2]

/-! ### Wrapping raises the depth by exactly one -/

theorem Body.eq_nil_of_isNil {b : Body} (h : b.isNil = true) : b = .nil := by
  cases b <;> simp_all [Body.isNil]
theorem Arms.eq_nil_of_isNil {a : Arms} (h : a.isNil = true) : a = .nil := by
  cases a <;> simp_all [Arms.isNil]

def Arms.allNil : Arms → Bool
  | .nil => true
  | .cons b r => b.isNil && r.allNil

theorem docA_allNil (m d : Nat) : (a : Arms) → a.allNil = true → docA m d a = 0
  | .nil, _ => by simp [docA]
  | .cons b r, h => by
      simp [Arms.allNil] at h
      simp [docA, Body.eq_nil_of_isNil h.1, docB, docA_allNil m d r h.2]

/-! Moving a construct one level deeper raises everything inside it by one. -/
mutual
  theorem doc_shift_C (m d : Nat) : (c : Ctl) → docC m (d+1) c = docC m d c + 1
    | .stmt => by simp [docC]
    | .ifc a b c => by
        have h1 := doc_shift_B m (d+1) a; have h2 := doc_shift_A m (d+1) b; have h3 := doc_shift_B m (d+1) c
        simp only [docC, h1, h2, h3]
        cases hb : b.allNil <;> cases a <;> cases c <;> simp [docB, docA_allNil, hb, Body.isNil] <;> omega
    | .loop _ a b => by
        have h1 := doc_shift_B m (d+1) a; have h2 := doc_shift_B m (d+1) b
        simp only [docC, h1, h2]
        cases a <;> cases b <;> simp [docB, Body.isNil] <;> omega
    | .wth _ a => by
        have h1 := doc_shift_B m (d+1) a
        simp only [docC, h1]
        cases a <;> simp [docB, Body.isNil] <;> omega
    | .tryc a b c e => by
        have h1 := doc_shift_B m (d+1) a; have h2 := doc_shift_A m (d+1) b
        have h3 := doc_shift_B m (d+1) c; have h4 := doc_shift_B m (d+1) e
        simp only [docC, h1, h2, h3, h4]
        cases hb : b.allNil <;> cases a <;> cases c <;> cases e <;> simp [docB, docA_allNil, hb, Body.isNil] <;> omega
    | .mtch a b => by
        have h2 := doc_shift_A m (d+m) a
        have h3 := doc_shift_B m (d+m) b
        have e : d + 1 + m = d + m + 1 := by omega
        simp only [docC, e, h2, h3]
        cases hb : a.allNil <;> cases b <;> simp [docA_allNil, hb, docB, Body.isNil] <;> omega
    | .clos a => by
        have h1 := doc_shift_B m (d+1) a
        simp only [docC, h1]
        cases a <;> simp [docB, Body.isNil] <;> omega
  theorem doc_shift_B (m d : Nat) : (b : Body) → docB m (d+1) b = if b.isNil then 0 else docB m d b + 1
    | .nil => by simp [docB, Body.isNil]
    | .cons c r => by
        have h1 := doc_shift_C m d c; have h2 := doc_shift_B m d r
        simp only [docB, h1, h2]
        cases r <;> simp [docB, Body.isNil] <;> omega
  theorem doc_shift_A (m d : Nat) : (a : Arms) → docA m (d+1) a = if a.allNil then 0 else docA m d a + 1
    | .nil => by simp [docA, Arms.allNil]
    | .cons b r => by
        have h1 := doc_shift_B m d b; have h2 := doc_shift_A m d r
        simp only [docA, h1, h2]
        cases hr : r.allNil <;> cases b <;> simp [docA_allNil, hr, docB, Body.isNil, Arms.allNil] <;> omega
end

/-- **Wrapping the deepest statement in one more control structure raises the depth by exactly
    one**: a statement (or construct) `c` sitting at depth `d`, wrapped as the only statement of a
    loop / with / closure / else-less if, reaches exactly one level deeper, whatever `c` is. -/
theorem wrap_succ (d : Nat) (c : Ctl) (k : LoopK) (a : Bool) :
    docC 1 d (.loop k (.cons c .nil) .nil) = docC 1 d c + 1 ∧
    docC 1 d (.wth a (.cons c .nil)) = docC 1 d c + 1 ∧
    docC 1 d (.clos (.cons c .nil)) = docC 1 d c + 1 ∧
    docC 1 d (.ifc (.cons c .nil) .nil .nil) = docC 1 d c + 1 ∧
    docC 1 d (.mtch (.cons (.cons c .nil) .nil) .nil) = docC 1 d c + 1 ∧
    docC 1 d (.tryc (.cons c .nil) .nil .nil (.cons .stmt .nil)) = docC 1 d c + 1 := by
  have h := doc_shift_C 1 d c
  have := le_docC 1 d c
  simp [docC, docB, docA, h]
  omega

/-- … and the enclosing function's depth follows the deepest statement: replacing a statement of a
    body by one that is `k` deeper, when it was (one of) the deepest, raises the body's depth by `k`
    (`docB` of a body is the maximum over its statements — stated for an arbitrary position). -/
theorem body_depth_is_max (m d : Nat) (c : Ctl) (r : Body) :
    docB m d (.cons c r) = max (docC m d c) (docB m d r) := rfl


/-! ## Non-vacuity and deviation witnesses (concrete skeletons, decided by the kernel) -/

/-- the documentation's own example: `if` → `for` → `while` → statement -/
def exDoc : Body :=
  .cons .stmt (.cons (.ifc (.cons (.loop .forL (.cons (.loop .whileL (.cons .stmt .nil) .nil) .nil) .nil) .nil) .nil .nil) .nil)
/-- a `match` with one statement per case -/
def exMatch : Body := .cons (.mtch (.cons (.cons .stmt .nil) (.cons (.cons .stmt .nil) .nil)) (.cons .stmt .nil)) .nil

/-- the hypotheses of the theorems are satisfiable, and the example has documented depth 4 -/
example : wfB .ts exDoc = true ∧ wfB .rs exDoc = true ∧ wfB .py exDoc = true ∧ noMatchB exDoc = true ∧
    docFn exDoc = 4 := by decide
/-- TS and Rust report 4 (flagged for limit 3, not for limit 4) -/
example : tsFnDepth incTs exDoc = 4 ∧ rsFnDepth incRs exDoc = 4 ∧
    reported 3 (tsFnDepth incTs exDoc) = true ∧ reported 4 (tsFnDepth incTs exDoc) = false := by
  rw [ts_depth_eq_doc exDoc (by decide), rs_depth_eq_doc exDoc (by decide)]; decide
/-- finding F01a: Python reports 3 for the same skeleton, so `--max-depth 3` does not flag it -/
theorem F01a_witness : pyFnDepth pyCs exDoc = 3 ∧ reported 3 (pyFnDepth pyCs exDoc) = false ∧
    specReported 3 exDoc = true := by decide
/-- the table of control structures as it was before the repair of finding F01b: `match_case` listed next to `Match` -/
def pyCsOld (ty : String) : Bool := ["For", "While", "With", "AsyncWith", "Try", "Match", "match_case"].contains ty
/-- finding F01b (repaired): with the old table a Python `match` counted two levels (reported 2 = documented 2,
    i.e. one more than the F01a offset alone gives); now it counts one, as a TS `switch` / Rust `match` does -/
theorem F01b_witness : wfB .py exMatch = true ∧ docFn exMatch = 2 ∧ pyFnDepth pyCsOld exMatch = 2 ∧ pyFnDepth pyCs exMatch = 1 ∧
    tsFnDepth incTs exMatch = 2 ∧ rsFnDepth incRs exMatch = 2 := by
  rw [ts_depth_eq_doc exMatch (by decide), rs_depth_eq_doc exMatch (by decide)]; decide

end ThaiLintModel.C01
