/-
C01 — renderer: the text the implementation is run on is produced here, by the model, so that
the parse shapes `toPy/toTs/toRs` and the reported header lines are statements about real files.
-/
import ThaiLintModel.C01.Model
namespace ThaiLintModel.C01

def ind (n : Nat) : String := String.ofList (List.replicate n ' ')

/-- glue `prefix` in front of the first line of `ls` (whose own indentation is dropped) -/
def glueFirst (pre : String) (ls : List String) : List String :=
  match ls with
  | [] => [pre]
  | l :: r => (pre ++ l.trimAsciiStart.toString) :: r

mutual
  def renderPy (i : Nat) : Ctl → List String
    | .stmt => [ind i ++ "s()"]
    | .ifc thn elifs els =>
        [ind i ++ "if a:"] ++ renderPyB (i+4) thn ++ renderPyElifs i elifs ++
          (if els.isNil then [] else [ind i ++ "else:"] ++ renderPyB (i+4) els)
    | .loop k body els =>
        [ind i ++ (if k == .whileL then "while a:" else "for x in xs:")] ++ renderPyB (i+4) body ++
          (if els.isNil then [] else [ind i ++ "else:"] ++ renderPyB (i+4) els)
    | .wth a body => [ind i ++ (if a then "async with a:" else "with a:")] ++ renderPyB (i+4) body
    | .tryc body hs els fin =>
        [ind i ++ "try:"] ++ renderPyB (i+4) body ++ renderPyHandlers i hs ++
          (if els.isNil then [] else [ind i ++ "else:"] ++ renderPyB (i+4) els) ++
          (if fin.isNil then [] else [ind i ++ "finally:"] ++ renderPyB (i+4) fin)
    | .mtch cases dflt => [ind i ++ "match a:"] ++ renderPyCases (i+4) cases ++
        (if dflt.isNil then [] else [ind (i+4) ++ "case _:"] ++ renderPyB (i+8) dflt)
    | .clos body => [ind i ++ "def inner():"] ++ renderPyB (i+4) body
  def renderPyB (i : Nat) : Body → List String
    | .nil => []
    | .cons c r => renderPy i c ++ renderPyB i r
  def renderPyElifs (i : Nat) : Arms → List String
    | .nil => []
    | .cons b r => [ind i ++ "elif a:"] ++ renderPyB (i+4) b ++ renderPyElifs i r
  def renderPyHandlers (i : Nat) : Arms → List String
    | .nil => []
    | .cons b r => [ind i ++ "except E:"] ++ renderPyB (i+4) b ++ renderPyHandlers i r
  def renderPyCases (i : Nat) : Arms → List String
    | .nil => []
    | .cons b r => [ind i ++ "case 1:"] ++ renderPyB (i+4) b ++ renderPyCases i r
end

mutual
  def renderTs (i : Nat) : Ctl → List String
    | .stmt => [ind i ++ "s();"]
    | .ifc thn _ els =>
        [ind i ++ "if (a) {"] ++ renderTsB (i+2) thn ++ renderTsElse i els
    | .loop k body _ =>
        match k with
        | .doWhile => [ind i ++ "do {"] ++ renderTsB (i+2) body ++ [ind i ++ "} while (a);"]
        | .forL => [ind i ++ "for (let i = 0; i < a; i++) {"] ++ renderTsB (i+2) body ++ [ind i ++ "}"]
        | .forIn => [ind i ++ "for (const k in a) {"] ++ renderTsB (i+2) body ++ [ind i ++ "}"]
        | .forOf => [ind i ++ "for (const x of a) {"] ++ renderTsB (i+2) body ++ [ind i ++ "}"]
        | _ => [ind i ++ "while (a) {"] ++ renderTsB (i+2) body ++ [ind i ++ "}"]
    | .wth _ body => [ind i ++ "{"] ++ renderTsB (i+2) body ++ [ind i ++ "}"]
    | .clos body => [ind i ++ "{"] ++ renderTsB (i+2) body ++ [ind i ++ "}"]
    | .tryc body hs _ fin =>
        [ind i ++ "try {"] ++ renderTsB (i+2) body ++ renderTsCatch i hs ++
          (if fin.isNil then [] else [ind i ++ "} finally {"] ++ renderTsB (i+2) fin) ++ [ind i ++ "}"]
    | .mtch cases dflt => [ind i ++ "switch (a) {"] ++ renderTsCases (i+2) cases ++
        (if dflt.isNil then [] else [ind (i+2) ++ "default:"] ++ renderTsB (i+4) dflt ++ [ind (i+4) ++ "break;"]) ++ [ind i ++ "}"]
  def renderTsB (i : Nat) : Body → List String
    | .nil => []
    | .cons c r => renderTs i c ++ renderTsB i r
  def renderTsElse (i : Nat) : Body → List String
    | .nil => [ind i ++ "}"]
    | .cons (.ifc t e l) .nil => glueFirst (ind i ++ "} else ") (renderTs i (.ifc t e l))
    | .cons c r => [ind i ++ "} else {"] ++ renderTsB (i+2) (.cons c r) ++ [ind i ++ "}"]
  def renderTsCatch (i : Nat) : Arms → List String
    | .nil => []
    | .cons b _ => [ind i ++ "} catch (e) {"] ++ renderTsB (i+2) b
  def renderTsCases (i : Nat) : Arms → List String
    | .nil => []
    | .cons b r => [ind i ++ "case 1:"] ++ renderTsB (i+2) b ++ [ind (i+2) ++ "break;"] ++ renderTsCases i r
end

mutual
  def renderRs (i : Nat) : Ctl → List String
    | .stmt => [ind i ++ "s();"]
    | .ifc thn _ els => [ind i ++ "if a > 0 {"] ++ renderRsB (i+4) thn ++ renderRsElse i els
    | .loop k body _ =>
        [ind i ++ (match k with | .whileL => "while a > 0 {" | .loopL => "loop {" | _ => "for x in 0..a {")] ++
          renderRsB (i+4) body ++ [ind i ++ "}"]
    | .wth _ body => [ind i ++ "{"] ++ renderRsB (i+4) body ++ [ind i ++ "}"]
    | .tryc body _ _ _ => [ind i ++ "{"] ++ renderRsB (i+4) body ++ [ind i ++ "}"]
    | .mtch cases dflt => [ind i ++ "match a {"] ++ renderRsArms (i+4) cases ++
        (if dflt.isNil then [] else [ind (i+4) ++ "_ => {"] ++ renderRsB (i+8) dflt ++ [ind (i+4) ++ "}"]) ++ [ind i ++ "}"]
    | .clos body => [ind i ++ "let c = || {"] ++ renderRsB (i+4) body ++ [ind i ++ "};"]
  def renderRsB (i : Nat) : Body → List String
    | .nil => []
    | .cons c r => renderRs i c ++ renderRsB i r
  def renderRsElse (i : Nat) : Body → List String
    | .nil => [ind i ++ "}"]
    | .cons (.ifc t e l) .nil => glueFirst (ind i ++ "} else ") (renderRs i (.ifc t e l))
    | .cons c r => [ind i ++ "} else {"] ++ renderRsB (i+4) (.cons c r) ++ [ind i ++ "}"]
  def renderRsArms (i : Nat) : Arms → List String
    | .nil => []
    | .cons b r => [ind i ++ "1 => {"] ++ renderRsB (i+4) b ++ [ind i ++ "}"] ++ renderRsArms i r
end

/-- how a function is written in the file -/
inductive Wrap where
  | plain | method | arrow | asyncFn
  | funcExpr | generator      -- TypeScript: `const f = function (a) {…}`, `function* f(a) {…}`
  | underIf                   -- declared under a compound statement / in a module block: `if FLAG:` ⏎ def, `if (FLAG) { function … }`, `mod m { fn … }`
  | inner                     -- one level further in: class in class (Python), namespace (TypeScript), trait default method (Rust)
  deriving DecidableEq, Repr, Inhabited

structure Fn where
  name : String
  wrap : Wrap
  body : Body

/-- rendered lines of one function and the 0-based offset of its header line within them -/
def renderFn (l : Lang) (f : Fn) : List String × Nat :=
  match l, f.wrap with
  | .py, .method => (["class C_" ++ f.name ++ ":", "    def " ++ f.name ++ "(self):"] ++ renderPyB 8 f.body, 1)
  | .py, .asyncFn => (["async def " ++ f.name ++ "():"] ++ renderPyB 4 f.body, 0)
  | .py, .underIf => (["if FLAG_" ++ f.name ++ ":", "    def " ++ f.name ++ "():"] ++ renderPyB 8 f.body, 1)
  | .py, .inner => (["class O_" ++ f.name ++ ":", "    class Inner:", "        def " ++ f.name ++ "(self):"] ++ renderPyB 12 f.body, 2)
  | .py, _ => (["def " ++ f.name ++ "():"] ++ renderPyB 4 f.body, 0)
  | .ts, .method => (["class C_" ++ f.name ++ " {", "  " ++ f.name ++ "(a) {"] ++ renderTsB 4 f.body ++ ["  }", "}"], 1)
  | .ts, .arrow => (["const " ++ f.name ++ " = (a) => {"] ++ renderTsB 2 f.body ++ ["};"], 0)
  | .ts, .asyncFn => (["async function " ++ f.name ++ "(a) {"] ++ renderTsB 2 f.body ++ ["}"], 0)
  | .ts, .funcExpr => (["const " ++ f.name ++ " = function (a) {"] ++ renderTsB 2 f.body ++ ["};"], 0)
  | .ts, .generator => (["function* " ++ f.name ++ "(a) {"] ++ renderTsB 2 f.body ++ ["}"], 0)
  | .ts, .underIf => (["if (FLAG_" ++ f.name ++ ") {", "  function " ++ f.name ++ "(a) {"] ++ renderTsB 4 f.body ++ ["  }", "}"], 1)
  | .ts, .inner => (["namespace NS_" ++ f.name ++ " {", "  export function " ++ f.name ++ "(a) {"] ++ renderTsB 4 f.body ++ ["  }", "}"], 1)
  | .ts, _ => (["function " ++ f.name ++ "(a) {"] ++ renderTsB 2 f.body ++ ["}"], 0)
  | .rs, .method => (["impl S_" ++ f.name ++ " {", "    fn " ++ f.name ++ "(&self, a: i32) {"] ++ renderRsB 8 f.body ++ ["    }", "}"], 1)
  | .rs, .asyncFn => (["async fn " ++ f.name ++ "(a: i32) {"] ++ renderRsB 4 f.body ++ ["}"], 0)
  | .rs, .underIf => (["mod m_" ++ f.name ++ " {", "    fn " ++ f.name ++ "(a: i32) {"] ++ renderRsB 8 f.body ++ ["    }", "}"], 1)
  | .rs, .inner => (["trait T_" ++ f.name ++ " {", "    fn " ++ f.name ++ "(&self, a: i32) {"] ++ renderRsB 8 f.body ++ ["    }", "}"], 1)
  | .rs, _ => (["fn " ++ f.name ++ "(a: i32) {"] ++ renderRsB 4 f.body ++ ["}"], 0)

/-- whole file: lines, and for every function its 1-based header line -/
def renderFile (l : Lang) : List Fn → Nat → List String × List Nat
  | [], _ => ([], [])
  | f :: r, start =>
      let (ls, off) := renderFn l f
      let (rest, lines) := renderFile l r (start + ls.length + 1)
      (ls ++ [""] ++ rest, (start + off + 1) :: lines)

end ThaiLintModel.C01
