/- C02 — driver glue -/
import ThaiLintModel.Core.J
import ThaiLintModel.C02.Model
namespace ThaiLintModel.C02
open Lean ThaiLintModel

def valOf (j : Json) : Val := ⟨J.natD j "m" 0, J.natD j "s" 0⟩
def valJson (v : Val) : Json := Json.mkObj [("m", v.mant), ("s", v.scale)]

def posOf : String → Pos
  | "upperConstDirect" => .upperConstDirect | "upperConstNested" => .upperConstNested | "upperConstDeep" => .upperConstDeep
  | "enumMember" => .enumMember | "rangeArg" => .rangeArg | "enumerateArg" => .enumerateArg | "strRepeat" => .strRepeat
  | _ => .plain

def handle (j : Json) : Json :=
  let lang := J.strD j "lang" "python"
  -- literal sites are unsigned: a negative entry of allowed_numbers can never equal one and is dropped
  -- (reading it with a natural-number default would turn -1 into 0)
  let nonNeg := (J.arrD j "allowed").toList.filter fun a => match J.int a "m" with | .ok z => decide (0 ≤ z) | .error _ => false
  let cfg : Cfg := { allowed := nonNeg.map valOf, maxSmall := J.natD j "maxSmall" 10 }
  let fj := (j.getObjVal? "file").toOption.getD (Json.mkObj [])
  let facts : FileFacts := { name := (J.strD fj "name" "mod.py").toList, upperConsts := J.natD fj "upperConsts" 0,
                             dictIntKeys := (J.arrD fj "dictIntKeys").toList.map fun k => (k.getNat?).toOption.getD 0 }
  let outs := (J.arrD j "sites").toList.map fun sj =>
    let s : Site := { pos := posOf (J.strD sj "pos" "plain"), value := valOf ((sj.getObjVal? "value").toOption.getD (Json.mkObj [])),
                      testFile := J.boolD sj "testFile" false, inTest := J.boolD sj "inTest" false,
                      isFloat := J.boolD sj "floatNode" false }
    let text := (J.strD sj "text" "").toList
    let parsed : Option Val := match lang with
      | "python" => some s.value
      | "rust" => rsParse (J.boolD sj "floatNode" false) text
      | _ => tsParse text
    let flag := match lang with
      | "python" => pyFlagIn cfg facts s
      | "rust" => rsFlag cfg parsed s
      | _ => tsFlag cfg parsed s
    let spec := specFlagIn lang cfg facts s
    let explain : List String :=
      if flag == spec then [] else
      match lang, parsed with
      | "python", _ => ["unexplained"]
      | "rust", _ => ["unexplained"]
      | _, none =>
          if text.head? == some '0' && (text.drop 1).head?.any (fun c => c.isDigit) then ["F02e"] else ["unexplained-ts-unparsed"]
      | _, some _ => ["unexplained"]
    Json.mkObj [("parsed", match parsed with | some v => valJson v | none => Json.null), ("flag", flag), ("spec", spec),
                ("explain", J.ofStrs explain)]
  Json.mkObj [("sites", Json.arr outs.toArray), ("definitionFile", isDefinitionFile facts)]

end ThaiLintModel.C02
