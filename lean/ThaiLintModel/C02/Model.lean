/-
C02 — magic-number linter.  Executable model (no Mathlib, no proofs) of
  * `_extract_numeric_value` for TypeScript/JavaScript and Rust (what value a literal's *text* is
    read as — via Python's `int(text, 0)` / `float(text)`),
  * the decision lists `_should_flag_number` / `is_acceptable_context` (Python),
    `_should_flag_typescript_number`, `_should_flag_rust_number`,
and the specification: a literal is reported iff its value is not allowed and its position is not
exempt.  Values are exact decimals `m × 10^e` (never floats).
-/
import ThaiLintModel.Gen.Magic
namespace ThaiLintModel.C02

/-! ## Exact numeric values -/

/-- `mant × 10^(-scale)` with `mant : Nat` (literals are unsigned; a leading `-` is a unary operator) -/
structure Val where
  mant : Nat
  scale : Nat
  deriving Repr, DecidableEq

/-- numeric equality (`1 == 1.0 == 1.00`) -/
def Val.eq (a b : Val) : Bool := a.mant * 10 ^ b.scale == b.mant * 10 ^ a.scale

def Val.ofNat (n : Nat) : Val := ⟨n, 0⟩

/-- is the value an integer in `0 ..= k` (small-integer exemptions) -/
def Val.isIntLe (v : Val) (k : Nat) : Bool := v.scale == 0 && v.mant ≤ k

/-! ## Digits -/

def digitVal (c : Char) : Option Nat :=
  if '0' ≤ c ∧ c ≤ '9' then some (c.toNat - '0'.toNat)
  else if 'a' ≤ c ∧ c ≤ 'f' then some (c.toNat - 'a'.toNat + 10)
  else if 'A' ≤ c ∧ c ≤ 'F' then some (c.toNat - 'A'.toNat + 10)
  else none

/-- Horner evaluation of a digit string in `base`; `none` on an invalid digit or an empty string -/
def digitsVal (base : Nat) : List Char → Option Nat
  | [] => none
  | cs => cs.foldl (fun acc c => match acc, digitVal c with
      | some a, some d => if d < base then some (a * base + d) else none
      | _, _ => none) (some 0)

def stripUnderscores (cs : List Char) : List Char := cs.filter (· != '_')

/-- Python's rule for `_` in numeric text: single underscores, each between two digits (or right after a base prefix) -/
def underscoresOk : List Char → Bool
  | [] => true
  | ['_'] => false
  | '_' :: '_' :: _ => false
  | _ :: r => underscoresOk r

def lowerAscii (c : Char) : Char := if 'A' ≤ c ∧ c ≤ 'Z' then Char.ofNat (c.toNat + 32) else c

/-- `int(text, 0)` on literal text (no sign, no whitespace) -/
def pyInt0 (text : List Char) : Option Nat :=
  if !underscoresOk text || text.head? == some '_' then none else
  match text with
  | '0' :: p :: rest =>
    let r := stripUnderscores rest
    if p == 'x' || p == 'X' then digitsVal 16 r
    else if p == 'o' || p == 'O' then digitsVal 8 r
    else if p == 'b' || p == 'B' then digitsVal 2 r
    else
      -- decimal: leading zeros are only allowed when the number is zero ("00", "0_0")
      let ds := stripUnderscores text
      if ds.all (· == '0') then some 0 else none
  | _ =>
    let ds := stripUnderscores text
    if ds.head? == some '0' && ds.length > 1 then (if ds.all (· == '0') then some 0 else none)
    else digitsVal 10 ds

/-- split at the first character satisfying `p` -/
def splitAt1 (p : Char → Bool) : List Char → List Char × Option (List Char)
  | [] => ([], none)
  | c :: r => if p c then ([], some r) else
      let (a, b) := splitAt1 p r
      (c :: a, b)

/-- `float(text)` for `digits [. digits] [e[+-]digits]`, as an exact decimal (exponent folded into the
    scale; only non-negative results of the shift are representable here, else `none`) -/
def pyFloat (text : List Char) : Option Val :=
  if !underscoresOk text then none else
  let t := stripUnderscores text
  let (mantTxt, expTxt) := splitAt1 (fun c => c == 'e' || c == 'E') t
  let (intTxt, fracTxt) := splitAt1 (· == '.') mantTxt
  let frac := fracTxt.getD []
  if intTxt.isEmpty && frac.isEmpty then none else
  match digitsVal 10 (if (intTxt ++ frac).isEmpty then ['0'] else intTxt ++ frac) with
  | none => none
  | some m =>
    match expTxt with
    | none => some ⟨m, frac.length⟩
    | some e =>
      let (neg, ds) := match e with
        | '-' :: r => (true, r)
        | '+' :: r => (false, r)
        | r => (false, r)
      match digitsVal 10 ds with
      | none => none
      | some k =>
        if neg then some ⟨m, frac.length + k⟩
        else if k ≤ frac.length then some ⟨m, frac.length - k⟩ else some ⟨m * 10 ^ (k - frac.length), 0⟩

/-! ## `_extract_numeric_value` -/

def hasBasePrefix (low : List Char) : Bool :=
  low.take 2 == ['0', 'x'] || low.take 2 == ['0', 'o'] || low.take 2 == ['0', 'b']

/-- TypeScript/JavaScript: a BigInt suffix `n` is dropped; `0x/0o/0b` literals, legacy octal and text without `.`/`e`
    go through `int(text, 0)`, everything else through `float(text)` -/
def tsParse (text : List Char) : Option Val :=
  let t := if text.getLast? == some 'n' then text.dropLast else text
  let low := t.map lowerAscii
  if hasBasePrefix low then (pyInt0 t).map Val.ofNat
  -- legacy octal of sloppy-mode JavaScript (`017` is 15) and its decimal look-alike (`089` is 89), since the repair of F02e
  else if t.length > 1 && t.head? == some '0' && t.all Char.isDigit then
    (if t.all (fun c => c.toNat < '8'.toNat) then digitsVal 8 t else digitsVal 10 t).map Val.ofNat
  else if !t.contains '.' && !low.contains 'e' then (pyInt0 t).map Val.ofNat
  else pyFloat t

/-- `_strip_type_suffix`: the first suffix of the table (in order) that the text ends with; in a
    hexadecimal literal `f32`/`f64` are digits and are not stripped -/
def stripSuffix (suffixes : List (List Char)) (text : List Char) : List Char :=
  let isHex := (text.map lowerAscii).take 2 == ['0', 'x']
  match suffixes.find? (fun s => !(isHex && s.head? == some 'f') && s.isSuffixOf text) with
  | some s => text.take (text.length - s.length)
  | none => text

def rustSuffixes : List (List Char) := Gen.Magic.rustSuffixes.map String.toList

/-- Rust: strip the type suffix, drop underscores, then `float` for `float_literal` nodes, `int(_, 0)` otherwise -/
def rsParse (isFloatNode : Bool) (text : List Char) : Option Val :=
  let cleaned := stripUnderscores (stripSuffix rustSuffixes text)
  if isFloatNode then pyFloat cleaned else (pyInt0 cleaned).map Val.ofNat

/-! ## Positions and the decision lists -/

inductive Pos where
  | plain                 -- argument, return value, default, collection element, operand …
  | upperConstDirect      -- `MAX = 5`, `const MAX = 5`, `const MAX: u32 = 5`
  | upperConstNested      -- `TIMEOUT = 5 * 60`, `LIMITS = [16, 32]` (one level below the definition)
  | upperConstDeep        -- deeper inside an UPPER_CASE definition (`RETRY = compute(42)`'s argument)
  | enumMember            -- TypeScript enum member / Rust is n/a
  | rangeArg | enumerateArg | strRepeat   -- Python
  deriving DecidableEq, Repr

structure Cfg where
  allowed : List Val
  maxSmall : Nat

def Cfg.allows (c : Cfg) (v : Val) : Bool := c.allowed.any (fun a => a.eq v)

structure Site where
  pos : Pos
  value : Val            -- the true value of the literal
  isFloat : Bool         -- written as a float literal (`7e4`, `3.0`): never a "small integer" / repetition count
  testFile : Bool        -- the file is a test file (per language rule)
  inTest : Bool          -- Rust: inside #[test] fn / #[cfg(test)] mod
  deriving Repr

/-- Python `is_acceptable_context` (given the value `ast` computed, which is exact) -/
def pyExempt (c : Cfg) (s : Site) : Bool :=
  s.testFile || s.pos == .upperConstDirect ||
  (s.pos == .rangeArg && !s.isFloat && s.value.isIntLe c.maxSmall) ||
  (s.pos == .enumerateArg && !s.isFloat && s.value.isIntLe c.maxSmall) ||
  (s.pos == .strRepeat && !s.isFloat)

def pyFlag (c : Cfg) (s : Site) : Bool := !c.allows s.value && !pyExempt c s

/-- TypeScript: enum ancestor, or UPPER_CASE declarator/pair as parent or grandparent -/
def tsExempt (s : Site) : Bool :=
  s.testFile || s.pos == .enumMember || s.pos == .upperConstDirect || s.pos == .upperConstNested

def tsFlag (c : Cfg) (parsed : Option Val) (s : Site) : Bool :=
  match parsed with
  | none => false                       -- `_extract_numeric_value` returned None: the literal is skipped
  | some v => !c.allows v && !tsExempt s

/-- Rust: any const/static ancestor, or test context -/
def rsExempt (s : Site) : Bool :=
  s.testFile || s.inTest || s.pos == .upperConstDirect || s.pos == .upperConstNested || s.pos == .upperConstDeep

def rsFlag (c : Cfg) (parsed : Option Val) (s : Site) : Bool :=
  match parsed with
  | none => false
  | some v => !c.allows v && !rsExempt s

/-! ## Definition files (Python): `is_definition_file` exempts the whole file -/

/-- what `is_definition_file` looks at -/
structure FileFacts where
  name : List Char           -- last path component
  upperConsts : Nat          -- module-level `UPPER_CASE = <int/float/bool constant>` assignment targets
  dictIntKeys : List Nat     -- one entry per dict display anywhere in the file: its number of integer-constant keys
  deriving Repr

/-- `_matches_definition_filename` (tables regenerated from the source, tie T1) -/
def matchesDefinitionName (name : List Char) : Bool :=
  let low := name.map lowerAscii
  Gen.Magic.definitionNameSuffixes.any (fun s => s.toList.isSuffixOf low) ||
  Gen.Magic.definitionNameExact.any (fun s => s.toList == low)

/-- `is_definition_file`: by name, or ≥ MIN_UPPERCASE_CONSTANTS module-level numeric constants, or *one*
    dict display with ≥ MIN_DICT_INT_KEYS integer keys -/
def isDefinitionFile (f : FileFacts) : Bool :=
  matchesDefinitionName f.name || decide (Gen.Magic.minUppercaseConstants ≤ f.upperConsts) ||
  f.dictIntKeys.any (fun k => decide (Gen.Magic.minDictIntKeys ≤ k))

/-- Python, whole file: nothing is reported in a definition file -/
def pyFlagIn (c : Cfg) (f : FileFacts) (s : Site) : Bool := !isDefinitionFile f && pyFlag c s

/-! ## Specification -/

/-- documented exempt positions -/
def specExempt (lang : String) (c : Cfg) (s : Site) : Bool :=
  s.testFile || s.inTest ||
  (match s.pos with
   | .upperConstDirect => true
   | .upperConstNested => lang != "python"     -- Python documents only the direct definition
   | .upperConstDeep => lang == "rust"          -- a const/static *item* exempts everything inside it
   | .enumMember => true
   | .rangeArg | .enumerateArg => !s.isFloat && s.value.isIntLe c.maxSmall
   | .strRepeat => !s.isFloat
   | .plain => false)

def specFlag (lang : String) (c : Cfg) (s : Site) : Bool := !c.allows s.value && !specExempt lang c s

/-- "a file that is itself a constants-definition module": named `constants.py`, `*_constants.py` or
    `*_codes.py` (any letter case), or defining at least ten module-level numeric UPPER_CASE constants, or
    containing a lookup table — a single dict with at least five integer keys -/
def specDefinitionFile (f : FileFacts) : Bool :=
  let low := f.name.map lowerAscii
  low == "constants.py".toList || "_constants.py".toList.isSuffixOf low || "_codes.py".toList.isSuffixOf low ||
  decide (10 ≤ f.upperConsts) || f.dictIntKeys.any (fun k => decide (5 ≤ k))

def specFlagIn (lang : String) (c : Cfg) (f : FileFacts) (s : Site) : Bool :=
  !(lang == "python" && specDefinitionFile f) && specFlag lang c s

end ThaiLintModel.C02
