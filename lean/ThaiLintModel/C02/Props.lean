import ThaiLintModel.C02.Model
namespace ThaiLintModel.C02

/-! ## Flagged ⇔ value not allowed ∧ position not exempt -/

/-- positions that occur in each language's programs -/
def pyPos : Pos → Bool
  | .enumMember => false
  | _ => true
def tsPos : Pos → Bool
  | .rangeArg | .enumerateArg | .strRepeat => false
  | _ => true
def rsPos : Pos → Bool
  | .rangeArg | .enumerateArg | .strRepeat | .enumMember => false
  | _ => true

/-- **Python**: a literal is reported iff its value is not allowed and it is not in a documented
    exempt position (CPython's `ast` hands the analyzer the exact value, so no parsing is involved). -/
theorem py_flag_eq_spec (c : Cfg) (s : Site) (hp : pyPos s.pos = true) (ht : s.inTest = false) :
    pyFlag c s = specFlag "python" c s := by
  unfold pyFlag specFlag pyExempt specExempt
  cases hpos : s.pos <;> simp [pyPos, hpos] at hp <;> simp only [ht] <;>
    cases h1 : s.testFile <;> cases h2 : c.allows s.value <;> cases h3 : s.value.isIntLe c.maxSmall <;> cases h4 : s.isFloat <;> simp_all

/-- the definition-file test of the code is the documented one (the thresholds and name patterns are
    regenerated from `definition_detector.py`; a change there breaks this proof) -/
theorem definition_file_eq_spec (f : FileFacts) : isDefinitionFile f = specDefinitionFile f := by
  have hs : Gen.Magic.definitionNameSuffixes = ["_codes.py", "_constants.py"] := by decide
  have he : Gen.Magic.definitionNameExact = ["constants.py"] := by decide
  have hu : Gen.Magic.minUppercaseConstants = 10 := by decide
  have hd : Gen.Magic.minDictIntKeys = 5 := by decide
  simp only [isDefinitionFile, specDefinitionFile, matchesDefinitionName, hs, he, hu, hd, List.any_cons, List.any_nil, Bool.or_false]
  cases ("_codes.py".toList.isSuffixOf (f.name.map lowerAscii)) <;>
    cases ("_constants.py".toList.isSuffixOf (f.name.map lowerAscii)) <;>
    cases h3 : ("constants.py".toList == f.name.map lowerAscii) <;>
    cases h4 : (f.name.map lowerAscii == "constants.py".toList) <;> simp_all

/-- **Python, whole file**: a literal is reported iff the file is not a constants-definition module, its
    value is not allowed and its position is not exempt -/
theorem py_file_flag_eq_spec (c : Cfg) (f : FileFacts) (s : Site) (hp : pyPos s.pos = true) (ht : s.inTest = false) :
    pyFlagIn c f s = specFlagIn "python" c f s := by
  simp [pyFlagIn, specFlagIn, definition_file_eq_spec, py_flag_eq_spec c s hp ht]

/-- a definition file reports nothing, whatever it contains -/
theorem definition_file_silent (c : Cfg) (f : FileFacts) (sites : List Site) (h : isDefinitionFile f = true) :
    sites.filter (pyFlagIn c f) = [] := by
  simp [pyFlagIn, h]

/-- integer keys are counted **per dict**: a file whose every dict has fewer than five integer keys, with
    fewer than ten constants and an ordinary name, is not a definition file however many dicts it has -/
theorem small_dicts_never_exempt (f : FileFacts) (hn : matchesDefinitionName f.name = false) (hu : f.upperConsts < 10)
    (hd : ∀ k ∈ f.dictIntKeys, k < 5) : isDefinitionFile f = false := by
  have hu' : Gen.Magic.minUppercaseConstants = 10 := by decide
  have hd' : Gen.Magic.minDictIntKeys = 5 := by decide
  simp only [isDefinitionFile, hn, hu', hd', Bool.false_or, Bool.or_eq_false_iff, decide_eq_false_iff_not, List.any_eq_false,
    decide_eq_true_eq]
  exact ⟨by omega, fun k hk => by have := hd k hk; omega⟩

example : isDefinitionFile ⟨"mod.py".toList, 3, [3, 3, 4]⟩ = false ∧ isDefinitionFile ⟨"mod.py".toList, 3, [3, 5]⟩ = true ∧
    isDefinitionFile ⟨"Status_CODES.py".toList, 0, []⟩ = true ∧ isDefinitionFile ⟨"codes.py".toList, 9, [4]⟩ = false ∧
    isDefinitionFile ⟨"constants.py".toList, 0, []⟩ = true ∧ isDefinitionFile ⟨"mod.py".toList, 10, []⟩ = true := by decide

/-- **TypeScript/JavaScript**, for literals whose text is read as their true value -/
theorem ts_flag_eq_spec (c : Cfg) (s : Site) (hp : tsPos s.pos = true) (ht : s.inTest = false) :
    tsFlag c (some s.value) s = specFlag "typescript" c s := by
  unfold tsFlag specFlag tsExempt specExempt
  cases hpos : s.pos <;> simp [tsPos, hpos] at hp <;> simp only [ht] <;>
    cases h1 : s.testFile <;> cases h2 : c.allows s.value <;> simp_all

/-- **Rust**, for literals whose text is read as their true value -/
theorem rs_flag_eq_spec (c : Cfg) (s : Site) (hp : rsPos s.pos = true) :
    rsFlag c (some s.value) s = specFlag "rust" c s := by
  unfold rsFlag specFlag rsExempt specExempt
  cases hpos : s.pos <;> simp [rsPos, hpos] at hp <;>
    cases h1 : s.testFile <;> cases h3 : s.inTest <;> cases h2 : c.allows s.value <;> simp_all

/-- a literal whose text cannot be read is silently skipped (this is how findings F02a/F02b arise) -/
theorem unparsed_never_flagged (c : Cfg) (s : Site) : tsFlag c none s = false ∧ rsFlag c none s = false := by
  simp [tsFlag, rsFlag]

/-! ## Adding / removing an allowed value changes exactly the literals of that value -/

def Cfg.allow (c : Cfg) (v : Val) : Cfg := { c with allowed := v :: c.allowed }

theorem allows_allow (c : Cfg) (v x : Val) : (c.allow v).allows x = (v.eq x || c.allows x) := by
  simp [Cfg.allow, Cfg.allows]

/-- per literal: after allowing `v` a literal is reported iff it was reported before and its value is not `v` -/
theorem allowed_delta_site (c : Cfg) (v : Val) (s : Site) :
    pyFlag (c.allow v) s = (pyFlag c s && !v.eq s.value) ∧
    (∀ p, tsFlag (c.allow v) p s = (tsFlag c p s && !(match p with | some x => v.eq x | none => false))) ∧
    (∀ p, rsFlag (c.allow v) p s = (rsFlag c p s && !(match p with | some x => v.eq x | none => false))) := by
  refine ⟨?_, ?_, ?_⟩
  · have : pyExempt (c.allow v) s = pyExempt c s := rfl
    simp only [pyFlag, allows_allow, this]
    cases v.eq s.value <;> cases c.allows s.value <;> cases pyExempt c s <;> rfl
  · intro p
    cases p with
    | none => simp [tsFlag]
    | some x =>
      simp only [tsFlag, allows_allow]
      cases v.eq x <;> cases c.allows x <;> cases tsExempt s <;> rfl
  · intro p
    cases p with
    | none => simp [rsFlag]
    | some x =>
      simp only [rsFlag, allows_allow]
      cases v.eq x <;> cases c.allows x <;> cases rsExempt s <;> rfl

/-- per file: **adding a value to allowed_numbers removes exactly the violations for literals of
    that value** (and removing it adds exactly those back) — for every program, as a list law -/
theorem allowed_delta (c : Cfg) (v : Val) (sites : List Site) :
    sites.filter (pyFlag (c.allow v)) = (sites.filter (pyFlag c)).filter (fun s => !v.eq s.value) := by
  rw [List.filter_filter]
  apply List.filter_congr
  intro s _
  rw [(allowed_delta_site c v s).1, Bool.and_comm]

/-- raising `max_small_integer` never adds a violation -/
theorem max_small_monotone (c : Cfg) (k : Nat) (hk : c.maxSmall ≤ k) (s : Site) :
    pyFlag { c with maxSmall := k } s = true → pyFlag c s = true := by
  unfold pyFlag pyExempt Cfg.allows Val.isIntLe
  intro h
  simp only [Bool.and_eq_true, Bool.not_eq_true', Bool.or_eq_false_iff, Bool.and_eq_false_iff, beq_eq_false_iff_ne,
    decide_eq_false_iff_not] at h ⊢
  refine ⟨h.1, ⟨⟨⟨⟨h.2.1.1.1.1, h.2.1.1.1.2⟩, ?_⟩, ?_⟩, h.2.2⟩⟩
  · rcases h.2.1.1.2 with h' | h' | h'
    · exact Or.inl h'
    · exact Or.inr (Or.inl h')
    · exact Or.inr (Or.inr (by omega))
  · rcases h.2.1.2 with h' | h' | h'
    · exact Or.inl h'
    · exact Or.inr (Or.inl h')
    · exact Or.inr (Or.inr (by omega))

/-! ## Reading literal text (`_extract_numeric_value`) -/

theorem stripUnderscores_noop (cs : List Char) (h : '_' ∉ cs) : stripUnderscores cs = cs := by
  unfold stripUnderscores
  apply List.filter_eq_self.2
  intro a ha
  simp; intro e; subst e; exact h ha

theorem underscoresOk_noop : (cs : List Char) → '_' ∉ cs → underscoresOk cs = true
  | [], _ => rfl
  | [c], h => by
      have : c ≠ '_' := fun e => h (by simp [e])
      unfold underscoresOk; split <;> simp_all [underscoresOk]
  | c :: d :: r, h => by
      have hc : c ≠ '_' := fun e => h (by simp [e])
      have ih := underscoresOk_noop (d :: r) (fun hm => h (List.mem_cons_of_mem _ hm))
      unfold underscoresOk; split <;> simp_all

/-- hexadecimal text is read as the base-16 value of its digits … -/
theorem pyInt0_hex (ds : List Char) (h : '_' ∉ ds) : pyInt0 ('0' :: 'x' :: ds) = digitsVal 16 ds := by
  have h' : '_' ∉ ('0' :: 'x' :: ds) := by simp [h]
  simp [pyInt0, underscoresOk_noop _ h', stripUnderscores_noop _ h]

/-- … by the TypeScript analyzer too, whatever its digits are (`e` included — fix 570cd14) -/
theorem ts_hex_sound (ds : List Char) (h : '_' ∉ ds) (hn : ('0' :: 'x' :: ds).getLast? ≠ some 'n') :
    tsParse ('0' :: 'x' :: ds) = (digitsVal 16 ds).map Val.ofNat := by
  have h0 : (('0' :: 'x' :: ds).getLast? == some 'n') = false := by simpa using hn
  have hp : hasBasePrefix (('0' :: 'x' :: ds).map lowerAscii) = true := by
    simp only [List.map_cons, hasBasePrefix, List.take]
    decide
  simp only [tsParse, h0, Bool.false_eq_true, if_false, hp, if_true, pyInt0_hex ds h]

/-- regression witnesses for the repaired findings F02a (hex with e), F02b (BigInt), F02d (Rust hex …f32) -/
example : tsParse "0xFE".toList = some ⟨254, 0⟩ ∧ tsParse "0x1e".toList = some ⟨30, 0⟩ ∧ tsParse "10n".toList = some ⟨10, 0⟩ ∧
    rsParse false "0xaf32".toList = some ⟨44850, 0⟩ ∧ rsParse true "2.5f32".toList = some ⟨25, 1⟩ := by decide
/-- finding F02e (repaired): a legacy octal literal (`017`, sloppy-mode JavaScript) used to be skipped, because `int(text, 0)`
    rejects it (`pyInt0`); it is read as octal now, and `089`, which JavaScript reads as decimal, as 89 -/
theorem F02e_witness : pyInt0 "017".toList = none ∧ tsParse "017".toList = some ⟨15, 0⟩ ∧ tsParse "089".toList = some ⟨89, 0⟩ ∧
    tsParse "0".toList = some ⟨0, 0⟩ ∧ tsParse "00".toList = some ⟨0, 0⟩ := by decide

/-- tests (not the unbounded claim): each documented literal form is read as its value -/
example : tsParse "255".toList = some ⟨255, 0⟩ ∧ tsParse "1_000".toList = some ⟨1000, 0⟩ ∧ tsParse "0o17".toList = some ⟨15, 0⟩ ∧
    tsParse "0b101".toList = some ⟨5, 0⟩ ∧ tsParse "3.75".toList = some ⟨375, 2⟩ ∧ tsParse "2e3".toList = some ⟨2000, 0⟩ ∧
    tsParse "6e-2".toList = some ⟨6, 2⟩ ∧ tsParse "1.5e1".toList = some ⟨15, 0⟩ := by decide
example : rsParse false "42u8".toList = some ⟨42, 0⟩ ∧ rsParse false "1_000_000usize".toList = some ⟨1000000, 0⟩ ∧
    rsParse false "0xffi64".toList = some ⟨255, 0⟩ ∧ rsParse true "2.5f32".toList = some ⟨25, 1⟩ ∧
    rsParse true "2e4".toList = some ⟨20000, 0⟩ ∧ rsParse false "7i128".toList = some ⟨7, 0⟩ := by decide
example : (Val.mk 10 1).eq (Val.ofNat 1) = true ∧ (Val.mk 375 2).eq ⟨3750, 3⟩ = true ∧ (Val.mk 375 2).eq ⟨376, 2⟩ = false := by decide

end ThaiLintModel.C02
