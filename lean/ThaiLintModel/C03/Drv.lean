/- C03 — driver glue -/
import ThaiLintModel.Core.J
import ThaiLintModel.C03.Model
namespace ThaiLintModel.C03
open Lean ThaiLintModel

def fileOf (j : Json) : File :=
  (j.getArr?.toOption.getD #[]).toList.filterMap fun t =>
    match t.getArr? with
    | .ok a => some ((a[0]!.getNat?).toOption.getD 0, (a[1]!.getNat?).toOption.getD 0)
    | _ => none

def violJson (v : Viol) : Json :=
  Json.mkObj [("file", v.file), ("line", v.line), ("span", v.span), ("count", v.count),
              ("refs", Json.arr (v.refs.map fun (f, s, e) => Json.arr #[f, s, e]).toArray)]

def handle (j : Json) : Json :=
  let files := (J.arrD j "files").toList.map fileOf
  let k := J.natD j "k" 3
  let minOcc := J.natD j "minOcc" 2
  let ks := J.boolD j "keptSpan" true
  let rep := report ks k minOcc files
  let raw := rawViolations files.length minOcc (allWindows k files)
  let repSpec := report true k minOcc files
  Json.mkObj [("report", Json.arr (rep.map violJson).toArray), ("raw", Json.arr (raw.map violJson).toArray),
              ("reportFixed", Json.arr (repSpec.map violJson).toArray),
              ("dupSnippets", (dupSnippets (allWindows k files)).length)]

end ThaiLintModel.C03
