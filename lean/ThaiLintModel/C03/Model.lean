/-
C03 — duplicate-code (DRY) linter.  Executable model (no Mathlib, no proofs) of the pipeline
  tokenise → rolling windows → store → duplicate hashes → per-hash block de-duplication →
  min_occurrences → one violation per block → per-file violation de-duplication
(`python_analyzer._rolling_hash_with_tracking`, `cache_query`, `deduplicator`, `violation_filter`,
`violation_generator`, `violation_builder`).

A file is its list of *tokens*: (original line number, normalised text).  Normalised texts are
opaque identifiers (`Nat`): only their equality matters; `hash(snippet)` is modelled by the snippet
itself (collision-free).  Single-statement detection and the block filters are the identity on the
statement pools the property quantifies over.
-/
namespace ThaiLintModel.C03

abbrev Tok := Nat × Nat            -- (original line, normalised text id)
abbrev File := List Tok

structure Block where
  file : Nat                       -- index of the file (files are ordered by path)
  start : Nat                      -- original line of the first token
  stop : Nat                       -- original line of the last token
  snippet : List Nat
  deriving DecidableEq, Repr

/-- `_rolling_hash_with_tracking`: every window of `k` consecutive tokens -/
def windows (k : Nat) (fi : Nat) : File → List Block
  | [] => []
  | t :: rest =>
    let w := (t :: rest).take k
    (if w.length == k && k > 0 then
      [{ file := fi, start := t.1, stop := (w.getLast?.getD t).1, snippet := w.map (·.2) }] else []) ++ windows k fi rest

def allWindows (k : Nat) (files : List File) : List Block :=
  (files.zipIdx.map fun (f, i) => windows k i f).flatten

/-- `_blocks_overlap` -/
def overlap (a b : Block) : Bool := a.start ≤ b.stop && b.start ≤ a.stop

/-- `_remove_overlaps_from_file`: greedy, in start order (input sorted by start) -/
def greedy (kept : List Block) : List Block → List Block
  | [] => kept.reverse
  | b :: rest => if kept.any (overlap b) then greedy kept rest else greedy (b :: kept) rest

/-- insertion sort of blocks by (file, start): `ORDER BY file_path, start_line` -/
def blockLe (a b : Block) : Bool := a.file < b.file || (a.file == b.file && a.start ≤ b.start)

def insertBy {α} (le : α → α → Bool) (x : α) : List α → List α
  | [] => [x]
  | y :: r => if le x y then x :: y :: r else y :: insertBy le x r
def sortBy {α} (le : α → α → Bool) : List α → List α
  | [] => []
  | x :: r => insertBy le x (sortBy le r)

/-- `deduplicate_blocks`: per file, greedy non-overlapping; files in order -/
def dedupBlocks (nFiles : Nat) (blocks : List Block) : List Block :=
  (List.range nFiles).flatMap fun fi => greedy [] (sortBy blockLe (blocks.filter (·.file == fi)))

structure Viol where
  file : Nat
  line : Nat
  span : Nat                      -- "N lines" of the message = stop − start + 1
  count : Nat                     -- "M occurrences"
  refs : List (Nat × Nat × Nat)   -- "Also found in: file:start-stop"
  snippet : List Nat
  deriving DecidableEq, Repr

def buildViolation (b : Block) (all : List Block) : Viol :=
  { file := b.file, line := b.start, span := b.stop - b.start + 1, count := all.length,
    refs := (all.filter (fun d => d.file != b.file || d.start != b.start)).map (fun d => (d.file, d.start, d.stop)),
    snippet := b.snippet }

/-- distinct snippets occurring at least twice, in first-occurrence order (`GROUP BY … HAVING COUNT(*) >= 2`) -/
def dupSnippets (store : List Block) : List (List Nat) :=
  (store.map (·.snippet)).eraseDups.filter (fun s => (store.filter (·.snippet == s)).length ≥ 2)

/-- `_collect_violations` -/
def rawViolations (nFiles minOcc : Nat) (store : List Block) : List Viol :=
  (dupSnippets store).flatMap fun s =>
    let d := dedupBlocks nFiles (store.filter (·.snippet == s))
    if d.length ≥ minOcc && d.length > 0 then d.map (fun b => buildViolation b d) else []

/-- `ViolationFilter._overlaps(v, kept)`: `v.line < kept.line + span`, where the span is the kept
    violation's (`keptSpan = true`, the repaired code) or the candidate's own (`false`, finding F03a) -/
def vOverlaps (keptSpan : Bool) (v kept : Viol) : Bool :=
  v.line < kept.line + (if keptSpan then kept.span else v.span)

/-- `filter_overlapping` on violations sorted by line -/
def filterOverlapping (keptSpan : Bool) (kept : List Viol) : List Viol → List Viol
  | [] => kept.reverse
  | v :: rest => if kept.any (vOverlaps keptSpan v) then filterOverlapping keptSpan kept rest
                 else filterOverlapping keptSpan (v :: kept) rest

def violLe (a b : Viol) : Bool := a.line ≤ b.line

/-- `deduplicate_violations`: per file, stable sort by line, drop overlapping -/
def dedupViolations (keptSpan : Bool) (nFiles : Nat) (vs : List Viol) : List Viol :=
  (List.range nFiles).flatMap fun fi => filterOverlapping keptSpan [] (sortBy violLe (vs.filter (·.file == fi)))

/-- the whole report -/
def report (keptSpan : Bool) (k minOcc : Nat) (files : List File) : List Viol :=
  dedupViolations keptSpan files.length (rawViolations files.length minOcc (allWindows k files))

/-- the lines a violation / block covers -/
def Viol.covers (v : Viol) (file line : Nat) : Bool := v.file == file && v.line ≤ line && line < v.line + v.span
def rangesMeet (f1 s1 e1 f2 s2 e2 : Nat) : Bool := f1 == f2 && s1 ≤ e2 && s2 ≤ e1

end ThaiLintModel.C03
