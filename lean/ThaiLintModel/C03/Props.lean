import ThaiLintModel.C03.Model
namespace ThaiLintModel.C03

/-! ## Generic facts about the two greedy passes and the sort -/

theorem insertBy_perm {α} (le : α → α → Bool) (x : α) (l : List α) : (insertBy le x l).Perm (x :: l) := by
  induction l with
  | nil => simp [insertBy]
  | cons y r ih =>
    simp only [insertBy]
    split
    · exact List.Perm.refl _
    · exact (List.Perm.cons y ih).trans (List.Perm.swap x y r)

theorem sortBy_perm {α} (le : α → α → Bool) (l : List α) : (sortBy le l).Perm l := by
  induction l with
  | nil => simp [sortBy]
  | cons x r ih => exact (insertBy_perm le x _).trans (List.Perm.cons x ih)

theorem mem_sortBy {α} (le : α → α → Bool) (l : List α) (x : α) : x ∈ sortBy le l ↔ x ∈ l :=
  (sortBy_perm le l).mem_iff

/-- the block pass keeps a sub-collection of its input -/
theorem greedy_subset (kept input : List Block) : ∀ b ∈ greedy kept input, b ∈ kept ∨ b ∈ input := by
  induction input generalizing kept with
  | nil => intro b hb; left; simpa [greedy] using hb
  | cons x r ih =>
    intro b hb
    simp only [greedy] at hb
    split at hb
    · rcases ih kept b hb with h | h
      · exact Or.inl h
      · exact Or.inr (List.mem_cons_of_mem _ h)
    · rcases ih (x :: kept) b hb with h | h
      · rcases List.mem_cons.1 h with rfl | h
        · exact Or.inr (by simp)
        · exact Or.inl h
      · exact Or.inr (List.mem_cons_of_mem _ h)

/-- … and is maximal: every input block is kept or overlaps a kept one -/
theorem greedy_maximal (kept input : List Block) :
    (∀ k ∈ kept, k ∈ greedy kept input) ∧
    (∀ b ∈ input, b ∈ greedy kept input ∨ ∃ k ∈ greedy kept input, overlap b k = true) := by
  induction input generalizing kept with
  | nil => simp [greedy]
  | cons x r ih =>
    simp only [greedy]
    split
    · rename_i hov
      obtain ⟨h1, h2⟩ := ih kept
      refine ⟨h1, ?_⟩
      intro b hb
      rcases List.mem_cons.1 hb with rfl | hb
      · right
        obtain ⟨k, hk, hk2⟩ := List.any_eq_true.1 hov
        exact ⟨k, h1 k hk, hk2⟩
      · exact h2 b hb
    · obtain ⟨h1, h2⟩ := ih (x :: kept)
      refine ⟨fun k hk => h1 k (List.mem_cons_of_mem _ hk), ?_⟩
      intro b hb
      rcases List.mem_cons.1 hb with rfl | hb
      · left; exact h1 b (by simp)
      · exact h2 b hb

theorem dedupBlocks_subset (n : Nat) (blocks : List Block) : ∀ b ∈ dedupBlocks n blocks, b ∈ blocks := by
  intro b hb
  simp only [dedupBlocks, List.mem_flatMap] at hb
  obtain ⟨fi, _, hb⟩ := hb
  rcases greedy_subset [] _ b hb with h | h
  · simp at h
  · rw [mem_sortBy] at h
    exact (List.mem_filter.1 h).1

/-! ## Soundness -/

/-- **Every named location carries the same normalised text as the reported block**, and is a real
    window of the project: the references of a violation are blocks of the store with that snippet. -/
theorem refs_same_snippet (nFiles minOcc : Nat) (store : List Block) :
    ∀ v ∈ rawViolations nFiles minOcc store, ∀ r ∈ v.refs,
      ∃ b ∈ store, b.snippet = v.snippet ∧ (b.file, b.start, b.stop) = r := by
  intro v hv r hr
  simp only [rawViolations, List.mem_flatMap] at hv
  obtain ⟨s, _, hv⟩ := hv
  split at hv
  · simp only [List.mem_map] at hv
    obtain ⟨b0, hb0, rfl⟩ := hv
    simp only [buildViolation, List.mem_map, List.mem_filter] at hr
    obtain ⟨d, ⟨hd, _⟩, rfl⟩ := hr
    have hd' := dedupBlocks_subset _ _ d hd
    have hb0' := dedupBlocks_subset _ _ b0 hb0
    simp only [List.mem_filter, beq_iff_eq] at hd' hb0'
    exact ⟨d, hd'.1, by simp [buildViolation, hd'.2, hb0'.2], rfl⟩
  · simp at hv

/-- the reported block itself is a window of the project with the reported text -/
theorem violation_is_window (nFiles minOcc : Nat) (store : List Block) :
    ∀ v ∈ rawViolations nFiles minOcc store, ∃ b ∈ store, b.snippet = v.snippet ∧ b.file = v.file ∧ b.start = v.line ∧
      v.count ≥ minOcc := by
  intro v hv
  simp only [rawViolations, List.mem_flatMap] at hv
  obtain ⟨s, _, hv⟩ := hv
  split at hv
  · rename_i hlen
    simp only [List.mem_map] at hv
    obtain ⟨b0, hb0, rfl⟩ := hv
    have hb0' := dedupBlocks_subset _ _ b0 hb0
    simp only [List.mem_filter] at hb0'
    simp only [Bool.and_eq_true, decide_eq_true_eq] at hlen
    exact ⟨b0, hb0'.1, by simp [buildViolation], by simp [buildViolation], by simp [buildViolation], by simpa [buildViolation] using hlen.1⟩
  · simp at hv

/-- **Projects that share no run produce no DRY violation** -/
theorem no_dup_no_report (keptSpan : Bool) (k minOcc : Nat) (files : List File)
    (h : dupSnippets (allWindows k files) = []) : report keptSpan k minOcc files = [] := by
  have : rawViolations files.length minOcc (allWindows k files) = [] := by simp [rawViolations, h]
  simp only [report, this, dedupViolations]
  apply List.flatMap_eq_nil_iff.2
  intro fi _
  simp [sortBy, filterOverlapping]

/-! ## Completeness / mutuality: every raw violation is kept or covered by a kept one -/

theorem filterOverlapping_maximal (ks : Bool) (kept input : List Viol) :
    (∀ k ∈ kept, k ∈ filterOverlapping ks kept input) ∧
    (∀ v ∈ input, v ∈ filterOverlapping ks kept input ∨ ∃ k ∈ filterOverlapping ks kept input, vOverlaps ks v k = true) := by
  induction input generalizing kept with
  | nil => simp [filterOverlapping]
  | cons x r ih =>
    simp only [filterOverlapping]
    split
    · rename_i hov
      obtain ⟨h1, h2⟩ := ih kept
      refine ⟨h1, ?_⟩
      intro b hb
      rcases List.mem_cons.1 hb with rfl | hb
      · right
        obtain ⟨k, hk, hk2⟩ := List.any_eq_true.1 hov
        exact ⟨k, h1 k hk, hk2⟩
      · exact h2 b hb
    · obtain ⟨h1, h2⟩ := ih (x :: kept)
      refine ⟨fun k hk => h1 k (List.mem_cons_of_mem _ hk), ?_⟩
      intro b hb
      rcases List.mem_cons.1 hb with rfl | hb
      · left; exact h1 b (by simp)
      · exact h2 b hb

theorem filterOverlapping_subset (ks : Bool) (kept input : List Viol) :
    ∀ v ∈ filterOverlapping ks kept input, v ∈ kept ∨ v ∈ input := by
  induction input generalizing kept with
  | nil => intro b hb; left; simpa [filterOverlapping] using hb
  | cons x r ih =>
    intro b hb
    simp only [filterOverlapping] at hb
    split at hb
    · rcases ih kept b hb with h | h
      · exact Or.inl h
      · exact Or.inr (List.mem_cons_of_mem _ h)
    · rcases ih (x :: kept) b hb with h | h
      · rcases List.mem_cons.1 h with rfl | h
        · exact Or.inr (by simp)
        · exact Or.inl h
      · exact Or.inr (List.mem_cons_of_mem _ h)

/-- the report only ever removes raw violations (every filter is a removal) -/
theorem report_subset_raw (ks : Bool) (k minOcc : Nat) (files : List File) :
    ∀ v ∈ report ks k minOcc files, v ∈ rawViolations files.length minOcc (allWindows k files) := by
  intro v hv
  simp only [report, dedupViolations, List.mem_flatMap] at hv
  obtain ⟨fi, _, hv⟩ := hv
  rcases filterOverlapping_subset ks [] _ v hv with h | h
  · simp at h
  · rw [mem_sortBy] at h; exact (List.mem_filter.1 h).1

/-- **Every occurrence is covered** (repaired code, `keptSpan = true`): each raw violation — one per
    non-overlapping occurrence of every duplicated window, which is also what every "Also found in"
    reference points at — is either reported itself or starts inside the lines of a reported violation
    of the same file.  No hypothesis on interleaved comments / blank lines is needed any more. -/
theorem every_occurrence_covered (k minOcc : Nat) (files : List File) :
    ∀ v ∈ rawViolations files.length minOcc (allWindows k files), v.file < files.length →
      v ∈ report true k minOcc files ∨
      ∃ w ∈ report true k minOcc files, w.file = v.file ∧ v.line < w.line + w.span := by
  intro v hv hfile
  have hin : v ∈ sortBy violLe ((rawViolations files.length minOcc (allWindows k files)).filter (·.file == v.file)) := by
    rw [mem_sortBy]; exact List.mem_filter.2 ⟨hv, by simp⟩
  rcases (filterOverlapping_maximal true [] _).2 v hin with h | ⟨w, hw, hov⟩
  · left
    simp only [report, dedupViolations, List.mem_flatMap]
    exact ⟨v.file, by simpa using hfile, h⟩
  · right
    refine ⟨w, ?_, ?_, ?_⟩
    · simp only [report, dedupViolations, List.mem_flatMap]
      exact ⟨v.file, by simpa using hfile, hw⟩
    · rcases filterOverlapping_subset true [] _ w hw with h | h
      · simp at h
      · rw [mem_sortBy] at h
        simpa using (List.mem_filter.1 h).2
    · simpa [vOverlaps] using hov

/-! ## Witnesses -/

/-- a.py: block X on lines 2-4 (shared with b.py) and block Y on lines 5, 14, 15 (comment lines in
    between; shared with c.py) -/
def exFiles : List File :=
  [ [(1, 9), (2, 1), (3, 2), (4, 3), (5, 4), (14, 5), (15, 6), (16, 8)],
    [(1, 7), (2, 1), (3, 2), (4, 3)],
    [(1, 6), (2, 4), (3, 5), (4, 6)] ]

/-- finding F03a (the code before the repair, `keptSpan = false`): Y's occurrence in file 0 is
    neither reported nor covered although file 2's violation names it; with the repaired overlap
    test it is reported -/
theorem F03a_witness :
    ((report false 3 2 exFiles).filter (·.file == 0)).map (·.line) = [2] ∧
    ((report true 3 2 exFiles).filter (·.file == 0)).map (·.line) = [2, 5] ∧
    ((report false 3 2 exFiles).filter (·.file == 2)).map (·.refs) = [[(0, 5, 15)]] := by
  decide +kernel

/-- non-vacuity: a plain two-file duplicate is reported in both files, each naming the other, count 2 -/
example :
    let r := report true 3 2 [[(1, 1), (2, 2), (3, 3)], [(5, 1), (6, 2), (7, 3)]]
    r.map (·.file) = [0, 1] ∧ r.map (·.line) = [1, 5] ∧ r.map (·.count) = [2, 2] ∧ r.map (·.refs) = [[(1, 5, 7)], [(0, 1, 3)]] := by
  decide +kernel

end ThaiLintModel.C03
