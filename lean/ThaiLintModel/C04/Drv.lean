/- C04 — driver glue -/
import ThaiLintModel.Core.J
import ThaiLintModel.C04.Model
namespace ThaiLintModel.C04
open Lean ThaiLintModel

def formName : Form → String
  | .sameLine => "sameLine" | .nextLine => "nextLine" | .blockStart => "blockStart" | .fileLevel => "fileLevel"

def handle (j : Json) : Json :=
  match J.strD j "op" "engine" with
  | "cells" =>
    let rule := (J.strD j "rule" "magic-numbers.numeric-literal").toList
    Json.arr (allCells.map fun c => Json.mkObj [("form", formName c.form), ("slashes", c.slashes), ("designLint", c.designLint),
      ("upper", c.upper), ("bare", c.bare), ("text", String.ofList (c.text rule)), ("honoured", c.honoured rule)]).toArray
  | "matches" =>
    Json.mkObj [("matches", ruleMatches (J.strD j "rule" "").toList (J.strD j "pattern" "").toList)]
  | _ =>
    let lines := (J.strsD j "lines").map String.toList
    let qs := (J.arrD j "queries").toList.map fun q => (J.strD q "rule" "", J.natD q "line" 0)
    Json.mkObj [("ignored", Json.arr (qs.map fun (r, l) => Json.bool (shouldIgnore (J.boolD j "trackStart" true) lines r.toList l)).toArray),
                ("kinds", J.ofStrs ((lines.map classify).map fun k => match k with | .start _ => "start" | .stop => "stop" | .other => "other"))]

end ThaiLintModel.C04
