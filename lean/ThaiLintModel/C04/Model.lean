/-
C04 — suppression directives.  Executable model (no Mathlib, no proofs) of the generic ignore engine
`IgnoreDirectiveParser.should_ignore_violation` (`src/linter_config/ignore.py`), its string
recognisers (`directive_markers.py`) and `rule_matches` (`rule_matcher.py`, alias table from
`src/core/rule_aliases.py`), working on real line text (`List Char`).
-/
import ThaiLintModel.Gen.Ignore
namespace ThaiLintModel.C04

abbrev Str := List Char

def lowerChar (c : Char) : Char := if 'A' ≤ c ∧ c ≤ 'Z' then Char.ofNat (c.toNat + 32) else c
def lower (s : Str) : Str := s.map lowerChar

def isSpace (c : Char) : Bool := c == ' ' || c == '\t' || c == '\n' || c == '\r' || c == '\x0b' || c == '\x0c'
def strip (s : Str) : Str := ((s.dropWhile isSpace).reverse.dropWhile isSpace).reverse

/-- `needle in s`; returns the text *after* the first occurrence -/
def afterSub : Str → Str → Option Str
  | [], p => if p.isEmpty then some [] else none
  | c :: s, p => if p.isPrefixOf (c :: s) then some ((c :: s).drop p.length) else afterSub s p
def containsSub (s p : Str) : Bool := (afterSub s p).isSome

/-! ## `rule_matches` -/

def aliases : List (Str × Str) := Gen.Ignore.ruleIdAliases.map fun (a, b) => (a.toList, b.toList)

def matchesDirectly (ruleId pattern : Str) : Bool :=
  let r := lower ruleId
  let p := lower pattern
  if p.getLast? == some '*' then
    (p.dropLast).isPrefixOf r || (p.dropLast.getLast? == some '.' && r == p.dropLast.dropLast)
  else r == p || (p ++ ['.']).isPrefixOf r

def patternMatchesDeprecated (patternLower deprecated : Str) : Bool :=
  let d := lower deprecated
  let cat := d.takeWhile (· != '.')
  patternLower == d || patternLower == cat || patternLower == cat ++ ['.', '*']

def matchesViaAlias (ruleId pattern : Str) : Bool :=
  aliases.any fun (dep, canon) => lower canon == lower ruleId && patternMatchesDeprecated (lower pattern) dep

def ruleMatches (ruleId pattern : Str) : Bool := matchesDirectly ruleId pattern || matchesViaAlias ruleId pattern

/-- rules of a directive: `none` = all rules -/
abbrev Rules := Option (List Str)

def rulesMatch (rs : Rules) (ruleId : Str) : Bool :=
  match rs with
  | none => true
  | some l => l.contains ['*'] || l.any (ruleMatches ruleId)

/-! ## Splitting rule lists -/

/-- split on any of the separator characters, dropping empty pieces (`re.split(r"[,\s]+", …)` + strip) -/
def splitOn (sep : Char → Bool) (s : Str) : List Str :=
  let rec go (cur : Str) (acc : List Str) : Str → List Str
    | [] => (if cur.isEmpty then acc else acc ++ [cur])
    | c :: r => if sep c then go [] (if cur.isEmpty then acc else acc ++ [cur]) r else go (cur ++ [c]) acc r
  go [] [] s

/-- `[r.strip() for r in text.split(",")]` (bracket syntax) -/
def bracketRules (text : Str) : List Str := (splitOn (· == ',') text).map strip |>.filter (!·.isEmpty)
/-- `re.split(r"[,\s]+", text)` (space syntax) -/
def spaceRules (text : Str) : List Str := splitOn (fun c => c == ',' || isSpace c) text

/-- text between `marker[` and the next `]` (case-insensitive marker) — `re.search(marker\[([^\]]+)\])` -/
def bracketAfter (line marker : Str) : Option Str :=
  match afterSub (lower line) (lower marker ++ ['[']) with
  | none => none
  | some restLower =>
    let rest := line.drop (line.length - restLower.length)      -- same position in the original text
    let inner := rest.takeWhile (· != ']')
    if inner.isEmpty || inner.length == rest.length then none else some inner

/-- the words of a rule list end at a word that begins a `//` comment (`(?!//)` in front of every word) -/
def cutAtSlashes : Bool → Str → Str
  | _, [] => []
  | true, '/' :: '/' :: _ => []
  | _, c :: s => c :: cutAtSlashes (isSpace c) s

/-- `re.search(marker\s+((?!//)[^\s#]+(?:\s+(?!//)[^\s#]+)*))`: the words after the marker up to a `#` or a `//` comment -/
def wordsAfter (caseInsensitive : Bool) (line marker : Str) : Option Str :=
  let hay := if caseInsensitive then lower line else line
  let mk := if caseInsensitive then lower marker else marker
  match afterSub hay mk with
  | none => none
  | some restH =>
    let rest := line.drop (line.length - restH.length)
    match rest with
    | c :: _ =>
      if !isSpace c then none else
      let body := cutAtSlashes true ((rest.dropWhile isSpace).takeWhile (· != '#'))
      let body := strip body
      if body.isEmpty then none else some body
    | [] => none

/-! ## Per-line recognisers -/

def hasFileMarker (line : Str) : Bool :=
  let l := lower line
  containsSub l "# thailint: ignore-file".toList || containsSub l "# design-lint: ignore-file".toList ||
  containsSub l "// thailint: ignore-file".toList || containsSub l "// design-lint: ignore-file".toList

def hasLineMarker (line : Str) : Bool :=
  let l := lower line
  containsSub l "# thailint: ignore".toList || containsSub l "# design-lint: ignore".toList ||
  containsSub l "// thailint: ignore".toList || containsSub l "// design-lint: ignore".toList

def hasNextLineMarker (line : Str) : Bool :=
  let l := lower line
  containsSub l "# thailint: ignore-next-line".toList || containsSub l "# design-lint: ignore-next-line".toList ||
  containsSub l "// thailint: ignore-next-line".toList || containsSub l "// design-lint: ignore-next-line".toList

def isCommentLine (line : Str) : Bool :=
  let s := lower (strip line)
  s.head? == some '#' || "//".toList.isPrefixOf s

def hasStartMarker (line : Str) : Bool :=
  let s := lower (strip line)
  isCommentLine line && containsSub s "ignore-start".toList && (containsSub s "thailint:".toList || containsSub s "design-lint:".toList)
def hasEndMarker (line : Str) : Bool :=
  let s := lower (strip line)
  isCommentLine line && containsSub s "ignore-end".toList && (containsSub s "thailint:".toList || containsSub s "design-lint:".toList)

/-- `_check_specific_rule_ignore` (file level) -/
def fileRuleMatch (line ruleId : Str) : Bool :=
  match bracketAfter line "ignore-file".toList with
  | some inner => (bracketRules inner).any (ruleMatches ruleId)
  | none =>
    match wordsAfter true line "ignore-file".toList with
    | some ws => (spaceRules ws).any (ruleMatches ruleId)
    | none => true                   -- a bare `ignore-file` names all rules

def lineFileIgnores (line ruleId : Str) : Bool := hasFileMarker line && fileRuleMatch line ruleId

/-- `(?:thailint|design-lint):\s*ignore\s*(?:#|//|$)` somewhere in the line (case-insensitive): a bare directive -/
def bareIgnoreAfter (restLower : Str) : Bool :=
  match afterSub (restLower.dropWhile isSpace) "ignore".toList with
  | some r =>
    if !("ignore".toList.isPrefixOf (restLower.dropWhile isSpace)) then false else
    let t := r.dropWhile isSpace
    t.isEmpty || t.head? == some '#' || "//".toList.isPrefixOf t
  | none => false

def hasBareIgnore : Str → Bool
  | [] => false
  | c :: s =>
    ("thailint:".toList.isPrefixOf (c :: s) && bareIgnoreAfter ((c :: s).drop 9)) ||
    ("design-lint:".toList.isPrefixOf (c :: s) && bareIgnoreAfter ((c :: s).drop 12)) || hasBareIgnore s

/-- `(?:thailint|design-lint):\s*ignore` matched at the head of a (lower-cased) suffix: what follows it -/
def afterLineDirective (sLower : Str) : Option Str :=
  let after :=
    if "thailint:".toList.isPrefixOf sLower then some (sLower.drop 9)
    else if "design-lint:".toList.isPrefixOf sLower then some (sLower.drop 12) else none
  match after with
  | none => none
  | some r =>
    let r := r.dropWhile isSpace
    if "ignore".toList.isPrefixOf r then some (r.drop 6) else none

/-- `re.search((?:thailint|design-lint):\s*ignore\[([^\]]+)\])`: the leftmost directive with a non-empty, closed bracket
    (second argument: the suffix of the lower-cased line still to be searched) -/
def directiveBracket (line : Str) : Str → Option Str
  | [] => none
  | c :: s =>
    match afterLineDirective (c :: s) with
    | some ('[' :: restLower) =>
      let rest := line.drop (line.length - restLower.length)
      let inner := rest.takeWhile (· != ']')
      if inner.isEmpty || inner.length == rest.length then directiveBracket line s else some inner
    | _ => directiveBracket line s

/-- `re.search((?:thailint|design-lint):\s*ignore\s+([^\s#]+(?:\s+[^\s#]+)*))`: the words after the leftmost directive that
    is followed by white space and a word (words end at a `#` or `//` comment) -/
def directiveWords (line : Str) : Str → Option Str
  | [] => none
  | c :: s =>
    match afterLineDirective (c :: s) with
    | some (sp :: restLower) =>
      if !isSpace sp then directiveWords line s else
      let rest := line.drop (line.length - restLower.length)
      let body := strip (cutAtSlashes true ((rest.dropWhile isSpace).takeWhile (· != '#')))
      if body.isEmpty then directiveWords line s else some body
    | _ => directiveWords line s

/-- `_check_specific_rule_in_line` (same line): the rule list is the one of the directive itself, not the `ignore[...]` of another
    tool's comment on the line (`# type: ignore[arg-type]  # thailint: ignore[magic-numbers]`) -/
def sameLineRuleMatch (line ruleId : Str) : Bool :=
  match directiveBracket line (lower line) with
  | some inner => (bracketRules inner).any (ruleMatches ruleId)
  | none =>
    match directiveWords line (lower line) with
    | some ws => (spaceRules ws).any (ruleMatches ruleId)
    | none => hasBareIgnore (lower line) || containsSub (lower line) "ignore-all".toList

/-- before the repair: the first `ignore[` anywhere on the line -/
def sameLineRuleMatchOld (line ruleId : Str) : Bool :=
  match bracketAfter line "ignore".toList with
  | some inner => (bracketRules inner).any (ruleMatches ruleId)
  | none =>
    match wordsAfter true line "ignore".toList with
    | some ws => (spaceRules ws).any (ruleMatches ruleId)
    | none => hasBareIgnore (lower line) || containsSub (lower line) "ignore-all".toList

def lineSameLineIgnores (line ruleId : Str) : Bool := hasLineMarker line && sameLineRuleMatch line ruleId

/-- `_matches_ignore_next_line_rules` -/
def nextLineRuleMatch (prev ruleId : Str) : Bool :=
  match afterSub (lower prev) "ignore-next-line[".toList with
  | some restLower =>
    let rest := prev.drop (prev.length - restLower.length)
    let inner := rest.takeWhile (· != ']')
    if inner.isEmpty || inner.length == rest.length then true else (bracketRules inner).any (ruleMatches ruleId)
  | none => true

def lineNextLineIgnores (prev ruleId : Str) : Bool := hasNextLineMarker prev && nextLineRuleMatch prev ruleId

/-- `_parse_ignore_start_rules` -/
def startRules (line : Str) : Rules :=
  match bracketAfter line "ignore-start".toList with
  | some inner => some (bracketRules inner)          -- `ignore-start[rule, rule]`, as the other directives are written
  | none =>
    match wordsAfter true line "ignore-start".toList with
    | some ws => some (spaceRules ws)
    | none => none

/-! ## Block scope at the level of classified lines -/

inductive Kind where
  | start (rules : Rules)
  | stop
  | other
  deriving Repr

def Kind.isOther : Kind → Bool
  | .other => true
  | _ => false

def classify (line : Str) : Kind :=
  if hasStartMarker line then .start (startRules line) else if hasEndMarker line then .stop else .other

structure BlockSt where
  inBlock : Bool
  rules : Rules
  startLine : Nat

/-- `_check_block_ignore`: scan from line 1; `trackStart = true` is the repaired `_handle_block_end`
    (the block must have started at or before the violation), `false` the original (finding F04a) -/
def scanBlock (trackStart : Bool) (ruleId : Str) (vline : Nat) : BlockSt → Nat → List Kind → Bool
  | _, _, [] => false
  | st, i, k :: rest =>
    match k with
    | .start rs => scanBlock trackStart ruleId vline { inBlock := true, rules := rs, startLine := i } (i + 1) rest
    | .stop =>
      if st.inBlock && i > vline && (!trackStart || st.startLine ≤ vline) && rulesMatch st.rules ruleId then true
      else scanBlock trackStart ruleId vline { inBlock := false, rules := some [], startLine := 0 } (i + 1) rest
    | .other =>
      if i == vline && st.inBlock then rulesMatch st.rules ruleId
      else scanBlock trackStart ruleId vline st (i + 1) rest

def initSt : BlockSt := { inBlock := false, rules := some [], startLine := 0 }

def checkBlock (trackStart : Bool) (ruleId : Str) (vline : Nat) (kinds : List Kind) : Bool :=
  if 0 < vline && vline ≤ kinds.length then scanBlock trackStart ruleId vline initSt 1 kinds else false

/-- specification of block scope: among the markers strictly above the violation line, the last one is a
    start marker whose rules name the violation's rule -/
def lastMarker : List Kind → Option Kind
  | [] => none
  | k :: rest =>
    match lastMarker rest with
    | some m => some m
    | none => match k with
      | .other => none
      | m => some m

def specBlock (ruleId : Str) (vline : Nat) (kinds : List Kind) : Bool :=
  match lastMarker (kinds.take (vline - 1)) with
  | some (.start rs) => rulesMatch rs ruleId
  | _ => false

/-! ## The whole engine -/

def headerScanLines : Nat := Gen.Ignore.headerScanLines

/-- `should_ignore_violation` on the file's lines (`splitlines()`), violation at 1-based `vline` -/
def shouldIgnore (trackStart : Bool) (lines : List Str) (ruleId : Str) (vline : Nat) : Bool :=
  (lines.take headerScanLines).any (fun l => lineFileIgnores l ruleId) ||
  checkBlock trackStart ruleId vline (lines.map classify) ||
  (vline ≥ 2 && (match lines[vline - 2]? with | some p => lineNextLineIgnores p ruleId | none => false)) ||
  (vline ≥ 1 && (match lines[vline - 1]? with | some c => lineSameLineIgnores c ruleId | none => false))

end ThaiLintModel.C04

namespace ThaiLintModel.C04

/-! ## Rendering directives (for the recognised-cells matrix and the correspondence check) -/

inductive Form where | sameLine | nextLine | blockStart | fileLevel
  deriving DecidableEq, Repr

structure Cell where
  form : Form
  slashes : Bool        -- `//` instead of `#`
  designLint : Bool     -- `design-lint:` instead of `thailint:`
  upper : Bool          -- directive keyword written in upper case
  bare : Bool           -- no rule list (= all rules)
  deriving DecidableEq, Repr

def Cell.text (c : Cell) (rule : Str) : Str :=
  let cm := if c.slashes then "// ".toList else "# ".toList
  let pre := if c.designLint then "design-lint: ".toList else "thailint: ".toList
  let kw := match c.form with
    | .sameLine => "ignore".toList | .nextLine => "ignore-next-line".toList
    | .blockStart => "ignore-start".toList | .fileLevel => "ignore-file".toList
  let kw := if c.upper then kw.map Char.toUpper else kw
  let rules := if c.bare then [] else match c.form with
    | .blockStart => ' ' :: rule
    | _ => '[' :: rule ++ [']']
  cm ++ pre ++ kw ++ rules

/-- does the engine honour this cell for a violation of `rule` placed in scope?  (file: [directive?, code…]) -/
def Cell.honoured (c : Cell) (rule : Str) : Bool :=
  let d := c.text rule
  let code := "x = compute(4242)".toList
  match c.form with
  | .sameLine => shouldIgnore true [code ++ "  ".toList ++ d] rule 1
  | .nextLine => shouldIgnore true [d, code] rule 2
  | .blockStart => shouldIgnore true [d, code, (if c.slashes then "// ".toList else "# ".toList) ++ "thailint: ignore-end".toList] rule 2
  | .fileLevel => shouldIgnore true [d, code] rule 2

def allCells : List Cell :=
  [Form.sameLine, .nextLine, .blockStart, .fileLevel].flatMap fun f =>
  [false, true].flatMap fun s => [false, true].flatMap fun dl => [false, true].flatMap fun u => [false, true].map fun b =>
    { form := f, slashes := s, designLint := dl, upper := u, bare := b }

end ThaiLintModel.C04
