import ThaiLintModel.C04.Model
import ThaiLintModel.Gen.Cli
namespace ThaiLintModel.C04

/-! ## Block scope: `ignore-start … ignore-end` silences exactly the lines it encloses -/

theorem lastMarker_append_single (pre : List Kind) (k : Kind) :
    lastMarker (pre ++ [k]) = (match k with | .other => lastMarker pre | m => some m) := by
  induction pre with
  | nil => cases k <;> simp [lastMarker]
  | cons h t ih =>
    simp only [List.cons_append, lastMarker, ih]
    cases k <;> simp
    all_goals (cases lastMarker t <;> simp)

/-- past the violation line nothing is returned any more (repaired code) -/
theorem scan_past (r : Str) (L : Nat) :
    ∀ (rest : List Kind) (st : BlockSt) (i : Nat), L < i → (st.inBlock = true → L < st.startLine) →
      scanBlock true r L st i rest = false := by
  intro rest
  induction rest with
  | nil => intros; rfl
  | cons k rest ih =>
    intro st i hi hst
    cases k with
    | start rs => simp only [scanBlock]; exact ih _ _ (by omega) (by intro _; simpa using hi)
    | stop =>
      simp only [scanBlock]
      have : (st.inBlock && decide (i > L) && (!true || decide (st.startLine ≤ L)) && rulesMatch st.rules r) = false := by
        cases hb : st.inBlock
        · simp
        · have := hst hb
          have h2 : decide (st.startLine ≤ L) = false := by simp; omega
          simp [h2]
      simp only [this, Bool.false_eq_true, if_false]
      exact ih _ _ (by omega) (by simp)
    | other =>
      simp only [scanBlock]
      have : (i == L) = false := by simp; omega
      simp only [this, Bool.false_and, Bool.false_eq_true, if_false]
      exact ih _ _ (by omega) hst

/-- the scan state summarises the markers seen so far -/
def Rep (st : BlockSt) (pre : List Kind) : Prop :=
  (st.inBlock = true → lastMarker pre = some (.start st.rules) ∧ st.startLine ≤ pre.length) ∧
  (st.inBlock = false → ∀ rs, lastMarker pre ≠ some (.start rs))

theorem scan_before (r : Str) (L : Nat) :
    ∀ (rest pre : List Kind) (st : BlockSt), Rep st pre → pre.length + 1 ≤ L → L ≤ (pre ++ rest).length →
      (∀ k, (pre ++ rest)[L - 1]? = some k → k.isOther = true) →
      scanBlock true r L st (pre.length + 1) rest = specBlock r L (pre ++ rest) := by
  intro rest
  induction rest with
  | nil => intro pre st _ h1 h2 _; simp at h2; omega
  | cons k rest ih =>
    intro pre st hrep h1 h2 hother
    have happ : pre ++ k :: rest = (pre ++ [k]) ++ rest := by simp
    have hlen : (pre ++ [k]).length = pre.length + 1 := by simp
    by_cases hL : pre.length + 1 = L
    · -- this is the violation line: it is an ordinary line
      have hk : k.isOther = true := by
        apply hother k
        have : L - 1 = pre.length := by omega
        simp [this]
      cases k with
      | start _ => simp [Kind.isOther] at hk
      | stop => simp [Kind.isOther] at hk
      | other =>
        have htake : (pre ++ Kind.other :: rest).take (L - 1) = pre := by
          have : L - 1 = pre.length := by omega
          simp [this]
        simp only [scanBlock, specBlock, htake]
        have : (pre.length + 1 == L) = true := by simp [hL]
        simp only [this, Bool.true_and]
        cases hb : st.inBlock
        · simp only [Bool.false_eq_true, if_false]
          rw [scan_past r L rest st (pre.length + 1 + 1) (by omega) (by simp [hb])]
          have := hrep.2 hb
          cases hm : lastMarker pre with
          | none => rfl
          | some m =>
            cases m with
            | start rs => exact absurd hm (this rs)
            | stop => rfl
            | other => rfl
        · simp only [if_true]
          rw [(hrep.1 hb).1]
    · have hlt : pre.length + 1 < L := by omega
      have hnext : (pre ++ [k]).length + 1 ≤ L := by simp; omega
      have hlen2 : L ≤ ((pre ++ [k]) ++ rest).length := by rw [← happ]; exact h2
      have hother2 : ∀ k', ((pre ++ [k]) ++ rest)[L - 1]? = some k' → k'.isOther = true := by
        intro k' hk'; apply hother k'; rw [happ]; exact hk'
      cases k with
      | start rs =>
        simp only [scanBlock]
        have hrep' : Rep { inBlock := true, rules := rs, startLine := pre.length + 1 } (pre ++ [Kind.start rs]) := by
          constructor
          · intro _; simp only [lastMarker_append_single]; simp
          · intro h; simp at h
        have := ih (pre ++ [Kind.start rs]) _ hrep' hnext hlen2 hother2
        rw [hlen] at this
        rw [this, happ]
      | stop =>
        simp only [scanBlock]
        have : (st.inBlock && decide (pre.length + 1 > L) && (!true || decide (st.startLine ≤ L)) && rulesMatch st.rules r) = false := by
          have : decide (pre.length + 1 > L) = false := by simp; omega
          simp [this]
        simp only [this, Bool.false_eq_true, if_false]
        have hrep' : Rep { inBlock := false, rules := some [], startLine := 0 } (pre ++ [Kind.stop]) := by
          constructor
          · intro h; simp at h
          · intro _ rs; simp [lastMarker_append_single]
        have := ih (pre ++ [Kind.stop]) _ hrep' hnext hlen2 hother2
        rw [hlen] at this
        rw [this, happ]
      | other =>
        simp only [scanBlock]
        have : (pre.length + 1 == L) = false := by simp; omega
        simp only [this, Bool.false_and, Bool.false_eq_true, if_false]
        have hrep' : Rep st (pre ++ [Kind.other]) := by
          constructor
          · intro hb; have := hrep.1 hb; simp [lastMarker_append_single, this.1]; omega
          · intro hb rs; simpa [lastMarker_append_single] using hrep.2 hb rs
        have := ih (pre ++ [Kind.other]) st hrep' hnext hlen2 hother2
        rw [hlen] at this
        rw [this, happ]

/-- **Block directives silence exactly what they enclose** (repaired code): a violation on an ordinary
    line is suppressed by the block mechanism iff the nearest `ignore-start`/`ignore-end` marker above
    it is an `ignore-start` that names its rule — for every file and every line. -/
theorem block_scope_exact (r : Str) (L : Nat) (kinds : List Kind)
    (hL : 0 < L ∧ L ≤ kinds.length) (hother : ∀ k, kinds[L - 1]? = some k → k.isOther = true) :
    checkBlock true r L kinds = specBlock r L kinds := by
  unfold checkBlock
  have : (decide (0 < L) && decide (L ≤ kinds.length)) = true := by simp [hL.1, hL.2]
  simp only [this, if_true]
  have hrep : Rep initSt [] := by
    constructor
    · intro h; simp [initSt] at h
    · intro _ rs; simp [lastMarker]
  have := scan_before r L kinds [] initSt hrep (by simp; omega) (by simpa using hL.2) (by simpa using hother)
  simpa using this

/-- finding F04a (the code before the repair, `trackStart = false`): a violation *above* a block that
    names its rule is silenced by that block's `ignore-end` -/
theorem F04a_witness :
    checkBlock false "m.n".toList 2 [.other, .other, .other, .start (some ["m".toList]), .other, .stop] = true ∧
    checkBlock true "m.n".toList 2 [.other, .other, .other, .start (some ["m".toList]), .other, .stop] = false ∧
    specBlock "m.n".toList 2 [.other, .other, .other, .start (some ["m".toList]), .other, .stop] = false := by decide

/-- a directive that names another rule, or an empty list of directives, changes nothing -/
theorem other_rule_changes_nothing (r : Str) (L : Nat) (kinds : List Kind)
    (h : ∀ k ∈ kinds, match k with | .start rs => rulesMatch rs r = false | _ => True) :
    specBlock r L kinds = false := by
  unfold specBlock
  cases hm : lastMarker (kinds.take (L - 1)) with
  | none => rfl
  | some m =>
    cases m with
    | start rs =>
      have hmem : Kind.start rs ∈ kinds.take (L - 1) := by
        generalize kinds.take (L - 1) = l at hm
        induction l with
        | nil => simp [lastMarker] at hm
        | cons a t ih =>
          simp only [lastMarker] at hm
          cases ht : lastMarker t with
          | some m' => rw [ht] at hm; simp at hm; subst hm; exact List.mem_cons_of_mem _ (ih ht)
          | none =>
            rw [ht] at hm
            cases a with
            | start rs' => simp at hm; subst hm; simp
            | stop => simp at hm
            | other => simp at hm
      have := h _ (List.mem_of_mem_take hmem)
      simpa using this
    | stop => rfl
    | other => rfl

/-! ## Rule-name spellings (tables regenerated from /repo) -/

def upper (s : Str) : Str := s.map Char.toUpper
def linterOf (rid : Str) : Str := rid.takeWhile (· != '.')

/-- every documented spelling of a rule's name matches that rule -/
theorem rule_matches_spellings :
    ∀ rid ∈ Gen.Cli.ruleIds,
      ruleMatches rid.toList rid.toList = true ∧
      ruleMatches rid.toList (linterOf rid.toList) = true ∧
      ruleMatches rid.toList (linterOf rid.toList ++ ".*".toList) = true ∧
      ruleMatches rid.toList (upper rid.toList) = true ∧
      ruleMatches rid.toList (upper (linterOf rid.toList)) = true := by decide +kernel

/-- deprecated aliases still match their canonical rule -/
theorem alias_spellings :
    ∀ a ∈ Gen.Ignore.ruleIdAliases,
      ruleMatches a.2.toList a.1.toList = true ∧ ruleMatches a.2.toList (linterOf a.1.toList) = true ∧
      ruleMatches a.2.toList (linterOf a.1.toList ++ ".*".toList) = true := by decide +kernel

/-- a spelling of one linter's rules never matches another linter's rule -/
theorem spellings_do_not_cross_linters :
    ∀ r1 ∈ Gen.Cli.ruleIds, ∀ r2 ∈ Gen.Cli.ruleIds, linterOf r1.toList ≠ linterOf r2.toList →
      (Gen.Ignore.ruleIdAliases.all fun a => linterOf a.1.toList != linterOf r1.toList || linterOf a.2.toList == linterOf r1.toList) = true →
      ruleMatches r2.toList (linterOf r1.toList) = false ∧ ruleMatches r2.toList (linterOf r1.toList ++ ".*".toList) = false ∧
      ruleMatches r2.toList r1.toList = false := by decide +kernel


/-- **Comment styles, prefixes, letter case and the bare form are interchangeable**: every one of the
    64 cells (form x `#`/`//` x thailint/design-lint x keyword case x bare/named) silences a violation
    placed in its scope (repaired recognisers; before the repair 32 cells were dead). -/
theorem recognised_cells :
    ∀ c ∈ allCells, c.honoured "magic-numbers.numeric-literal".toList = true ∧ c.honoured "file-placement".toList = true := by
  decide +kernel

/-- … and none of them silences a violation outside its scope or of a rule it does not name -/
theorem cells_do_not_leak :
    ∀ c ∈ allCells, c.bare = false →
      shouldIgnore true ["x = 1".toList, c.text "nesting.excessive-depth".toList, "y = 2".toList, "z = compute(4242)".toList,
                         (if c.slashes then "// thailint: ignore-end".toList else "# thailint: ignore-end".toList), "w = 3".toList]
        "magic-numbers.numeric-literal".toList 4 = false := by
  decide +kernel

/-- F04r (repaired): a comment of another tool with an `ignore[...]` of its own in front of the directive (mypy's
    `# type: ignore[arg-type]`) no longer hides the directive's rule list; and such a comment alone is no directive -/
theorem F04r_witness :
    lineSameLineIgnores "    return x * 37  # type: ignore[arg-type]  # thailint: ignore[magic-numbers]".toList
        "magic-numbers.numeric-literal".toList = true ∧
    (hasLineMarker "    return x * 37  # type: ignore[arg-type]  # thailint: ignore[magic-numbers]".toList &&
      sameLineRuleMatchOld "    return x * 37  # type: ignore[arg-type]  # thailint: ignore[magic-numbers]".toList
        "magic-numbers.numeric-literal".toList) = false ∧
    lineSameLineIgnores "    return x * 37  # type: ignore[arg-type]  # thailint: ignore[nesting]".toList
        "magic-numbers.numeric-literal".toList = false ∧
    lineSameLineIgnores "    return x * 37  # type: ignore[magic-numbers]".toList "magic-numbers.numeric-literal".toList = false := by
  decide +kernel

theorem isPrefixOf_append_cases : (k s rest : Str) → k.isPrefixOf (s ++ rest) = true → k.isPrefixOf s = true ∨ s.isPrefixOf k = true
  | [], _, _, _ => Or.inl (by simp)
  | _ :: _, [], _, _ => Or.inr (by simp)
  | a :: k, b :: s, rest, h => by
      simp only [List.cons_append, List.isPrefixOf_cons_cons, Bool.and_eq_true] at h ⊢
      rcases isPrefixOf_append_cases k s rest h.2 with h' | h'
      · exact Or.inl ⟨h.1, h'⟩
      · refine Or.inr ⟨?_, h'⟩
        have := h.1
        simp only [beq_iff_eq] at this ⊢
        exact this.symm

/-- no position of `pre` can begin a directive prefix, whatever follows `pre` -/
def noStartAt (s : Str) : Bool :=
  !("thailint:".toList.isPrefixOf s) && !(s.isPrefixOf "thailint:".toList) &&
  !("design-lint:".toList.isPrefixOf s) && !(s.isPrefixOf "design-lint:".toList)

def noDirectiveStart : Str → Bool
  | [] => true
  | c :: s => noStartAt (c :: s) && noDirectiveStart s

theorem afterLineDirective_none (s rest : Str) (h : noStartAt s = true) : afterLineDirective (s ++ rest) = none := by
  simp only [noStartAt, Bool.and_eq_true, Bool.not_eq_true'] at h
  obtain ⟨⟨⟨h1, h2⟩, h3⟩, h4⟩ := h
  have a1 : "thailint:".toList.isPrefixOf (s ++ rest) = false := by
    cases hh : "thailint:".toList.isPrefixOf (s ++ rest) with
    | false => rfl
    | true => rcases isPrefixOf_append_cases _ _ _ hh with x | x <;> simp_all
  have a2 : "design-lint:".toList.isPrefixOf (s ++ rest) = false := by
    cases hh : "design-lint:".toList.isPrefixOf (s ++ rest) with
    | false => rfl
    | true => rcases isPrefixOf_append_cases _ _ _ hh with x | x <;> simp_all
  simp only [afterLineDirective, a1, a2, Bool.false_eq_true, if_false]

/-- **Text in front of the directive that cannot begin a directive itself - code, another tool's comment with an `ignore[...]`
    of its own - does not change which rule list is read**: the search skips it, for every such text and whatever follows. -/
theorem directiveBracket_skip (line : Str) : (pre rest : Str) → noDirectiveStart pre = true →
    directiveBracket line (pre ++ rest) = directiveBracket line rest
  | [], _, _ => rfl
  | c :: p, rest, h => by
      simp only [noDirectiveStart, Bool.and_eq_true] at h
      have hn := afterLineDirective_none (c :: p) rest h.1
      rw [List.cons_append, directiveBracket]
      rw [List.cons_append] at hn
      rw [hn]
      exact directiveBracket_skip line p rest h.2

example : noDirectiveStart (lower "    return x * 37  # type: ignore[arg-type]  # ".toList) = true := by decide
example : noDirectiveStart (lower "x = f(1)  # pyright: ignore[reportGeneralTypeIssues]  // ".toList) = true := by decide

theorem lower_append (a b : Str) : lower (a ++ b) = lower a ++ lower b := by simp [lower]

/-- … in the form `sameLineRuleMatch` uses it: the search over the whole lower-cased line finds what the search from the
    directive on finds -/
theorem text_before_directive_irrelevant (pre rest : Str) (h : noDirectiveStart (lower pre) = true) :
    directiveBracket (pre ++ rest) (lower (pre ++ rest)) = directiveBracket (pre ++ rest) (lower rest) := by
  rw [lower_append]
  exact directiveBracket_skip _ _ _ h

end ThaiLintModel.C04
