/- C05 — driver glue -/
import ThaiLintModel.Core.J
import ThaiLintModel.C05.Props
namespace ThaiLintModel.C05
open Lean ThaiLintModel

def valOf (j : Json) : Val :=
  match j with
  | .bool b => .bool b
  | .num n => if n.exponent == 0 then .int n.mantissa else .other 0
  | _ => .other (J.natD j "other" 0)

def valJson : Val → Json
  | .bool b => Json.bool b
  | .int z => Json.num ⟨z, 0⟩
  | .other i => Json.mkObj [("other", i)]

def optsOf (j : Json) : Opts :=
  match j with
  | .arr a => a.toList.filterMap fun e => match e with
      | .arr #[k, v] => some ((k.getStr?.toOption.getD "").toList, valOf v)
      | _ => none
  | _ => []

def optsJson (o : Opts) : Json := Json.arr (o.map fun kv => Json.arr #[Json.str (String.ofList kv.1), valJson kv.2]).toArray

def sectionOfJson (j : Json) : Section :=
  { opts := optsOf ((j.getObjVal? "opts").toOption.getD Json.null),
    langs := (J.arrD j "langs").toList.filterMap fun e => match e with
      | .arr #[l, o] => some ((l.getStr?.toOption.getD "").toList, optsOf o)
      | _ => none }

def sectionJson (s : Section) : Json :=
  Json.mkObj [("opts", optsJson s.opts), ("langs", Json.arr (s.langs.map fun ls => Json.arr #[Json.str (String.ofList ls.1), optsJson ls.2]).toArray)]

def parsedOf (j : Json) : Parsed :=
  match j with
  | .str "unparsable" => .unparsable
  | .obj _ => .ok { sections := (J.arrD j "sections").toList.map (fun e => ((J.strD e "k" "").toList, sectionOfJson e)),
                    ignore := (J.strsD j "ignore").map String.toList }
  | _ => .absent

def handle (j : Json) : Json :=
  let cj := (j.getObjVal? "carriers").toOption.getD Json.null
  let get := fun k => (cj.getObjVal? k).toOption.getD Json.null
  let c : Carriers := { yaml := parsedOf (get "yaml"), json := parsedOf (get "json"), pyproject := parsedOf (get "pyproject"),
                        explicit := match cj.getObjVal? "explicit" with
                          | .ok (.str "missing") => some .absent
                          | .ok Json.null => none
                          | .ok x => some (parsedOf x)
                          | .error _ => none }
  let name := (J.strD j "name" "").toList
  let cli := optsOf ((j.getObjVal? "cli").toOption.getD Json.null)
  let lang := (J.strD j "lang" "").toList
  let limits := (J.strsD j "limits").map String.toList
  let render := fun (o : Outcome) => match o with
    | .exit2 => Json.mkObj [("outcome", "exit2")]
    | .run s ig => Json.mkObj [("outcome", "run"), ("section", sectionJson s), ("ignore", J.ofStrs (ig.map String.ofList)),
                               ("eff", Json.arr (limits.map fun k => Json.arr #[Json.str (String.ofList k), match effOpt s lang k with | some v => valJson v | none => Json.null]).toArray)]
  Json.mkObj [("new", render (resolve true c name cli lang limits)), ("old", render (resolve false c name cli lang limits)),
              ("broken", someConsultedBroken c), ("ignoreInEffect", J.ofStrs ((ignoreInEffect true c).map String.ofList))]

end ThaiLintModel.C05
