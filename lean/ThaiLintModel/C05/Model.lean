/-
C05 — configuration plumbing.  Executable model (no Mathlib, no proofs) of how a linter's options are
found: discovery of the configuration file (`Orchestrator.__init__`, `load_config`, `load_config_file`),
key normalisation (`_normalize_config_keys`), section lookup (`load_linter_config`), per-language
overrides (`from_dict(config, language)`), command-line threshold options (`set_config_value…`),
validation of limits, and the top-level ignore list.
-/
namespace ThaiLintModel.C05

abbrev Str := List Char

inductive Val where
  | bool (b : Bool)
  | int (z : Int)
  | other (id : Nat)
  deriving DecidableEq, Repr

abbrev Opts := List (Str × Val)

/-- a linter's section: its own options and per-language sub-sections (`python: {max_methods: 20}`) -/
structure Section where
  opts : Opts
  langs : List (Str × Opts)
  deriving DecidableEq, Repr

/-- a parsed configuration document: linter sections under the key spelling the user wrote, in document
    order, and the top-level `ignore` list -/
structure Doc where
  sections : List (Str × Section)
  ignore : List Str
  deriving DecidableEq, Repr

def Doc.empty : Doc := ⟨[], []⟩

inductive Parsed where
  | absent
  | unparsable
  | ok (d : Doc)
  deriving DecidableEq, Repr

/-- what is on disk / on the command line -/
structure Carriers where
  yaml : Parsed                 -- <root>/.thailint.yaml
  json : Parsed                 -- <root>/.thailint.json
  pyproject : Parsed            -- <root>/pyproject.toml [tool.thailint] (`ok empty` = no such table)
  explicit : Option Parsed      -- --config FILE (`some absent` = FILE does not exist)
  deriving Repr

def lookup {β} (d : List (Str × β)) (k : Str) : Option β :=
  match d with
  | [] => none
  | (k', v) :: r => if k' == k then some v else lookup r k

def upsert {β} (d : List (Str × β)) (k : Str) (v : β) : List (Str × β) :=
  match d with
  | [] => [(k, v)]
  | (k', v') :: r => if k' == k then (k, v) :: r else (k', v') :: upsert r k v

def normKey (k : Str) : Str := k.map fun c => if c == '-' then '_' else c

/-- `_normalize_config_keys`: later spellings of the same key win -/
def normalize (d : Doc) : Doc :=
  { d with sections := d.sections.foldl (fun acc kv => upsert acc (normKey kv.1) kv.2) [] }

inductive Loaded where
  | exit2
  | cfg (d : Doc)
  deriving DecidableEq, Repr

/-- the file the orchestrator discovers by itself; `repaired = false` is the code before the repair
    (finding F05d): a malformed pyproject.toml silently meant "no configuration" -/
def discovered (repaired : Bool) (c : Carriers) : Loaded :=
  match c.yaml with
  | .unparsable => .exit2
  | .ok d => .cfg (normalize d)
  | .absent =>
    match c.json with
    | .unparsable => .exit2
    | .ok d => .cfg (normalize d)
    | .absent =>
      match c.pyproject with
      | .unparsable => if repaired then .exit2 else .cfg Doc.empty
      | .ok d => .cfg (normalize d)
      | .absent => .cfg Doc.empty

/-- `setup_base_orchestrator`: discovery first, then `--config` replaces the whole configuration -/
def loadConfig (repaired : Bool) (c : Carriers) : Loaded :=
  match discovered repaired c with
  | .exit2 => .exit2
  | .cfg d =>
    match c.explicit with
    | none => .cfg d
    | some .absent => .exit2
    | some .unparsable => .exit2
    | some (.ok e) => .cfg (normalize e)

/-- `load_linter_config` / per-rule lookups: the linter's section under its normalised name -/
def sectionOf (d : Doc) (name : Str) : Section := (lookup d.sections (normKey name)).getD ⟨[], []⟩

/-- `from_dict(config, language)`: the language's sub-section wins, option by option -/
def effOpt (s : Section) (lang : Str) (key : Str) : Option Val :=
  match lookup s.langs lang with
  | some sub => (match lookup sub key with | some v => some v | none => lookup s.opts key)
  | none => lookup s.opts key

/-- command-line threshold option; `repaired = false` is the code before the repair (finding F05c),
    which only wrote the section's own value (nesting also a fixed list of three languages) -/
def applyCli (repaired : Bool) (s : Section) (key : Str) (v : Val) : Section :=
  { opts := upsert s.opts key v,
    langs := if repaired then s.langs.map fun ls => (ls.1, if (lookup ls.2 key).isSome then upsert ls.2 key v else ls.2) else s.langs }

def applyClis (repaired : Bool) (s : Section) (cli : Opts) : Section :=
  cli.foldl (fun acc kv => applyCli repaired acc kv.1 kv.2) s

/-- the top-level ignore list in effect; before the repair (finding F05b) only `.thailint.yaml` at the
    project root was read -/
def ignoreInEffect (repaired : Bool) (c : Carriers) : List Str :=
  if repaired then (match loadConfig true c with | .cfg d => d.ignore | .exit2 => [])
  else (match c.yaml with | .ok d => d.ignore | _ => [])

/-- limits documented as positive: a non-positive value ends the run with exit 2 -/
def limitOk (o : Option Val) : Bool :=
  match o with
  | some (.int z) => decide (0 < z)
  | _ => true

inductive Outcome where
  | exit2
  | run (sec : Section) (ignore : List Str)
  deriving DecidableEq, Repr

/-- everything together for one linter run on files of one language -/
def resolve (repaired : Bool) (c : Carriers) (name : Str) (cli : Opts) (lang : Str) (limits : List Str) : Outcome :=
  match loadConfig repaired c with
  | .exit2 => .exit2
  | .cfg d =>
    let s := applyClis repaired (sectionOf d name) cli
    if limits.all (fun k => limitOk (effOpt s lang k)) then .run s (ignoreInEffect repaired c) else .exit2

/-! ## Specification -/

/-- the carrier that decides, by precedence: --config, .thailint.yaml, .thailint.json, pyproject.toml -/
def deciding (c : Carriers) : Parsed :=
  match c.explicit with
  | some p => p
  | none =>
    match c.yaml with
    | .absent => (match c.json with | .absent => c.pyproject | p => p)
    | p => p

/-- what the property asks of the loaded configuration: it is the deciding carrier's document (keys
    normalised), and an unparsable or missing deciding carrier never falls back silently -/
def specLoad (c : Carriers) (r : Loaded) : Prop :=
  match deciding c with
  | .ok d => r = .cfg (normalize d) ∨ r = .exit2        -- exit 2 only allowed when another consulted file is broken
  | .unparsable => r = .exit2
  | .absent => if c.explicit.isSome then r = .exit2 else r = .cfg Doc.empty

/-- a consulted file is broken: discovery reads the first existing discovered file even when --config is given -/
def someConsultedBroken (c : Carriers) : Bool :=
  (match c.yaml with
   | .unparsable => true
   | .ok _ => false
   | .absent => (match c.json with | .unparsable => true | .ok _ => false | .absent => c.pyproject == .unparsable)) ||
  (match c.explicit with | some .unparsable => true | some .absent => true | _ => false)

end ThaiLintModel.C05
