import ThaiLintModel.C05.Model
namespace ThaiLintModel.C05

/-! ## Loading: precedence, no silent fallback, carrier independence -/

/-- **Precedence and no silent fallback** (repaired code): the configuration in effect is the deciding
    carrier's document (--config, then .thailint.yaml, .thailint.json, pyproject.toml), with normalised
    keys; the run ends with exit 2 exactly when a consulted file is unparsable or the --config file is
    missing — never a silent fallback to defaults. -/
theorem load_meets_spec (c : Carriers) : specLoad c (loadConfig true c) := by
  unfold specLoad deciding loadConfig discovered
  rcases c with ⟨y, j, p, e⟩
  cases e with
  | none => cases y <;> cases j <;> cases p <;> simp
  | some x => cases x <;> cases y <;> cases j <;> cases p <;> simp

theorem exit2_iff_broken (c : Carriers) : loadConfig true c = .exit2 ↔ someConsultedBroken c = true := by
  unfold loadConfig discovered someConsultedBroken
  rcases c with ⟨y, j, p, e⟩
  cases e with
  | none => cases y <;> cases j <;> cases p <;> simp
  | some x => cases x <;> cases y <;> cases j <;> cases p <;> simp

/-- finding F05d (before the repair): a malformed pyproject.toml meant "defaults", exit code 0/1 -/
theorem F05d_witness :
    loadConfig false ⟨.absent, .absent, .unparsable, none⟩ = .cfg Doc.empty ∧
    loadConfig true ⟨.absent, .absent, .unparsable, none⟩ = .exit2 := by decide

/-- **Every carrier is honoured identically**: the same document gives the same configuration whether it
    sits in .thailint.yaml, .thailint.json, pyproject.toml or is passed with --config (whatever else is
    on disk, as long as it parses) -/
theorem carrier_independent (d : Doc) :
    loadConfig true ⟨.ok d, .absent, .absent, none⟩ = .cfg (normalize d) ∧
    loadConfig true ⟨.absent, .ok d, .absent, none⟩ = .cfg (normalize d) ∧
    loadConfig true ⟨.absent, .absent, .ok d, none⟩ = .cfg (normalize d) ∧
    (∀ y j p, someConsultedBroken ⟨y, j, p, some (.ok d)⟩ = false → loadConfig true ⟨y, j, p, some (.ok d)⟩ = .cfg (normalize d)) := by
  refine ⟨rfl, rfl, rfl, ?_⟩
  intro y j p h
  have hne : loadConfig true ⟨y, j, p, some (.ok d)⟩ ≠ .exit2 := by
    intro hex
    have := (exit2_iff_broken ⟨y, j, p, some (.ok d)⟩).mp hex
    rw [h] at this; cases this
  unfold loadConfig at hne ⊢
  cases hd : discovered true ⟨y, j, p, some (.ok d)⟩ with
  | exit2 => simp [hd] at hne
  | cfg _ => rfl

/-! ## Key spelling -/

theorem lookup_upsert {β} (d : List (Str × β)) (k q : Str) (v : β) :
    lookup (upsert d k v) q = if k == q then some v else lookup d q := by
  induction d with
  | nil => simp [upsert, lookup]
  | cons h t ih =>
    obtain ⟨k', v'⟩ := h
    simp only [upsert]
    by_cases hk : (k' == k) = true
    · have hkk : k' = k := by simpa using hk
      subst hkk
      simp only [hk, if_true, lookup]
      by_cases hq : (k' == q) = true <;> simp [hq]
    · simp only [hk, Bool.false_eq_true, if_false, lookup, ih]
      by_cases hq' : (k' == q) = true
      · have : k' = q := by simpa using hq'
        subst this
        have : (k == k') = false := by
          cases h : (k == k') with
          | false => rfl
          | true => have : k = k' := by simpa using h
                    subst this; simp at hk
        simp [this]
      · simp [hq']

/-- **Hyphens and underscores are interchangeable in section names**: two documents that differ only in
    how section keys are spelled load as the same configuration -/
theorem spelling_independent (d d' : Doc) (hi : d.ignore = d'.ignore)
    (h : d.sections.map (fun kv => (normKey kv.1, kv.2)) = d'.sections.map (fun kv => (normKey kv.1, kv.2))) :
    normalize d = normalize d' := by
  unfold normalize
  have key : ∀ (l : List (Str × Section)) (acc : List (Str × Section)),
      l.foldl (fun acc kv => upsert acc (normKey kv.1) kv.2) acc =
      (l.map (fun kv => (normKey kv.1, kv.2))).foldl (fun acc kv => upsert acc kv.1 kv.2) acc := by
    intro l
    induction l with
    | nil => intro acc; rfl
    | cons x xs ih => intro acc; simp only [List.foldl_cons, List.map_cons]; exact ih _
  rw [key d.sections, key d'.sections, h]
  cases d; cases d'; simp_all

/-- a linter finds its section under either spelling of its name -/
theorem section_found_either_spelling (d : Doc) (name : Str) :
    sectionOf d name = sectionOf d (normKey name) := by
  unfold sectionOf
  have : normKey (normKey name) = normKey name := by
    unfold normKey; rw [List.map_map]; apply List.map_congr_left; intro c _
    by_cases h : c = '-'
    · subst h; decide
    · simp [h]
  rw [this]

/-! ## Normalising is stable -/

def keysOf {β} (d : List (Str × β)) : List Str := d.map (·.1)

theorem upsert_fresh {β} (d : List (Str × β)) (k : Str) (v : β) (h : k ∉ keysOf d) : upsert d k v = d ++ [(k, v)] := by
  induction d with
  | nil => rfl
  | cons hd t ih =>
    obtain ⟨k', v'⟩ := hd
    simp only [keysOf, List.map_cons, List.mem_cons, not_or] at h
    have hne : (k' == k) = false := by
      cases hh : (k' == k) with
      | false => rfl
      | true => exact absurd (by simpa using hh : k' = k).symm h.1
    simp only [upsert, hne, Bool.false_eq_true, if_false, List.cons_append]
    rw [ih h.2]

theorem foldl_upsert_fresh {β} (f : Str → Str) (l : List (Str × β)) :
    ∀ acc : List (Str × β), ((acc.map (·.1)) ++ (l.map (fun kv => f kv.1))).Nodup →
      l.foldl (fun a kv => upsert a (f kv.1) kv.2) acc = acc ++ l.map (fun kv => (f kv.1, kv.2)) := by
  induction l with
  | nil => intro acc _; simp
  | cons x xs ih =>
    intro acc hnd
    simp only [List.foldl_cons, List.map_cons]
    have hfresh : f x.1 ∉ keysOf acc := by
      intro hmem
      have := List.nodup_append.mp hnd
      exact this.2.2 _ hmem _ (by simp) rfl
    rw [upsert_fresh acc (f x.1) x.2 hfresh]
    have hnd' : (((acc ++ [(f x.1, x.2)]).map (·.1)) ++ (xs.map (fun kv => f kv.1))).Nodup := by
      simp only [List.map_append, List.map_cons, List.map_nil, List.append_assoc, List.cons_append, List.nil_append]
      simpa using hnd
    rw [ih _ hnd']
    simp

/-- **Normalising is stable**: a document whose section keys are already distinct after normalisation
    keeps its sections in order, and normalising twice changes nothing -/
theorem normalize_of_distinct (d : Doc) (h : (d.sections.map (fun kv => normKey kv.1)).Nodup) :
    (normalize d).sections = d.sections.map (fun kv => (normKey kv.1, kv.2)) := by
  unfold normalize
  have := foldl_upsert_fresh normKey d.sections [] (by simpa using h)
  simpa using this

theorem normKey_idem (k : Str) : normKey (normKey k) = normKey k := by
  unfold normKey; rw [List.map_map]; apply List.map_congr_left; intro c _
  by_cases h : c = '-'
  · subst h; decide
  · simp [h]

theorem normalize_idempotent (d : Doc) (h : (d.sections.map (fun kv => normKey kv.1)).Nodup) :
    normalize (normalize d) = normalize d := by
  have h1 := normalize_of_distinct d h
  have hnd2 : ((normalize d).sections.map (fun kv => normKey kv.1)).Nodup := by
    rw [h1, List.map_map]
    have : ((fun kv : Str × Section => normKey kv.1) ∘ fun (kv : Str × Section) => (normKey kv.1, kv.2)) = fun kv => normKey kv.1 := by
      funext kv; simp [normKey_idem]
    rw [this]; exact h
  have h2 := normalize_of_distinct (normalize d) hnd2
  have hs : (normalize (normalize d)).sections = (normalize d).sections := by
    rw [h2, h1, List.map_map]
    apply List.map_congr_left
    intro kv _
    simp [normKey_idem]
  have hi : (normalize (normalize d)).ignore = (normalize d).ignore := rfl
  generalize normalize (normalize d) = x at hs hi
  generalize normalize d = y at hs hi
  cases x; cases y
  simp only at hs hi
  rw [hs, hi]


/-! ## Command-line thresholds -/

theorem effOpt_applyCli (s : Section) (lang key : Str) (v : Val) :
    effOpt (applyCli true s key v) lang key = some v := by
  unfold effOpt applyCli
  simp only [if_true]
  have hl : lookup (s.langs.map fun ls => (ls.1, if (lookup ls.2 key).isSome then upsert ls.2 key v else ls.2)) lang =
      (lookup s.langs lang).map (fun sub => if (lookup sub key).isSome then upsert sub key v else sub) := by
    induction s.langs with
    | nil => rfl
    | cons h t ih =>
      obtain ⟨l, sub⟩ := h
      simp only [List.map_cons, lookup]
      by_cases hq : (l == lang) = true <;> simp [hq, ih]
  rw [hl]
  cases hs : lookup s.langs lang with
  | none => simp [lookup_upsert]
  | some sub =>
    simp only [Option.map_some]
    cases hk : lookup sub key with
    | none => simp [hk, lookup_upsert]
    | some w => simp [lookup_upsert]

/-- **A command-line threshold beats the whole configuration file**, per-language overrides included,
    for every language (repaired code) -/
theorem cli_wins (s : Section) (lang key : Str) (v : Val) (rest : Opts) (hrest : ∀ kv ∈ rest, kv.1 ≠ key) :
    effOpt (applyClis true (applyCli true s key v) rest) lang key = some v := by
  unfold applyClis
  induction rest generalizing s with
  | nil => exact effOpt_applyCli s lang key v
  | cons kv rest ih =>
    simp only [List.foldl_cons]
    have hne : kv.1 ≠ key := hrest kv (by simp)
    -- applying another option commutes with reading this one
    have hcomm : ∀ (t : Section), effOpt t lang key = some v → effOpt (applyCli true t kv.1 kv.2) lang key = some v := by
      intro t ht
      unfold effOpt applyCli at *
      simp only [if_true] at *
      have hl : lookup (t.langs.map fun ls => (ls.1, if (lookup ls.2 kv.1).isSome then upsert ls.2 kv.1 kv.2 else ls.2)) lang =
          (lookup t.langs lang).map (fun sub => if (lookup sub kv.1).isSome then upsert sub kv.1 kv.2 else sub) := by
        induction t.langs with
        | nil => rfl
        | cons h tl ih2 =>
          obtain ⟨l, sub⟩ := h
          simp only [List.map_cons, lookup]
          by_cases hq : (l == lang) = true <;> simp [hq, ih2]
      rw [hl]
      have hb : (kv.1 == key) = false := by simpa using hne
      cases hs : lookup t.langs lang with
      | none => simp [hs] at ht; simp [lookup_upsert, hb, ht]
      | some sub =>
        simp only [hs] at ht
        simp only [Option.map_some]
        by_cases hk1 : (lookup sub kv.1).isSome = true
        · simp only [hk1, if_true, lookup_upsert, hb, Bool.false_eq_true, if_false]; exact ht
        · simp only [hk1, Bool.false_eq_true, if_false, lookup_upsert, hb]; exact ht
    -- generalise the induction: any section that already yields v keeps yielding it
    have gen : ∀ (l : Opts) (t : Section), (∀ kv ∈ l, kv.1 ≠ key) → effOpt t lang key = some v →
        effOpt (l.foldl (fun acc kv => applyCli true acc kv.1 kv.2) t) lang key = some v := by
      intro l
      induction l with
      | nil => intro t _ ht; exact ht
      | cons x xs ihx =>
        intro t hl ht
        simp only [List.foldl_cons]
        apply ihx _ (fun kv hkv => hl kv (by simp [hkv]))
        have hne' : x.1 ≠ key := hl x (by simp)
        unfold effOpt applyCli at *
        simp only [if_true] at *
        have hl2 : lookup (t.langs.map fun ls => (ls.1, if (lookup ls.2 x.1).isSome then upsert ls.2 x.1 x.2 else ls.2)) lang =
            (lookup t.langs lang).map (fun sub => if (lookup sub x.1).isSome then upsert sub x.1 x.2 else sub) := by
          induction t.langs with
          | nil => rfl
          | cons h tl ih2 =>
            obtain ⟨l', sub⟩ := h
            simp only [List.map_cons, lookup]
            by_cases hq : (l' == lang) = true <;> simp [hq, ih2]
        rw [hl2]
        have hb : (x.1 == key) = false := by simpa using hne'
        cases hs : lookup t.langs lang with
        | none => simp [hs] at ht; simp [lookup_upsert, hb, ht]
        | some sub =>
          simp only [hs] at ht
          simp only [Option.map_some]
          by_cases hk1 : (lookup sub x.1).isSome = true
          · simp only [hk1, if_true, lookup_upsert, hb, Bool.false_eq_true, if_false]; exact ht
          · simp only [hk1, Bool.false_eq_true, if_false, lookup_upsert, hb]; exact ht
    exact gen rest _ (fun kv' hkv' => hrest kv' (by simp [hkv'])) (hcomm _ (effOpt_applyCli s lang key v))

/-- finding F05c (before the repair): `srp --max-methods 2` lost against `python: {max_methods: 50}` -/
theorem F05c_witness :
    let s : Section := ⟨[("max_methods".toList, .int 3)], [("python".toList, [("max_methods".toList, .int 50)])]⟩
    effOpt (applyCli false s "max_methods".toList (.int 2)) "python".toList "max_methods".toList = some (.int 50) ∧
    effOpt (applyCli true s "max_methods".toList (.int 2)) "python".toList "max_methods".toList = some (.int 2) ∧
    effOpt (applyCli true s "max_methods".toList (.int 2)) "rust".toList "max_methods".toList = some (.int 2) := by decide +kernel

/-- without a command-line option, a language's own override wins over the section's value, and the
    section's value over the default (`none`) -/
theorem override_order (s : Section) (lang key : Str) :
    effOpt s lang key = (match (lookup s.langs lang).bind (fun sub => lookup sub key) with
                         | some v => some v
                         | none => lookup s.opts key) := by
  unfold effOpt
  cases lookup s.langs lang with
  | none => rfl
  | some sub => cases lookup sub key <;> rfl

/-! ## Invalid values -/

/-- **A non-positive limit ends the run with exit 2**, wherever it comes from (file or command line) -/
theorem invalid_limit_exit2 (c : Carriers) (name : Str) (cli : Opts) (lang key : Str) (limits : List Str) (d : Doc) (z : Int)
    (hload : loadConfig true c = .cfg d) (hk : key ∈ limits)
    (hv : effOpt (applyClis true (sectionOf d name) cli) lang key = some (.int z)) (hz : z ≤ 0) :
    resolve true c name cli lang limits = .exit2 := by
  unfold resolve
  simp only [hload]
  have : (limits.all fun k => limitOk (effOpt (applyClis true (sectionOf d name) cli) lang k)) = false := by
    rw [List.all_eq_false]
    exact ⟨key, hk, by simp [hv, limitOk]; omega⟩
  simp [this]

theorem unparsable_exit2 (c : Carriers) (name : Str) (cli : Opts) (lang : Str) (limits : List Str)
    (h : someConsultedBroken c = true) : resolve true c name cli lang limits = .exit2 := by
  unfold resolve
  rw [(exit2_iff_broken c).mpr h]

/-! ## Top-level ignore list -/

/-- **The ignore list is honoured from every carrier** (repaired code) -/
theorem ignore_from_every_carrier (d : Doc) :
    ignoreInEffect true ⟨.ok d, .absent, .absent, none⟩ = d.ignore ∧
    ignoreInEffect true ⟨.absent, .ok d, .absent, none⟩ = d.ignore ∧
    ignoreInEffect true ⟨.absent, .absent, .ok d, none⟩ = d.ignore ∧
    ignoreInEffect true ⟨.absent, .absent, .absent, some (.ok d)⟩ = d.ignore := by
  refine ⟨rfl, rfl, rfl, rfl⟩

/-- finding F05b (before the repair): only .thailint.yaml counted -/
theorem F05b_witness :
    ignoreInEffect false ⟨.absent, .ok ⟨[], ["build/".toList]⟩, .absent, none⟩ = [] ∧
    ignoreInEffect true ⟨.absent, .ok ⟨[], ["build/".toList]⟩, .absent, none⟩ = ["build/".toList] := by decide +kernel

/-! ## Thresholds are monotone -/

/-- "reported when the measure exceeds the limit" (nesting depth, methods, lines): a more permissive
    limit never adds a report, a stricter one never removes one -/
theorem upper_limit_monotone (measures : List Nat) (l1 l2 : Nat) (h : l1 ≤ l2) :
    (measures.filter (fun m => decide (m > l2))).Sublist (measures.filter (fun m => decide (m > l1))) := by
  induction measures with
  | nil => simp
  | cons m ms ih =>
    simp only [List.filter_cons]
    by_cases h2 : m > l2
    · have h1 : m > l1 := by omega
      simp only [h2, h1, decide_true, if_true]
      exact List.Sublist.cons_cons m ih
    · simp only [h2, decide_false, Bool.false_eq_true, if_false]
      by_cases h1 : m > l1
      · simp only [h1, decide_true, if_true]; exact List.Sublist.cons m ih
      · simp only [h1, decide_false, Bool.false_eq_true, if_false]; exact ih

/-- "reported when the measure reaches the minimum" (duplicate lines, continues, methods of a stateless
    class, occurrences): a higher minimum never adds a report -/
theorem lower_limit_monotone (measures : List Nat) (l1 l2 : Nat) (h : l1 ≤ l2) :
    (measures.filter (fun m => decide (m ≥ l2))).Sublist (measures.filter (fun m => decide (m ≥ l1))) := by
  induction measures with
  | nil => simp
  | cons m ms ih =>
    simp only [List.filter_cons]
    by_cases h2 : m ≥ l2
    · have h1 : m ≥ l1 := by omega
      simp only [h2, h1, decide_true, if_true]
      exact List.Sublist.cons_cons m ih
    · simp only [h2, decide_false, Bool.false_eq_true, if_false]
      by_cases h1 : m ≥ l1
      · simp only [h1, decide_true, if_true]; exact List.Sublist.cons m ih
      · simp only [h1, decide_false, Bool.false_eq_true, if_false]; exact ih

/-- an allow-list (magic numbers): a larger list never adds a report -/
theorem allow_list_monotone (values allowed allowed' : List Int) (h : ∀ x ∈ allowed, x ∈ allowed') :
    (values.filter (fun v => !allowed'.contains v)).Sublist (values.filter (fun v => !allowed.contains v)) := by
  induction values with
  | nil => simp
  | cons v vs ih =>
    simp only [List.filter_cons]
    by_cases h1 : allowed.contains v = true
    · have h2 : allowed'.contains v = true := by
        simp only [List.contains_iff_mem] at *
        exact h v h1
      simp only [h1, h2, Bool.not_true, Bool.false_eq_true, if_false]; exact ih
    · by_cases h2 : allowed'.contains v = true
      · simp only [h1, h2, Bool.not_true, Bool.false_eq_true, if_false, Bool.not_false, if_true]; exact List.Sublist.cons v ih
      · simp only [h1, h2, Bool.not_false, if_true]; exact List.Sublist.cons_cons v ih

/-! ## Non-vacuity -/

def demoDoc : Doc :=
  ⟨[("magic-numbers".toList, ⟨[("enabled".toList, .bool false)], []⟩),
    ("srp".toList, ⟨[("max_methods".toList, .int 3)], [("python".toList, [("max_methods".toList, .int 50)])]⟩)], ["build/".toList]⟩

example : resolve true ⟨.absent, .ok demoDoc, .ok Doc.empty, none⟩ "magic_numbers".toList [] "python".toList [] =
    .run ⟨[("enabled".toList, .bool false)], []⟩ ["build/".toList] := by decide +kernel
example : resolve true ⟨.absent, .absent, .absent, some (.ok demoDoc)⟩ "srp".toList [("max_methods".toList, .int 0)] "python".toList ["max_methods".toList] = .exit2 := by
  decide +kernel
example : someConsultedBroken ⟨.unparsable, .ok demoDoc, .absent, some (.ok demoDoc)⟩ = true := by decide +kernel

end ThaiLintModel.C05
