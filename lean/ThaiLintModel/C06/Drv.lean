/- C06 — driver glue: renders the model's documents as real JSON so the harness can compare them field by field -/
import ThaiLintModel.Core.J
import ThaiLintModel.C06.Model
namespace ThaiLintModel.C06
open Lean ThaiLintModel

partial def toJson' : J → Json
  | .str s => Json.str s
  | .num n => (n : Json)
  | .arr l => Json.arr (l.map toJson').toArray
  | .obj kv => Json.mkObj (kv.map fun (k, v) => (k, toJson' v))

def vOf (j : Json) : V :=
  { ruleId := J.strD j "rule_id" "", filePath := J.strD j "file_path" "", line := J.natD j "line" 0,
    column := J.natD j "column" 0, message := J.strD j "message" "" }

def outcomeOf (j : Json) (vs : List V) : Outcome :=
  match J.strD j "outcome" "ran" with
  | "usageError" => .usageError | "pathMissing" => .pathMissing | "configMissing" => .configMissing
  | "configMalformed" => .configMalformed | "invalidValue" => .invalidValue | _ => .ran vs

def handle (j : Json) : Json :=
  let vs := (J.arrD j "violations").toList.map vOf
  -- `san` as a finite map supplied by the harness (raw -> sanitised); identity elsewhere
  let sanTable := (J.arrD j "san").toList.filterMap fun p =>
    match p.getArr? with
    | .ok a => some ((a[0]!.getStr?).toOption.getD "", (a[1]!.getStr?).toOption.getD "")
    | _ => none
  let san := fun (s : String) => ((sanTable.find? (fun p => p.1 == s)).map (·.2)).getD s
  let text := renderText san vs
  Json.mkObj [
    ("exit", exitCode (outcomeOf j vs)),
    ("json", toJson' (renderJson san vs)),
    ("sarif", toJson' (renderSarif vs)),
    ("text", Json.arr (text.map fun e => Json.mkObj [("path", e.path), ("nums", J.ofNats e.nums), ("rule_id", e.ruleId), ("message", e.message)]).toArray),
    ("textAmbiguous", vs.any (fun v => v.line == 0 && v.column != 0)),
    ("lineZero", vs.any (fun v => v.line == 0))]

end ThaiLintModel.C06
