/-
C06 — exit code and text / JSON / SARIF renderings.  Model of `format_violations`
(`src/core/cli_utils.py`), `SarifFormatter` (`src/formatters/sarif.py`) and of the exit status
every `_execute_*_lint` ends with.  JSON documents are modelled as abstract values; `san` is
`_sanitize_string` (a parameter: identity on surrogate-free text, checked by the correspondence run).
-/
namespace ThaiLintModel.C06

structure V where
  ruleId : String
  filePath : String
  line : Nat
  column : Nat
  message : String
  deriving DecidableEq, Repr

/-- what a rendering is supposed to convey about a violation -/
structure Core where
  ruleId : String
  filePath : String
  line : Nat
  column : Nat
  message : String
  deriving DecidableEq, Repr

def V.core (san : String → String) (v : V) : Core :=
  { ruleId := v.ruleId, filePath := san v.filePath, line := v.line, column := v.column, message := san v.message }

/-! ## Exit status -/
inductive Outcome where
  | ran (vs : List V)          -- the linter ran to completion
  | usageError                 -- click: unknown option / bad value
  | pathMissing
  | configMissing
  | configMalformed
  | invalidValue               -- ValueError from a config validator
  deriving Repr

def exitCode : Outcome → Nat
  | .ran vs => if vs.isEmpty then 0 else 1     -- `sys.exit(1 if violations else 0)`
  | _ => 2

/-! ## Abstract JSON -/
inductive J where
  | str (s : String)
  | num (n : Nat)
  | arr (l : List J)
  | obj (kv : List (String × J))
  deriving Repr

def J.get (j : J) (k : String) : Option J :=
  match j with
  | .obj kv => (kv.find? (fun p => p.1 == k)).map (·.2)
  | _ => none

/-! ## JSON rendering (`_output_json`) -/
def jsonViolation (san : String → String) (v : V) : J :=
  .obj [("rule_id", .str v.ruleId), ("file_path", .str (san v.filePath)), ("line", .num v.line),
        ("column", .num v.column), ("message", .str (san v.message)), ("severity", .str "ERROR")]

def renderJson (san : String → String) (vs : List V) : J :=
  .obj [("violations", .arr (vs.map (jsonViolation san))), ("total", .num vs.length)]

def parseJsonViolation (j : J) : Option Core :=
  match j.get "rule_id", j.get "file_path", j.get "line", j.get "column", j.get "message" with
  | some (.str r), some (.str f), some (.num l), some (.num c), some (.str m) =>
      some { ruleId := r, filePath := f, line := l, column := c, message := m }
  | _, _, _, _, _ => none

def parseJson (j : J) : Option (List Core × Nat) :=
  match j.get "violations", j.get "total" with
  | some (.arr l), some (.num t) => (l.mapM parseJsonViolation).map (fun cs => (cs, t))
  | _, _ => none

/-! ## SARIF rendering (`SarifFormatter.format`) -/

/-- `_create_rules`: rule ids in order of first occurrence -/
def sarifRuleIds : List String → List String → List String
  | _, [] => []
  | seen, r :: rest => if seen.contains r then sarifRuleIds seen rest else r :: sarifRuleIds (r :: seen) rest

/-- (startLine, startColumn): the line as is, the 0-based column made 1-based -/
def sarifRegion (v : V) : Nat × Nat := (v.line, v.column + 1)

def sarifResult (v : V) : J :=
  .obj [("ruleId", .str v.ruleId), ("level", .str "error"), ("message", .obj [("text", .str v.message)]),
        ("locations", .arr [.obj [("physicalLocation", .obj [
           ("artifactLocation", .obj [("uri", .str v.filePath)]),
           ("region", .obj [("startLine", .num (sarifRegion v).1), ("startColumn", .num (sarifRegion v).2)])])]])]

def renderSarif (vs : List V) : J :=
  .obj [("version", .str "2.1.0"), ("$schema", .str "sarif-schema-2.1.0"),
        ("runs", .arr [.obj [
          ("tool", .obj [("driver", .obj [("name", .str "thai-lint"),
              ("rules", .arr ((sarifRuleIds [] (vs.map (·.ruleId))).map (fun r => .obj [("id", .str r)])))])]),
          ("results", .arr (vs.map sarifResult))]])]

def parseSarifResult (j : J) : Option Core :=
  match j.get "ruleId", j.get "message", j.get "locations" with
  | some (.str r), some m, some (.arr [loc]) =>
    match m.get "text", loc.get "physicalLocation" with
    | some (.str t), some pl =>
      match pl.get "artifactLocation", pl.get "region" with
      | some al, some rg =>
        match al.get "uri", rg.get "startLine", rg.get "startColumn" with
        | some (.str u), some (.num l), some (.num c) =>
            if c = 0 then none else some { ruleId := r, filePath := u, line := l, column := c - 1, message := t }
        | _, _, _ => none
      | _, _ => none
    | _, _ => none
  | _, _, _ => none

/-- declared rule ids and results of a SARIF document with exactly one run -/
def parseSarif (j : J) : Option (List String × List Core) :=
  match j.get "runs" with
  | some (.arr [run]) =>
    match run.get "tool", run.get "results" with
    | some tool, some (.arr rs) =>
      match tool.get "driver" with
      | some drv =>
        match drv.get "rules" with
        | some (.arr rules) =>
          let ids := rules.filterMap (fun r => match r.get "id" with | some (.str s) => some s | _ => none)
          (rs.mapM parseSarifResult).map (fun cs => (ids, cs))
        | _ => none
      | _ => none
    | _, _ => none
  | _ => none

/-! ## Text rendering (`_output_text` / `_print_violation`) -/

/-- the numbers printed after the path: `:{line}` only when line ≠ 0, `:{column}` only when column ≠ 0 -/
def locNums (line column : Nat) : List Nat :=
  (if line = 0 then [] else [line]) ++ (if column = 0 then [] else [column])

/-- how a reader recovers (line, column) from those numbers -/
def parseNums : List Nat → Nat × Nat
  | [] => (0, 0)
  | [a] => (a, 0)
  | a :: b :: _ => (a, b)

structure TextEntry where
  path : String
  nums : List Nat
  ruleId : String
  message : String
  deriving DecidableEq, Repr

def renderText (san : String → String) (vs : List V) : List TextEntry :=
  vs.map fun v => { path := san v.filePath, nums := locNums v.line v.column, ruleId := v.ruleId, message := san v.message }

def parseText (es : List TextEntry) : List Core :=
  es.map fun e => { ruleId := e.ruleId, filePath := e.path, line := (parseNums e.nums).1, column := (parseNums e.nums).2, message := e.message }

end ThaiLintModel.C06
