import ThaiLintModel.C06.Model
namespace ThaiLintModel.C06

/-- **Exit code**: 0 exactly when a completed run reports nothing, 1 exactly when it reports
    something, 2 exactly when the run could not be performed. -/
theorem exit_iff (o : Outcome) :
    (exitCode o = 0 ↔ ∃ vs, o = .ran vs ∧ vs = []) ∧
    (exitCode o = 1 ↔ ∃ vs, o = .ran vs ∧ vs ≠ []) ∧
    (exitCode o = 2 ↔ ∀ vs, o ≠ .ran vs) := by
  cases o with
  | ran vs => cases vs <;> simp [exitCode]
  | _ => simp [exitCode]

theorem mapM_parseJson (san : String → String) (vs : List V) :
    List.mapM (parseJsonViolation ∘ jsonViolation san) vs = some (vs.map (V.core san)) := by
  induction vs with
  | nil => rfl
  | cons v r ih =>
    simp only [List.mapM_cons, ih]
    simp [parseJsonViolation, jsonViolation, J.get, List.find?, V.core]

/-- **JSON**: the document parses back to exactly the violations found (paths and messages
    sanitised), and `total` is the number of listed violations. -/
theorem json_roundtrip (san : String → String) (vs : List V) :
    parseJson (renderJson san vs) = some (vs.map (V.core san), vs.length) := by
  simp [parseJson, renderJson, J.get, List.find?, mapM_parseJson]

theorem json_total (san : String → String) (vs : List V) :
    ∃ cs t, parseJson (renderJson san vs) = some (cs, t) ∧ t = cs.length := by
  exact ⟨_, _, json_roundtrip san vs, by simp⟩

theorem mapM_parseSarif (vs : List V) :
    List.mapM (fun x => parseSarifResult (sarifResult x)) vs = some (vs.map (V.core id)) := by
  induction vs with
  | nil => rfl
  | cons v r ih =>
    simp only [List.mapM_cons, ih]
    simp [parseSarifResult, sarifResult, sarifRegion, J.get, List.find?, V.core]

/-- **SARIF**: one run whose results are exactly the violations found, columns shifted to 1-based. -/
theorem sarif_roundtrip (vs : List V) :
    parseSarif (renderSarif vs) = some (sarifRuleIds [] (vs.map (·.ruleId)), vs.map (V.core id)) := by
  simp [parseSarif, renderSarif, J.get, List.find?, mapM_parseSarif, List.filterMap_map, Function.comp_def]

theorem mem_sarifRuleIds (seen rs : List String) (r : String) :
    r ∈ rs → r ∈ seen ∨ r ∈ sarifRuleIds seen rs := by
  induction rs generalizing seen with
  | nil => simp
  | cons a rest ih =>
    intro h
    simp only [sarifRuleIds]
    by_cases hs : seen.contains a
    · simp only [hs, if_true]
      rcases List.mem_cons.1 h with rfl | h
      · left; simpa using hs
      · exact ih seen h
    · simp only [hs, Bool.false_eq_true, if_false]
      rcases List.mem_cons.1 h with rfl | h
      · right; simp
      · rcases ih (a :: seen) h with h' | h'
        · rcases List.mem_cons.1 h' with rfl | h''
          · right; simp
          · left; exact h''
        · right; exact List.mem_cons_of_mem _ h'

/-- **every result's ruleId is declared in the driver's rules** -/
theorem sarif_rules_cover (vs : List V) : ∀ v ∈ vs, v.ruleId ∈ sarifRuleIds [] (vs.map (·.ruleId)) := by
  intro v hv
  rcases mem_sarifRuleIds [] (vs.map (·.ruleId)) v.ruleId (List.mem_map.2 ⟨v, hv, rfl⟩) with h | h
  · simp at h
  · exact h

theorem sarifRuleIds_nodup (seen rs : List String) :
    (sarifRuleIds seen rs).Nodup ∧ ∀ r ∈ sarifRuleIds seen rs, r ∉ seen := by
  induction rs generalizing seen with
  | nil => simp [sarifRuleIds]
  | cons a rest ih =>
    by_cases hs : a ∈ seen
    · simpa [sarifRuleIds, hs] using ih seen
    · simp only [sarifRuleIds, List.contains_iff_mem, hs, if_false]
      obtain ⟨h1, h2⟩ := ih (a :: seen)
      refine ⟨List.nodup_cons.2 ⟨fun h => (h2 a h) (by simp), h1⟩, ?_⟩
      intro r hr
      rcases List.mem_cons.1 hr with rfl | hr
      · exact hs
      · exact fun h => h2 r hr (List.mem_cons_of_mem _ h)

/-- each rule is declared once -/
theorem sarif_rules_nodup (vs : List V) : (sarifRuleIds [] (vs.map (·.ruleId))).Nodup :=
  (sarifRuleIds_nodup [] _).1

/-- **1-based positions**: `startColumn ≥ 1` always, and `startLine ≥ 1` whenever the violation carries
    a real (1-based) line — `startLine = line`, so a rule that reports line 0 yields an invalid region -/
theorem sarif_one_based (v : V) : (sarifRegion v).2 ≥ 1 ∧ ((sarifRegion v).1 ≥ 1 ↔ v.line ≥ 1) := by
  simp [sarifRegion]

/-- text: the numbers after the path identify (line, column) exactly when the violation has a real
    line or no column — `line = 0 ∧ column ≠ 0` would be read back as a line number -/
theorem text_nums_roundtrip (line column : Nat) :
    parseNums (locNums line column) = (line, column) ↔ ¬ (line = 0 ∧ column ≠ 0) := by
  unfold locNums
  by_cases hl : line = 0 <;> by_cases hc : column = 0 <;> simp [hl, hc, parseNums] <;> omega

/-- **The three renderings describe the same multiset of violations** (indeed the same list): for
    every run whose violations carry a real line number, text and JSON agree exactly, and SARIF
    agrees with them up to `_sanitize_string` (SARIF prints paths and messages unsanitised; on
    surrogate-free text `san` is the identity and all three coincide). -/
theorem renderings_agree (san : String → String) (vs : List V) (hline : ∀ v ∈ vs, ¬ (v.line = 0 ∧ v.column ≠ 0)) :
    parseText (renderText san vs) = vs.map (V.core san) ∧
    (parseJson (renderJson san vs)).map (·.1) = some (vs.map (V.core san)) ∧
    (parseSarif (renderSarif vs)).map (·.2) = some (vs.map (V.core id)) := by
  refine ⟨?_, by simp [json_roundtrip], by simp [sarif_roundtrip]⟩
  simp only [parseText, renderText, List.map_map]
  apply List.map_congr_left
  intro v hv
  have := (text_nums_roundtrip v.line v.column).2 (hline v hv)
  simp [V.core, this]

theorem renderings_agree_clean (vs : List V) (hline : ∀ v ∈ vs, ¬ (v.line = 0 ∧ v.column ≠ 0)) :
    some (parseText (renderText id vs)) = (parseJson (renderJson id vs)).map (·.1) ∧
    (parseJson (renderJson id vs)).map (·.1) = (parseSarif (renderSarif vs)).map (·.2) := by
  obtain ⟨h1, h2, h3⟩ := renderings_agree id vs hline
  simp [h1, h2, h3]

/-- witness: a violation with line 0 and a column is not recoverable from the text rendering -/
theorem text_ambiguity_witness : parseNums (locNums 0 5) = (5, 0) := by decide

/-- non-vacuity -/
example : (parseSarif (renderSarif [⟨"a.b", "f.py", 3, 0, "m"⟩, ⟨"c", "g.py", 1, 4, "n"⟩, ⟨"a.b", "f.py", 9, 2, "k"⟩])).map (·.1)
    = some ["a.b", "c"] := by decide

end ThaiLintModel.C06
