/- C07 — driver glue: runs the orchestrator model on the per-file results observed on the implementation -/
import ThaiLintModel.Core.J
import ThaiLintModel.C07.Model
import ThaiLintModel.Gen.Orch
namespace ThaiLintModel.C07
open Lean ThaiLintModel ThaiLintModel.Orch

/-- files are indices; violations are opaque canonical tokens; evidence token = the file index -/
def rulesOf (perfile : Array (List String)) (finEmpty finAll : List String) : Rules Nat String Nat where
  perFile := fun i => perfile.getD i []
  collect := fun i => [i]
  finalize := fun es => if es.isEmpty then finEmpty else finAll

def valOf (j : Json) : Option Val :=
  match j with
  | .str s => some (.str s)
  | .null => some .none
  | _ => match j.getInt? with
    | .ok i => some (.int i)
    | _ => none

def valJson : Val → Json
  | .str s => Json.str s
  | .int i => toJson i
  | .none => Json.null

/-- transfer format: the record arrives as `[[key, value], ...]`; the answer is `from_dict` followed by `to_dict` -/
def handleDict (j : Json) : Json :=
  let d : Dict := (J.arrD j "dict").toList.filterMap fun kv =>
    match kv.getArr?.toOption.map (·.toList) with
    | some [k, v] => match k.getStr?.toOption, valOf v with
      | some ks, some x => some (ks, x)
      | _, _ => none
    | _ => none
  match fromDict d with
  | some v => Json.mkObj [("ok", true), ("dict", Json.arr ((toDict v).map fun kv => Json.arr #[Json.str kv.1, valJson kv.2]).toArray)]
  | none => Json.mkObj [("ok", false)]

def handle (j : Json) : Json :=
  if J.strD j "op" "" == "dict" then handleDict j else
  let perfile : Array (List String) := (J.arrD j "perfile").map fun a =>
    (a.getArr?.toOption.getD #[]).toList.filterMap (fun x => x.getStr?.toOption)
  let finEmpty := J.strsD j "finEmpty"
  let finAll := J.strsD j "finAll"
  let n := perfile.size
  let fs := List.range n
  let done := ((J.nats j "done").toOption.getD fs)
  let cpu := J.natD j "cpu" 16
  let mw := (J.nat j "maxWorkers").toOption
  let w := effectiveWorkers mw Gen.Orch.defaultMaxWorkers cpu
  let R := rulesOf perfile finEmpty finAll
  let par := (lintFilesParallel R ⟨true⟩ fresh w fs done).2
  let seq := (lintFiles R ⟨true⟩ fresh fs).2
  Json.mkObj [("workers", w), ("pooled", decide (¬ n < w * 2) && n != 0), ("parallel", J.ofStrs par), ("sequential", J.ofStrs seq),
              ("exitPar", exitCode par), ("exitSeq", exitCode seq),
              ("explain", J.ofStrs (if par.mergeSort == seq.mergeSort then [] else
                 (if (par.filter (fun v => !finAll.contains v)).mergeSort == (seq.filter (fun v => !finAll.contains v)).mergeSort
                  then ["F07a"] else ["unexplained"])))]

end ThaiLintModel.C07
