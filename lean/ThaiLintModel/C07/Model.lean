/-
C07 — `--parallel`.  The orchestrator model is `Core/Orch.lean`; here: the violation record and its
`to_dict` / `from_dict` transfer format (`src/core/types.py`), through which every violation of a
parallel run passes.
-/
import ThaiLintModel.Core.Orch
namespace ThaiLintModel.C07

/-- `Violation` with all seven fields (`Severity` has the single member ERROR = "error") -/
structure Violation where
  ruleId : String
  filePath : String
  line : Int
  column : Int
  message : String
  suggestion : Option String
  deriving DecidableEq, Repr

inductive Val where
  | str (s : String) | int (i : Int) | none
  deriving DecidableEq, Repr

abbrev Dict := List (String × Val)

def Dict.get (d : Dict) (k : String) : Val :=
  match d.find? (fun kv => kv.1 == k) with
  | some kv => kv.2
  | none => .none

/-- `Violation.to_dict` -/
def toDict (v : Violation) : Dict := [
  ("rule_id", .str v.ruleId), ("file_path", .str v.filePath), ("line", .int v.line), ("column", .int v.column),
  ("message", .str v.message), ("severity", .str "error"),
  ("suggestion", match v.suggestion with | some s => .str s | none => .none)]

/-- `Violation.from_dict` (`Severity(data["severity"])` raises for anything but "error") -/
def fromDict (d : Dict) : Option Violation :=
  match d.get "rule_id", d.get "file_path", d.get "line", d.get "column", d.get "message", d.get "severity" with
  | .str r, .str f, .int l, .int c, .str m, .str "error" =>
    some { ruleId := r, filePath := f, line := l, column := c, message := m,
           suggestion := match d.get "suggestion" with | .str s => some s | _ => none }
  | _, _, _, _, _, _ => none

end ThaiLintModel.C07
