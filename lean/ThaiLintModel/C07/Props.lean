/-
C07 — `--parallel` reports exactly what the sequential run reports: theorems about the orchestrator
model, for all rule plug-ins (parameters), file lists, worker counts and completion orders.
-/
import ThaiLintModel.C07.Model
namespace ThaiLintModel.C07
open ThaiLintModel ThaiLintModel.Orch

variable {F V E : Type}

theorem lintLoop_store (R : Rules F V E) (s : St E) (fs : List F) :
    (lintLoop R s fs).1.store = s.store ++ fs.flatMap R.collect := by
  induction fs generalizing s with
  | nil => simp [lintLoop]
  | cons f fs ih => simp [lintLoop, lintFile, ih, List.append_assoc]

theorem lintLoop_violations (R : Rules F V E) (s : St E) (fs : List F) :
    (lintLoop R s fs).2 = fs.flatMap R.perFile := by
  induction fs generalizing s with
  | nil => simp [lintLoop]
  | cons f fs ih => simp [lintLoop, lintFile, ih]

theorem worker_eq (R : Rules F V E) (f : F) : worker R f = R.perFile f := rfl

/-- what the sequential run returns -/
theorem lintFiles_violations (R : Rules F V E) (P : Policy) (s : St E) (fs : List F) :
    (lintFiles R P s fs).2 = fs.flatMap R.perFile ++ R.finalize (s.store ++ fs.flatMap R.collect) := by
  simp [lintFiles, lintLoop_violations, lintLoop_store]

/-- what the pooled run returns: the workers' per-file results in completion order, then the
    parent's `finalize()` on the evidence the parent gathered from every file of the list -/
theorem parallel_violations (R : Rules F V E) (P : Policy) (s : St E) (w : Nat) (fs done : List F)
    (hbig : ¬ fs.length < w * 2) (hne : fs ≠ []) :
    (lintFilesParallel R P s w fs done).2 = done.flatMap R.perFile ++ R.finalize (s.store ++ fs.flatMap R.collect) := by
  have : fs.isEmpty = false := by cases fs <;> simp_all
  have hw : worker R = R.perFile := funext (worker_eq R)
  simp [lintFilesParallel, this, hbig, hw]

/-- below the threshold the parallel entry point *is* the sequential one -/
theorem fallback_exact (R : Rules F V E) (P : Policy) (s : St E) (w : Nat) (fs done : List F)
    (h : fs.length < w * 2) (hne : fs ≠ []) : lintFilesParallel R P s w fs done = lintFiles R P s fs := by
  have : fs.isEmpty = false := by cases fs <;> simp_all
  simp [lintFilesParallel, this, h]

/-- **Per-file findings do not depend on the number of workers, on how files are spread over them,
    or on the order in which the futures complete**: for every completion order `done` (any
    rearrangement of the file list) the per-file part is a rearrangement of the sequential one. -/
theorem perfile_schedule_independent (R : Rules F V E) (fs done : List F) (hd : done.Perm fs) :
    (done.flatMap R.perFile).Perm (fs.flatMap R.perFile) :=
  List.Perm.flatMap_right _ hd

/-- any two schedules of the same pooled run give the same multiset of violations -/
theorem schedule_independent (R : Rules F V E) (P : Policy) (s : St E) (w : Nat) (fs d1 d2 : List F)
    (h1 : d1.Perm fs) (h2 : d2.Perm fs) :
    (lintFilesParallel R P s w fs d1).2.Perm (lintFilesParallel R P s w fs d2).2 := by
  by_cases hne : fs = []
  · subst hne; simp [lintFilesParallel]
  by_cases hbig : fs.length < w * 2
  · rw [fallback_exact R P s w fs d1 hbig hne, fallback_exact R P s w fs d2 hbig hne]
  · rw [parallel_violations R P s w fs d1 hbig hne, parallel_violations R P s w fs d2 hbig hne]
    exact List.Perm.append (List.Perm.flatMap_right _ (h1.trans h2.symm)) (List.Perm.refl _)

/-- **C07**: `--parallel` reports the same multiset of violations as the sequential run — per-file and
    cross-file findings alike — for every rule plug-in set, every non-empty file list (repeated entries
    included), every worker count, every completion order of the futures and every state the object was
    in before. -/
theorem parallel_eq_sequential (R : Rules F V E) (P : Policy) (s : St E) (w : Nat) (fs done : List F)
    (hd : done.Perm fs) (hne : fs ≠ []) :
    (lintFilesParallel R P s w fs done).2.Perm (lintFiles R P s fs).2 := by
  by_cases hbig : fs.length < w * 2
  · rw [fallback_exact R P s w fs done hbig hne]
  · rw [parallel_violations R P s w fs done hbig hne, lintFiles_violations]
    exact List.Perm.append (List.Perm.flatMap_right _ hd) (List.Perm.refl _)

/-- the empty file list: the parallel entry point returns at once; the sequential one still finalizes,
    which on a fresh object is what the rules report for no evidence at all (nothing, for the real rules) -/
theorem parallel_empty (R : Rules F V E) (P : Policy) (s : St E) (w : Nat) (done : List F) :
    (lintFilesParallel R P s w [] done).2 = [] ∧ (lintFiles R P s []).2 = R.finalize s.store := by
  simp [lintFilesParallel, lintFiles, lintLoop]

/-- … and the object is left in the same state by both (what a later call on it will see) -/
theorem parallel_state_eq (R : Rules F V E) (P : Policy) (s : St E) (w : Nat) (fs done : List F) (hne : fs ≠ []) :
    (lintFilesParallel R P s w fs done).1.store = (lintFiles R P s fs).1.store := by
  by_cases hbig : fs.length < w * 2
  · rw [fallback_exact R P s w fs done hbig hne]
  · have : fs.isEmpty = false := by cases fs <;> simp_all
    simp only [lintFilesParallel, this, hbig, lintFiles, lintLoop_store]
    cases P.keepAfterFinalize <;> simp [lintLoop_store]

/-- same exit code -/
theorem parallel_exit_eq_sequential (R : Rules F V E) (P : Policy) (s : St E) (w : Nat) (fs done : List F)
    (hd : done.Perm fs) (hne : fs ≠ []) :
    exitCode (lintFilesParallel R P s w fs done).2 = exitCode (lintFiles R P s fs).2 := by
  have h := parallel_eq_sequential R P s w fs done hd hne
  simp [exitCode, h.isEmpty_eq]

/-- same exit code whenever the multisets agree -/
theorem exit_code_of_perm (a b : List V) (h : a.Perm b) : exitCode a = exitCode b := by
  simp [exitCode, h.isEmpty_eq]

theorem exit_schedule_independent (R : Rules F V E) (P : Policy) (s : St E) (w : Nat) (fs d1 d2 : List F)
    (h1 : d1.Perm fs) (h2 : d2.Perm fs) :
    exitCode (lintFilesParallel R P s w fs d1).2 = exitCode (lintFilesParallel R P s w fs d2).2 :=
  exit_code_of_perm _ _ (schedule_independent R P s w fs d1 d2 h1 h2)

/-! ## Finding F07a (repaired by b158f57): cross-file evidence stayed in the workers -/

/-- toy plug-in set over files = numbers: a per-file rule reporting odd numbers, and a DRY-like
    cross-file rule reporting every value that was collected more than once -/
def toy : Rules Nat String Nat where
  perFile := fun n => if n % 2 == 1 then [s!"odd {n}"] else []
  collect := fun n => [n / 10]
  finalize := fun es => (es.filter (fun e => es.count e > 1)).eraseDups.map (fun e => s!"dup {e}")

/-- the pooled branch as it was: the duplicate is lost with 2 workers (pooled) and found with 3 (fallback);
    as it is: found in both -/
theorem crossfile_lost_witness :
    (lintFiles toy ⟨true⟩ fresh [10, 11, 20, 31]).2 = ["odd 11", "odd 31", "dup 1"] ∧
    (lintFilesParallelOld toy ⟨true⟩ fresh 2 [10, 11, 20, 31] [31, 20, 11, 10]).2 = ["odd 31", "odd 11"] ∧
    (lintFilesParallelOld toy ⟨true⟩ fresh 3 [10, 11, 20, 31] [31, 20, 11, 10]).2 = ["odd 11", "odd 31", "dup 1"] ∧
    (lintFilesParallel toy ⟨true⟩ fresh 2 [10, 11, 20, 31] [31, 20, 11, 10]).2 = ["odd 31", "odd 11", "dup 1"] := by
  decide +kernel

/-- the old branch agreed with the sequential run exactly when the cross-file rules had nothing to add -/
theorem old_parallel_eq_sequential_partial (R : Rules F V E) (P : Policy) (w : Nat) (fs done : List F)
    (hd : done.Perm fs) (hne : fs ≠ [])
    (hcross : R.finalize (fs.flatMap R.collect) = R.finalize []) :
    (lintFilesParallelOld R P fresh w fs done).2.Perm (lintFiles R P fresh fs).2 := by
  have he : fs.isEmpty = false := by cases fs <;> simp_all
  have hw : worker R = R.perFile := funext (worker_eq R)
  by_cases hbig : fs.length < w * 2
  · simp [lintFilesParallelOld, he, hbig]
  · simp only [lintFilesParallelOld, he, hbig, if_false, Bool.false_eq_true, hw, lintFiles_violations, fresh, List.nil_append, hcross]
    exact List.Perm.append (List.Perm.flatMap_right _ hd) (List.Perm.refl _)

/-! ## Transfer format -/

/-- every field of a violation survives the worker → parent transfer -/
theorem dict_roundtrip (v : Violation) : fromDict (toDict v) = some v := by
  cases v with
  | mk r f l c m s => cases s <;> simp [toDict, fromDict, Dict.get, List.find?]

/-- two different violations never travel as the same record (the transfer cannot merge findings) -/
theorem toDict_injective (a b : Violation) (h : toDict a = toDict b) : a = b := by
  have ha := dict_roundtrip a
  rw [h, dict_roundtrip b] at ha
  exact (Option.some.inj ha).symm

/-- a whole batch of worker results crosses the process boundary unchanged: nothing dropped,
    nothing duplicated, order kept -/
theorem batch_roundtrip (vs : List Violation) : (vs.map toDict).filterMap fromDict = vs := by
  induction vs with
  | nil => rfl
  | cons v vs ih => simp [dict_roundtrip, ih]

/-- a record whose severity is not the single `Severity` member is rejected, never defaulted -/
theorem bad_severity_rejected (v : Violation) (sev : String) (h : sev ≠ "error") :
    fromDict ((toDict v).map fun kv => if kv.1 == "severity" then (kv.1, Val.str sev) else kv) = none := by
  cases v with
  | mk r f l c m s =>
    cases s <;> simp [toDict, fromDict, Dict.get, List.find?] <;> split <;> simp_all

/-! ## Worker count -/

/-- the pool is never asked for zero workers when the default and the CPU count are positive,
    whatever `--max-workers` says (0 and "not given" both mean the default) -/
theorem effectiveWorkers_pos (mw : Option Nat) (dflt cpu : Nat) (hd : 0 < dflt) (hc : 0 < cpu) :
    0 < effectiveWorkers mw dflt cpu := by
  unfold effectiveWorkers
  cases mw with
  | none => simp; omega
  | some k => by_cases hk : k = 0 <;> simp [hk] <;> omega

/-- the default never exceeds the CPU count or the configured ceiling -/
theorem effectiveWorkers_default_le (dflt cpu : Nat) :
    effectiveWorkers none dflt cpu ≤ dflt ∧ effectiveWorkers none dflt cpu ≤ cpu ∧
    effectiveWorkers (some 0) dflt cpu = effectiveWorkers none dflt cpu := by
  simp [effectiveWorkers]; omega

/-- an explicit positive `--max-workers` is taken as given -/
theorem effectiveWorkers_explicit (k dflt cpu : Nat) (hk : 0 < k) :
    effectiveWorkers (some k) dflt cpu = k := by
  have : k ≠ 0 := by omega
  simp [effectiveWorkers, this]

/-- below the pooling threshold `--parallel` *is* the sequential run, state and output -/
theorem small_runs_never_pool (R : Rules F V E) (P : Policy) (s : St E) (mw : Option Nat) (dflt cpu : Nat)
    (fs done : List F) (hne : fs ≠ []) (hsmall : fs.length < effectiveWorkers mw dflt cpu * 2) :
    lintFilesParallel R P s (effectiveWorkers mw dflt cpu) fs done = lintFiles R P s fs := by
  have he : fs.isEmpty = false := by cases fs <;> simp_all
  simp [lintFilesParallel, he, hsmall]


end ThaiLintModel.C07
