/-
C07 — `--parallel` reports exactly what the sequential run reports: theorems about the orchestrator
model, for all rule plug-ins (parameters), file lists, worker counts and completion orders.
-/
import ThaiLintModel.C07.Model
namespace ThaiLintModel.C07
open ThaiLintModel ThaiLintModel.Orch

variable {F V E : Type}

theorem lintLoop_store (R : Rules F V E) (s : St E) (fs : List F) :
    (lintLoop R s fs).1.store = s.store ++ fs.flatMap R.collect := by
  induction fs generalizing s with
  | nil => simp [lintLoop]
  | cons f fs ih => simp [lintLoop, lintFile, ih, List.append_assoc]

theorem lintLoop_violations (R : Rules F V E) (s : St E) (fs : List F) :
    (lintLoop R s fs).2 = fs.flatMap R.perFile := by
  induction fs generalizing s with
  | nil => simp [lintLoop]
  | cons f fs ih => simp [lintLoop, lintFile, ih]

theorem worker_eq (R : Rules F V E) (f : F) : worker R f = R.perFile f := rfl

/-- what the sequential run returns -/
theorem lintFiles_violations (R : Rules F V E) (P : Policy) (s : St E) (fs : List F) :
    (lintFiles R P s fs).2 = fs.flatMap R.perFile ++ R.finalize (s.store ++ fs.flatMap R.collect) := by
  simp [lintFiles, lintLoop_violations, lintLoop_store]

/-- what the pooled run returns: the workers' per-file results in completion order, then the
    parent's `finalize()` — on stores that have seen none of the files -/
theorem parallel_violations (R : Rules F V E) (P : Policy) (s : St E) (w : Nat) (fs done : List F)
    (hbig : ¬ fs.length < w * 2) (hne : fs ≠ []) :
    (lintFilesParallel R P s w fs done).2 = done.flatMap R.perFile ++ R.finalize s.store := by
  have : fs.isEmpty = false := by cases fs <;> simp_all
  have hw : worker R = R.perFile := funext (worker_eq R)
  simp [lintFilesParallel, this, hbig, hw]

/-- below the threshold the parallel entry point *is* the sequential one -/
theorem fallback_exact (R : Rules F V E) (P : Policy) (s : St E) (w : Nat) (fs done : List F)
    (h : fs.length < w * 2) (hne : fs ≠ []) : lintFilesParallel R P s w fs done = lintFiles R P s fs := by
  have : fs.isEmpty = false := by cases fs <;> simp_all
  simp [lintFilesParallel, this, h]

/-- **Per-file findings do not depend on the number of workers, on how files are spread over them,
    or on the order in which the futures complete**: for every completion order `done` (any
    rearrangement of the file list) the per-file part is a rearrangement of the sequential one. -/
theorem perfile_schedule_independent (R : Rules F V E) (fs done : List F) (hd : done.Perm fs) :
    (done.flatMap R.perFile).Perm (fs.flatMap R.perFile) :=
  List.Perm.flatMap_right _ hd

/-- any two schedules of the same pooled run give the same multiset of violations -/
theorem schedule_independent (R : Rules F V E) (P : Policy) (s : St E) (w : Nat) (fs d1 d2 : List F)
    (h1 : d1.Perm fs) (h2 : d2.Perm fs) :
    (lintFilesParallel R P s w fs d1).2.Perm (lintFilesParallel R P s w fs d2).2 := by
  by_cases hne : fs = []
  · subst hne; simp [lintFilesParallel]
  by_cases hbig : fs.length < w * 2
  · rw [fallback_exact R P s w fs d1 hbig hne, fallback_exact R P s w fs d2 hbig hne]
  · rw [parallel_violations R P s w fs d1 hbig hne, parallel_violations R P s w fs d2 hbig hne]
    exact List.Perm.append (List.Perm.flatMap_right _ (h1.trans h2.symm)) (List.Perm.refl _)

/-- **C07, the part that holds (partial)**: a fresh object run in parallel reports the same multiset
    as the sequential run, for every worker count and completion order, *provided the cross-file
    rules would report nothing beyond what they report on empty stores* — i.e. whenever no cross-file
    finding (duplicate code, repeated string set) exists among the files.  The hypothesis is forced:
    `crossfile_lost_witness` below shows the statement is false without it (finding F07a). -/
theorem parallel_eq_sequential_partial (R : Rules F V E) (P : Policy) (w : Nat) (fs done : List F)
    (hd : done.Perm fs)
    (hcross : R.finalize (fs.flatMap R.collect) = R.finalize []) :
    (lintFilesParallel R P fresh w fs done).2.Perm (lintFiles R P fresh fs).2 ∨ fs = [] := by
  by_cases hne : fs = []
  · exact Or.inr hne
  left
  by_cases hbig : fs.length < w * 2
  · rw [fallback_exact R P fresh w fs done hbig hne]
  · rw [parallel_violations R P fresh w fs done hbig hne, lintFiles_violations]
    simp only [fresh, List.nil_append, hcross]
    exact List.Perm.append (List.Perm.flatMap_right _ hd) (List.Perm.refl _)

/-- the exact shape of the difference: the pooled run reports the per-file findings plus
    `finalize([])`, the sequential run the per-file findings plus `finalize(all evidence)` -/
theorem parallel_difference (R : Rules F V E) (P : Policy) (w : Nat) (fs : List F)
    (hbig : ¬ fs.length < w * 2) (hne : fs ≠ []) :
    (lintFilesParallel R P fresh w fs fs).2 = fs.flatMap R.perFile ++ R.finalize [] ∧
    (lintFiles R P fresh fs).2 = fs.flatMap R.perFile ++ R.finalize (fs.flatMap R.collect) := by
  constructor
  · rw [parallel_violations R P fresh w fs fs hbig hne]; rfl
  · rw [lintFiles_violations]; rfl

/-- same exit code whenever the multisets agree -/
theorem exit_code_of_perm (a b : List V) (h : a.Perm b) : exitCode a = exitCode b := by
  simp [exitCode, h.isEmpty_eq]

theorem exit_schedule_independent (R : Rules F V E) (P : Policy) (s : St E) (w : Nat) (fs d1 d2 : List F)
    (h1 : d1.Perm fs) (h2 : d2.Perm fs) :
    exitCode (lintFilesParallel R P s w fs d1).2 = exitCode (lintFilesParallel R P s w fs d2).2 :=
  exit_code_of_perm _ _ (schedule_independent R P s w fs d1 d2 h1 h2)

/-! ## Finding F07a: cross-file evidence stays in the workers -/

/-- toy plug-in set over files = numbers: a per-file rule reporting odd numbers, and a DRY-like
    cross-file rule reporting every value that was collected more than once -/
def toy : Rules Nat String Nat where
  perFile := fun n => if n % 2 == 1 then [s!"odd {n}"] else []
  collect := fun n => [n / 10]
  finalize := fun es => (es.filter (fun e => es.count e > 1)).eraseDups.map (fun e => s!"dup {e}")

theorem crossfile_lost_witness :
    (lintFiles toy ⟨true⟩ fresh [10, 11, 20, 31]).2 = ["odd 11", "odd 31", "dup 1"] ∧
    (lintFilesParallel toy ⟨true⟩ fresh 2 [10, 11, 20, 31] [31, 20, 11, 10]).2 = ["odd 31", "odd 11"] ∧
    (lintFilesParallel toy ⟨true⟩ fresh 3 [10, 11, 20, 31] [31, 20, 11, 10]).2 = ["odd 11", "odd 31", "dup 1"] := by
  decide +kernel

/-- non-vacuity of `parallel_eq_sequential_partial` on the same toy (no duplicate evidence) -/
example : toy.finalize ([10, 21, 30, 41].flatMap toy.collect) = toy.finalize [] := by decide +kernel

/-! ## Transfer format -/

/-- every field of a violation survives the worker → parent transfer -/
theorem dict_roundtrip (v : Violation) : fromDict (toDict v) = some v := by
  cases v with
  | mk r f l c m s => cases s <;> simp [toDict, fromDict, Dict.get, List.find?]

end ThaiLintModel.C07
