/- C08 — driver glue: runs the history model on tables observed from *fresh* runs of the implementation -/
import ThaiLintModel.Core.J
import ThaiLintModel.C08.Model
namespace ThaiLintModel.C08
open Lean ThaiLintModel ThaiLintModel.Orch

def key (f : Nat × Nat) : String := s!"{f.1}:{f.2}"

def tableGet (t : Json) (k : String) : Option (List String) :=
  match t.getObjVal? k with
  | .ok (.arr a) => some (a.toList.filterMap (fun x => x.getStr?.toOption))
  | _ => none

def rulesOf (perfile fin : Json) : Rules (Nat × Nat) String String where
  perFile := fun f => (tableGet perfile (key f)).getD ["<<missing perfile " ++ key f ++ ">>"]
  collect := fun f => [key f]
  finalize := fun es =>
    let k := String.intercalate "," es.mergeSort
    (tableGet fin k).getD (if es.isEmpty then [] else ["<<missing fin " ++ k ++ ">>"])

def opOf (j : Json) : Op Nat Nat :=
  match J.strD j "op" "" with
  | "lintFiles" => .lintFiles ((J.nats j "ps").toOption.getD [])
  | "lintFile" => .lintFile (J.natD j "p" 0)
  | "write" => .write (J.natD j "p" 0) (J.natD j "c" 0)
  | _ => .delete (J.natD j "p" 0)

def handle (j : Json) : Json :=
  let fs0 : FS Nat Nat := (J.arrD j "fs0").toList.filterMap fun x =>
    match x.getArr? with
    | .ok a => some ((a[0]!.getNat?).toOption.getD 0, (a[1]!.getNat?).toOption.getD 0)
    | _ => none
  let ops := (J.arrD j "ops").toList.map opOf
  let R := rulesOf ((j.getObjVal? "perfile").toOption.getD (Json.mkObj [])) ((j.getObjVal? "fin").toOption.getD (Json.mkObj []))
  let pol : Policy := ⟨J.boolD j "policyKeep" false⟩
  let (w, outs) := run R pol { fs := fs0, st := fresh } ops
  Json.mkObj [("outputs", Json.arr (outs.map J.ofStrs).toArray), ("finalStore", J.ofStrs w.st.store),
              ("allFinalizing", ops.all Op.finalizing)]

end ThaiLintModel.C08
