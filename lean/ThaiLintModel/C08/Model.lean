/-
C08 — results depend only on current file contents and config, not order or history.
A long-lived Linter/Orchestrator object as a state machine over an abstract file system:
lint calls interleaved with edits, deletions and creations.  Rule plug-ins are parameters
(`Core/Orch.lean`); a file is a path together with its *current* content.
-/
import ThaiLintModel.Core.Orch
namespace ThaiLintModel.C08
open ThaiLintModel ThaiLintModel.Orch

variable {P C V E : Type} [DecidableEq P]

/-- project directory: path ↦ content -/
abbrev FS (P C : Type) := List (P × C)

def FS.read (fs : FS P C) (p : P) : Option C := (fs.find? (fun kv => kv.1 == p)).map (·.2)
def FS.write (fs : FS P C) (p : P) (c : C) : FS P C := (p, c) :: fs.filter (fun kv => kv.1 != p)
def FS.remove (fs : FS P C) (p : P) : FS P C := fs.filter (fun kv => kv.1 != p)

/-- the paths of a call that exist now, with their current content (`Path.is_file()` / `exists()` guards) -/
def present (fs : FS P C) (ps : List P) : List (P × C) := ps.filterMap (fun p => (fs.read p).map (fun c => (p, c)))

structure World (P C E : Type) where
  fs : FS P C
  st : St E

inductive Op (P C : Type) where
  | lintFiles (ps : List P)     -- Linter.lint / lint_files / lint_directory (ends in finalize)
  | lintFile (p : P)            -- Orchestrator.lint_file (no finalize)
  | write (p : P) (c : C)       -- create or edit
  | delete (p : P)

def step (R : Rules (P × C) V E) (pol : Policy) (w : World P C E) : Op P C → World P C E × List V
  | .lintFiles ps =>
      let (s, v) := lintFiles R pol w.st (present w.fs ps)
      ({ w with st := s }, v)
  | .lintFile p =>
      match (present w.fs [p]) with
      | f :: _ => let (s, v) := lintFile R w.st f; ({ w with st := s }, v)
      | [] => (w, [])
  | .write p c => ({ w with fs := w.fs.write p c }, [])
  | .delete p => ({ w with fs := w.fs.remove p }, [])

/-- run a history; returns the final world and the output of every operation -/
def run (R : Rules (P × C) V E) (pol : Policy) (w : World P C E) : List (Op P C) → World P C E × List (List V)
  | [] => (w, [])
  | op :: rest =>
    let (w1, v) := step R pol w op
    let (w2, vs) := run R pol w1 rest
    (w2, v :: vs)

def Op.finalizing : Op P C → Bool
  | .lintFile _ => false
  | _ => true

/-! ## Rules with an analyzer that lives as long as the rule -/

/-- a rule whose analyzer object lives as long as the rule (one per Orchestrator): `check` may read and update what the
    analyzer remembers (`σ`: aliases seen, a parsed configuration, kinds of variables …) -/
structure SRule (σ G W : Type) where
  init : σ
  check : σ → G → σ × List W

section
variable {σ G W : Type}

/-- the per-file part of a run: the analyzer state is threaded through the files in the order they are linted -/
def SRule.loop (R : SRule σ G W) (s : σ) : List G → σ × List W
  | [] => (s, [])
  | f :: fs =>
    let r := R.check s f
    let rest := R.loop r.1 fs
    (rest.1, r.2 ++ rest.2)

/-- the obligation on every rule: what it reports for a file does not depend on what the analyzer remembered before
    (it resets, or keys what it keeps by the file) -/
def SRule.Forgetful (R : SRule σ G W) : Prop := ∀ s f, (R.check s f).2 = (R.check R.init f).2

/-- the verdict on one file by a fresh analyzer -/
def SRule.alone (R : SRule σ G W) (f : G) : List W := (R.check R.init f).2
end

end ThaiLintModel.C08
