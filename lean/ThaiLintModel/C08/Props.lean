import ThaiLintModel.C08.Model
namespace ThaiLintModel.C08
open ThaiLintModel ThaiLintModel.Orch

variable {P C V E : Type} [DecidableEq P]

theorem lintLoop_store (R : Rules F V E) (s : St E) (fs : List F) :
    (lintLoop R s fs).1.store = s.store ++ fs.flatMap R.collect := by
  induction fs generalizing s with
  | nil => simp [lintLoop]
  | cons f fs ih => simp [lintLoop, lintFile, ih, List.append_assoc]

theorem lintLoop_violations (R : Rules F V E) (s : St E) (fs : List F) :
    (lintLoop R s fs).2 = fs.flatMap R.perFile := by
  induction fs generalizing s with
  | nil => simp [lintLoop]
  | cons f fs ih => simp [lintLoop, lintFile, ih]

theorem lintFiles_violations (R : Rules F V E) (pol : Policy) (s : St E) (fs : List F) :
    (lintFiles R pol s fs).2 = fs.flatMap R.perFile ++ R.finalize (s.store ++ fs.flatMap R.collect) := by
  simp [lintFiles, lintLoop_violations, lintLoop_store]

/-- with the reset policy every finalizing call leaves the cross-file stores empty -/
theorem lintFiles_resets (R : Rules F V E) (s : St E) (fs : List F) :
    (lintFiles R ⟨false⟩ s fs).1.store = [] := by
  simp [lintFiles]

/-- **No side effects on the project**: no lint operation changes the file system. -/
theorem lint_no_fs_writes (R : Rules (P × C) V E) (pol : Policy) (w : World P C E) (op : Op P C)
    (h : ∀ p c, op ≠ .write p c) (h' : ∀ p, op ≠ .delete p) : (step R pol w op).1.fs = w.fs := by
  cases op with
  | lintFiles ps => simp [step]
  | lintFile p =>
    simp only [step]
    split <;> simp
  | write p c => exact absurd rfl (h p c)
  | delete p => exact absurd rfl (h' p)

/-- **Invariant over every history**: as long as only finalizing calls are made (Linter.lint,
    lint_files, lint_directory) the object's cross-file stores are empty between calls — whatever
    was linted, edited, deleted or created before. -/
theorem fresh_invariant (R : Rules (P × C) V E) (w : World P C E) (h0 : w.st.store = [])
    (ops : List (Op P C)) (hops : ∀ op ∈ ops, op.finalizing = true) :
    (run R ⟨false⟩ w ops).1.st.store = [] := by
  induction ops generalizing w with
  | nil => simpa [run] using h0
  | cons op rest ih =>
    simp only [run]
    apply ih
    · cases op with
      | lintFiles ps => simp [step, lintFiles]
      | lintFile p => have := hops (.lintFile p) (by simp); simp [Op.finalizing] at this
      | write p c => simpa [step] using h0
      | delete p => simpa [step] using h0
    · intro o ho; exact hops o (by simp [ho])

/-- the file system after a history does not depend on the lint calls in it -/
def applyEdits (fs : FS P C) : List (Op P C) → FS P C
  | [] => fs
  | .write p c :: r => applyEdits (fs.write p c) r
  | .delete p :: r => applyEdits (fs.remove p) r
  | _ :: r => applyEdits fs r

theorem run_fs (R : Rules (P × C) V E) (pol : Policy) (w : World P C E) (ops : List (Op P C)) :
    (run R pol w ops).1.fs = applyEdits w.fs ops := by
  induction ops generalizing w with
  | nil => simp [run, applyEdits]
  | cons op rest ih =>
    simp only [run]
    rw [ih]
    cases op with
    | lintFiles ps => simp [step, applyEdits]
    | lintFile p => simp only [step, applyEdits]; split <;> simp
    | write p c => simp [step, applyEdits]
    | delete p => simp [step, applyEdits]

/-- **A used object answers like a fresh one**: after *any* history of lint calls, edits, deletions
    and creations, the next call returns exactly what a fresh object returns on the files as they
    are now — edited files are judged by their new content, deleted files are gone, nothing seen
    earlier is reported again. -/
theorem next_call_as_fresh (R : Rules (P × C) V E) (w : World P C E) (h0 : w.st.store = [])
    (ops : List (Op P C)) (hops : ∀ op ∈ ops, op.finalizing = true) (ps : List P) :
    (step R ⟨false⟩ (run R ⟨false⟩ w ops).1 (.lintFiles ps)).2 =
      (lintFiles R ⟨false⟩ fresh (present (applyEdits w.fs ops) ps)).2 := by
  have hs := fresh_invariant R w h0 ops hops
  have hf := run_fs R ⟨false⟩ w ops
  simp only [step, lintFiles_violations, hs, hf, fresh, List.nil_append]

/-- repetition: the same call twice in a row gives the same answer -/
theorem repeat_stable (R : Rules (P × C) V E) (w : World P C E) (h0 : w.st.store = []) (ps : List P) :
    let r1 := step R ⟨false⟩ w (.lintFiles ps)
    (step R ⟨false⟩ r1.1 (.lintFiles ps)).2 = r1.2 := by
  simp only [step, lintFiles_violations, lintFiles_resets, h0, List.nil_append]

/-- **Order independence**: passing or discovering the files in another order gives the same
    multiset of violations, provided each cross-file rule's `finalize` is insensitive to the order
    in which evidence arrived (for DRY this is C03's `order_independent`). -/
theorem order_independent (R : Rules F V E) (pol : Policy) (fs fs' : List F) (hp : fs'.Perm fs)
    (hfin : ∀ es es' : List E, es'.Perm es → (R.finalize es').Perm (R.finalize es)) :
    (lintFiles R pol fresh fs').2.Perm (lintFiles R pol fresh fs).2 := by
  rw [lintFiles_violations, lintFiles_violations]
  simp only [fresh, List.nil_append]
  exact List.Perm.append (List.Perm.flatMap_right _ hp) (hfin _ _ (List.Perm.flatMap_right _ hp))

/-! ## Witnesses -/

/-- toy plug-ins over (path, content) = (Nat, Nat): per-file rule flags odd contents, the
    cross-file rule reports contents collected more than once -/
def toy : Rules (Nat × Nat) String Nat where
  perFile := fun f => if f.2 % 2 == 1 then [s!"odd {f.1}"] else []
  collect := fun f => [f.2]
  finalize := fun es => (es.filter (fun e => es.count e > 1)).eraseDups.map (fun e => s!"dup {e}")

def w0 : World Nat Nat Nat := { fs := [(1, 10), (2, 10)], st := fresh }

/-- regression witness for the repaired finding F08a: with a rule that *keeps* its store after
    finalize (DRY before the fix) the second call still reports the duplicate although file 2 was
    edited; with the reset policy it does not -/
theorem stale_evidence_witness :
    (run toy ⟨true⟩ w0 [.lintFiles [1, 2], .write 2 12, .lintFiles [1, 2]]).2 = [["dup 10"], [], ["dup 10"]] ∧
    (run toy ⟨false⟩ w0 [.lintFiles [1, 2], .write 2 12, .lintFiles [1, 2]]).2 = [["dup 10"], [], []] := by
  decide +kernel

/-- finding F08b: `Orchestrator.lint_file` never finalizes, so what it collected is reported by the
    *next* finalizing call, which was asked about another file only -/
theorem lintFile_leak_witness :
    (run toy ⟨false⟩ w0 [.lintFile 1, .lintFiles [2]]).2 = [[], ["dup 10"]] ∧
    (run toy ⟨false⟩ w0 [.lintFiles [2]]).2 = [[]] := by
  decide +kernel

/-- non-vacuity of `next_call_as_fresh` -/
example : (run toy ⟨false⟩ w0 [.lintFiles [1, 2], .delete 1, .write 3 11, .lintFiles [1, 2, 3]]).2 =
    [["dup 10"], [], [], ["odd 3"]] := by decide +kernel

/-! ## Analyzer state: the obligation that lets `check` be treated as a function of the file -/

section Stateful
variable {σ G W : Type}

/-- **a forgetful rule reports, for every history and every order of the files, the union of what it reports on each file
    alone** — this is what lets the orchestrator model treat `check` as a function of the file -/
theorem forgetful_loop (R : SRule σ G W) (h : R.Forgetful) (s : σ) (fs : List G) :
    (R.loop s fs).2 = fs.flatMap R.alone := by
  induction fs generalizing s with
  | nil => simp [SRule.loop]
  | cons f fs ih => simp [SRule.loop, ih, h s f, SRule.alone]

theorem forgetful_history_independent (R : SRule σ G W) (h : R.Forgetful) (s s' : σ) (fs : List G) :
    (R.loop s fs).2 = (R.loop s' fs).2 := by
  rw [forgetful_loop R h s, forgetful_loop R h s']

theorem forgetful_order_independent (R : SRule σ G W) (h : R.Forgetful) (s s' : σ) (fs fs' : List G) (hp : fs'.Perm fs) :
    (R.loop s' fs').2.Perm (R.loop s fs).2 := by
  rw [forgetful_loop R h s, forgetful_loop R h s']
  exact List.Perm.flatMap_right _ hp

/-- what the seeded changes `C08-r2m1`, `C10-r2m1`, `C11-r3m2`, `C19-r3m1` … did: an analyzer that keeps the names it has
    learned.  A file is (the alias it declares for the regex module, the name it calls in a loop); the call is reported when the
    name is a known alias -/
def leaky : SRule (List Nat) (Nat × Nat) String where
  init := [0]
  check := fun known f =>
    let known' := f.1 :: known          -- never reset
    (known', if known'.contains f.2 then [s!"regex call through {f.2}"] else [])

/-- … is not forgetful, and its findings depend on the order of the files -/
theorem leaky_is_order_dependent :
    (leaky.loop leaky.init [(5, 5), (0, 5)]).2 = ["regex call through 5", "regex call through 5"] ∧
    (leaky.loop leaky.init [(0, 5), (5, 5)]).2 = ["regex call through 5"] ∧
    leaky.alone (0, 5) = [] := by decide

/-- the same analyzer with the reset the real code has -/
def resetting : SRule (List Nat) (Nat × Nat) String where
  init := [0]
  check := fun _ f =>
    let known' := [f.1, 0]
    (known', if known'.contains f.2 then [s!"regex call through {f.2}"] else [])

example : resetting.Forgetful := fun _ _ => rfl

end Stateful

end ThaiLintModel.C08
