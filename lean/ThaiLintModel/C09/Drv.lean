/- C09 — driver glue -/
import ThaiLintModel.Core.J
import ThaiLintModel.C09.Model
namespace ThaiLintModel.C09
open Lean ThaiLintModel ThaiLintModel.C14

def handle (j : Json) : Json :=
  if J.strD j "op" "" == "resolve" then
    let cwd := (J.strsD j "cwd").map String.toList
    let links : Links := (J.arrD j "links").toList.map fun lj =>
      ((J.strsD lj "link").map String.toList, (J.strsD lj "target").map String.toList)
    Json.mkObj [("resolved", J.ofStrs ((resolveSpellingL links cwd (J.boolD j "absolute" false) ((J.strsD j "segs").map String.toList)).map String.ofList))]
  else
  let above := (J.strsD j "above").map String.toList
  let q := (J.strsD j "inProject").map String.toList
  let root := (J.strsD j "root").map String.toList
  let markers := (J.strsD j "markers").map String.toList
  let file := above ++ q
  Json.mkObj [
    ("dirParts", J.ofStrs ((dirPartsInProject root file).map String.ofList)),
    ("hardExcluded", hardExcluded root file),
    ("checkPath", String.ofList (joinPath (checkPath root file))),
    ("projectString", String.ofList ('/' :: joinPath ((relativeTo root file).getD file))),
    ("markerHit", markerHit markers true above q)]

end ThaiLintModel.C09
