/-
C09 — results do not depend on path spelling or on where the project lives.
Model of the path arithmetic at the sites that decide exclusion / ignoring / exemption from a path:
  * `_directory_parts_in_project` + `_is_hardcoded_excluded`  (src/orchestrator/core.py)
  * `IgnoreDirectiveParser.is_ignored`                        (src/linter_config/ignore.py)
  * substring tests on a path string: magic-numbers `_is_test_file`, `is_ignored_path`
    (unwrap/clone/blocking default `ignore`), DRY `_is_ignored`, …
A path is a list of components; an absolute path is `above ++ inProject` where `above` are the
components leading to the project root.
-/
import ThaiLintModel.C14.Model
namespace ThaiLintModel.C09
open ThaiLintModel ThaiLintModel.C14

/-- `Path.relative_to(root)`: strip the root's components, or fail -/
def relativeTo (root : Path) (p : Path) : Option Path :=
  if root.isPrefixOf p then some (p.drop root.length) else none

/-- `_directory_parts_in_project(file_path, project_root)` on a resolved path -/
def dirPartsInProject (root : Path) (file : Path) : Path :=
  match relativeTo root file with
  | some rel => rel.dropLast
  | none => file.dropLast

/-- `_is_hardcoded_excluded(file_path, project_root)` -/
def hardExcluded (root file : Path) : Bool :=
  (match file.getLast? with | some n => extExcluded n | none => false) || (dirPartsInProject root file).any dirExcluded

/-- the path `is_ignored` hands to the pattern matcher -/
def checkPath (root file : Path) : Path := (relativeTo root file).getD file

/-- `needle in haystack` -/
def containsSub : List Char → List Char → Bool
  | [], p => p.isEmpty
  | c :: s, p => p.isPrefixOf (c :: s) || containsSub s p

/-- a path-string exemption: is one of `markers` a substring of the string the site looks at?
    `projectRelative = true` : the site looks at "/" ++ path inside the project;
    `projectRelative = false`: the site looks at the full path as given (the behaviour this
    property forbids, kept to state the witnesses) -/
def markerHit (markers : List (List Char)) (projectRelative : Bool) (above inProject : Path) : Bool :=
  let s := if projectRelative then '/' :: joinPath inProject else '/' :: joinPath (above ++ inProject)
  markers.any (fun m => containsSub s m)

/-! ## Spellings of a path (`Path.resolve()` / `os.path.abspath` without symbolic links) -/

def isSpecial (seg : Name) : Bool := seg == [] || seg == ['.'] || seg == ['.', '.']

/-- walk the segments of a spelled path from a starting directory: "" and "." stay, ".." goes up, a name goes down -/
def walkSegs (start : Path) : List Name → Path
  | [] => start
  | seg :: rest =>
    if seg == [] || seg == ['.'] then walkSegs start rest
    else if seg == ['.', '.'] then walkSegs start.dropLast rest
    else walkSegs (start ++ [seg]) rest

/-- a relative spelling is walked from the working directory, an absolute one from the root -/
def resolveSpelling (cwd : Path) (absolute : Bool) (segs : List Name) : Path :=
  walkSegs (if absolute then [] else cwd) segs

/-! ### symbolic links -/

/-- a table of symbolic links: (absolute path of the link, absolute path it points to, itself free of links) -/
abbrev Links := List (Path × Path)

def follow (links : Links) (p : Path) : Path :=
  match links.find? (fun l => l.1 == p) with
  | some l => l.2
  | none => p

/-- `walkSegs` on a file system with symbolic links: a name that is a link continues at its target -/
def walkSegsL (links : Links) (start : Path) : List Name → Path
  | [] => start
  | seg :: rest =>
    if seg == [] || seg == ['.'] then walkSegsL links start rest
    else if seg == ['.', '.'] then walkSegsL links start.dropLast rest
    else walkSegsL links (follow links (start ++ [seg])) rest

def resolveSpellingL (links : Links) (cwd : Path) (absolute : Bool) (segs : List Name) : Path :=
  walkSegsL links (if absolute then [] else cwd) segs

end ThaiLintModel.C09
