import ThaiLintModel.C09.Model
namespace ThaiLintModel.C09
open ThaiLintModel ThaiLintModel.C14

theorem relativeTo_append (above q : Path) : relativeTo above (above ++ q) = some q := by
  simp [relativeTo, List.isPrefixOf_iff_prefix]

/-- **Built-in exclusion is decided by the path inside the project**: wherever the project lives
    (`above` arbitrary — `build`, `dist`, `venv`, … included), a file is excluded iff its suffix is a
    compiled one or one of its directories *inside the project* is an always-excluded name. -/
theorem getLast?_append_cons (above : Path) (a : Name) (r : Path) :
    (above ++ a :: r).getLast? = (a :: r).getLast? := by
  rw [List.getLast?_append]
  cases h : (a :: r).getLast? with
  | none => simp at h
  | some x => simp

theorem hardExcluded_relocate (above above' q : Path) (hq : q ≠ []) :
    hardExcluded above (above ++ q) = hardExcluded above' (above' ++ q) := by
  cases q with
  | nil => exact absurd rfl hq
  | cons a r =>
    simp only [hardExcluded, dirPartsInProject, relativeTo_append, getLast?_append_cons]

theorem hardExcluded_eq_spec (above q : Path) (hq : q ≠ []) :
    hardExcluded above (above ++ q) = C14.hardExcluded [] q := by
  cases q with
  | nil => exact absurd rfl hq
  | cons a r =>
    simp only [hardExcluded, C14.hardExcluded, dirPartsInProject, relativeTo_append, getLast?_append_cons, dirParts, List.nil_append] <;> rfl

/-- **Repository ignore patterns see the path inside the project**, whatever leads to it -/
theorem checkPath_relocate (above q : Path) : checkPath above (above ++ q) = q := by
  simp [checkPath, relativeTo_append]

/-- a site that looks at the project-relative string cannot depend on the location -/
theorem markerHit_relocate (markers : List (List Char)) (above above' q : Path) :
    markerHit markers true above q = markerHit markers true above' q := rfl

/-- witness: a site that looks at the full path string does depend on it (a TypeScript file of a
    project under `…/test_data/` is exempted as "test code") -/
theorem markerHit_full_path_witness :
    markerHit ["test_".toList, "/tests/".toList] false ["tmp".toList, "test_data".toList] ["src".toList, "b.ts".toList] = true ∧
    markerHit ["test_".toList, "/tests/".toList] false ["tmp".toList, "work".toList] ["src".toList, "b.ts".toList] = false := by
  decide

/-- regression witness (fix bd0e3d3): a project under a directory called `build` -/
example : hardExcluded ["tmp".toList, "build".toList, "proj".toList]
    (["tmp".toList, "build".toList, "proj".toList] ++ ["src".toList, "a.py".toList]) = false ∧
    hardExcluded ["tmp".toList, "proj".toList] (["tmp".toList, "proj".toList] ++ ["build".toList, "a.py".toList]) = true := by
  decide

/-! ## Every spelling of a location resolves to the same path -/

theorem walkSegs_append (start : Path) (a b : List Name) : walkSegs start (a ++ b) = walkSegs (walkSegs start a) b := by
  induction a generalizing start with
  | nil => rfl
  | cons seg rest ih =>
    simp only [List.cons_append, walkSegs]
    split
    · exact ih start
    · split
      · exact ih _
      · exact ih _

/-- plain names just extend the path -/
theorem walkSegs_plain (start : Path) (names : List Name) (h : ∀ n ∈ names, isSpecial n = false) : walkSegs start names = start ++ names := by
  induction names generalizing start with
  | nil => simp [walkSegs]
  | cons n rest ih =>
    have hn := h n (by simp)
    simp only [isSpecial, Bool.or_eq_false_iff] at hn
    simp only [walkSegs, hn.1.1, hn.1.2, hn.2, Bool.false_or, Bool.false_eq_true, if_false]
    rw [ih _ (fun m hm => h m (by simp [hm]))]
    simp

/-- **"./" and empty segments change nothing** -/
theorem dot_is_neutral (start : Path) (a b : List Name) :
    walkSegs start (a ++ [['.']] ++ b) = walkSegs start (a ++ b) ∧ walkSegs start (a ++ [[]] ++ b) = walkSegs start (a ++ b) := by
  constructor <;> simp [walkSegs_append, walkSegs]

/-- **"name/.." changes nothing** -/
theorem name_dotdot_cancels (start : Path) (a b : List Name) (n : Name) (hn : isSpecial n = false) :
    walkSegs start (a ++ [n, ['.', '.']] ++ b) = walkSegs start (a ++ b) := by
  simp only [isSpecial, Bool.or_eq_false_iff] at hn
  simp [walkSegs_append, walkSegs, hn.1.1, hn.1.2, hn.2]

/-- **The absolute spelling and the relative spelling from any working directory name the same path**: walking
    `rel` from `cwd` equals walking `cwd ++ rel` from the root, when `cwd` itself is a resolved path -/
theorem relative_eq_absolute (cwd : Path) (rel : List Name) (hcwd : ∀ n ∈ cwd, isSpecial n = false) :
    resolveSpelling cwd false rel = resolveSpelling cwd true (cwd ++ rel) := by
  unfold resolveSpelling
  simp only [Bool.false_eq_true, if_false, if_true]
  rw [walkSegs_append, walkSegs_plain [] cwd hcwd]
  simp

/-- a resolved path is its own resolution -/
theorem resolve_idempotent (p : Path) (hp : ∀ n ∈ p, isSpecial n = false) : resolveSpelling [] true p = p := by
  unfold resolveSpelling
  simp only [if_true]
  rw [walkSegs_plain [] p hp]; simp

/-- consequence for the linter: from a sub-directory, `..`-spellings reach the same project-relative path, so the
    exclusion / ignore decisions (which only see the path inside the project) are the same -/
theorem spelling_does_not_change_decisions (above q : Path) (sub : Name) (hsub : isSpecial sub = false)
    (habove : ∀ n ∈ above, isSpecial n = false) (hq : ∀ n ∈ q, isSpecial n = false) :
    checkPath above (resolveSpelling (above ++ [sub]) false (['.', '.'] :: q)) = q := by
  unfold resolveSpelling
  simp only [Bool.false_eq_true, if_false, walkSegs]
  have : (above ++ [sub]).dropLast = above := by simp
  rw [this, walkSegs_plain above q hq]
  exact checkPath_relocate above q

theorem mem_of_mem_dropLast_aux {α : Type} : ∀ (l : List α) (a : α), a ∈ l.dropLast → a ∈ l
  | [], _, h => by simp at h
  | [_], _, h => by simp at h
  | x :: y :: zs, a, h => by
    rw [List.dropLast_cons_cons, List.mem_cons] at h
    rcases h with h | h
    · simp [h]
    · exact List.mem_cons_of_mem _ (mem_of_mem_dropLast_aux (y :: zs) a h)

/-- **Resolution yields a normal form**: starting from a resolved directory, whatever the spelling (any mix of
    ".", "", ".." and names), the resolved path contains no ".", "" or ".." segment -/
theorem walkSegs_resolved (segs : List Name) : ∀ (start : Path), (∀ n ∈ start, isSpecial n = false) →
    ∀ n ∈ walkSegs start segs, isSpecial n = false := by
  induction segs with
  | nil => intro start h; simpa [walkSegs] using h
  | cons seg rest ih =>
    intro start h
    simp only [walkSegs]
    split
    · exact ih start h
    · split
      · exact ih _ (fun n hn => h n (mem_of_mem_dropLast_aux _ _ hn))
      · rename_i h1 h2
        refine ih _ (fun n hn => ?_)
        rcases List.mem_append.mp hn with hn | hn
        · exact h n hn
        · have : n = seg := by simpa using hn
          subst this
          simp only [Bool.or_eq_true, not_or, Bool.not_eq_true] at h1
          simp [isSpecial, h1.1, h1.2, h2]

/-- **Resolving twice is resolving once**, for every spelling and every resolved working directory -/
theorem resolve_resolve (cwd : Path) (absolute : Bool) (segs : List Name) (hcwd : ∀ n ∈ cwd, isSpecial n = false) :
    resolveSpelling [] true (resolveSpelling cwd absolute segs) = resolveSpelling cwd absolute segs := by
  apply resolve_idempotent
  unfold resolveSpelling
  apply walkSegs_resolved
  cases absolute
  · simpa using hcwd
  · simp

/-- ".." at the file-system root stays at the root (as `os.path.abspath` and `Path.resolve` do) -/
theorem dotdot_at_root (b : List Name) : walkSegs [] (['.', '.'] :: b) = walkSegs [] b := by
  simp [walkSegs]

/-- so the decisions taken on a resolved path see only plain names: every spelling of a file of the project is judged
    by the same project-relative components -/
theorem decisions_see_plain_names (above : Path) (cwd : Path) (absolute : Bool) (segs : List Name) (q : Path)
    (hres : resolveSpelling cwd absolute segs = above ++ q) :
    checkPath above (resolveSpelling cwd absolute segs) = q ∧
    hardExcluded above (resolveSpelling cwd absolute segs) = hardExcluded above (above ++ q) := by
  rw [hres]; exact ⟨checkPath_relocate above q, rfl⟩

/-! ### symbolic links -/

/-- without links the link-aware walk is the plain walk -/
theorem walkSegsL_nil (start : Path) (segs : List Name) : walkSegsL [] start segs = walkSegs start segs := by
  induction segs generalizing start with
  | nil => rfl
  | cons seg rest ih =>
    simp only [walkSegsL, walkSegs, follow, List.find?_nil, ih]

/-- **a spelling that goes through a link resolves to what the same spelling through the link's target
    resolves to**: reaching the project as `link/…` and as `proj/…` names the same files -/
theorem through_link (links : Links) (par : Path) (n : Name) (tgt : Path) (rest : List Name)
    (hn : isSpecial n = false) (h : follow links (par ++ [n]) = tgt) :
    walkSegsL links par (n :: rest) = walkSegsL links tgt rest := by
  simp only [isSpecial, Bool.or_eq_false_iff] at hn
  simp only [walkSegsL, hn.1.1, hn.1.2, hn.2, Bool.false_or, Bool.false_eq_true, if_false, h]

example : resolveSpellingL [(["w".toList, "link".toList], ["w".toList, "proj".toList])] ["w".toList] false
    ["link".toList, "src".toList, "..".toList, "lib".toList] = ["w".toList, "proj".toList, "lib".toList] := by decide

end ThaiLintModel.C09
