import ThaiLintModel.C09.Model
namespace ThaiLintModel.C09
open ThaiLintModel ThaiLintModel.C14

theorem relativeTo_append (above q : Path) : relativeTo above (above ++ q) = some q := by
  simp [relativeTo, List.isPrefixOf_iff_prefix]

/-- **Built-in exclusion is decided by the path inside the project**: wherever the project lives
    (`above` arbitrary — `build`, `dist`, `venv`, … included), a file is excluded iff its suffix is a
    compiled one or one of its directories *inside the project* is an always-excluded name. -/
theorem getLast?_append_cons (above : Path) (a : Name) (r : Path) :
    (above ++ a :: r).getLast? = (a :: r).getLast? := by
  rw [List.getLast?_append]
  cases h : (a :: r).getLast? with
  | none => simp at h
  | some x => simp

theorem hardExcluded_relocate (above above' q : Path) (hq : q ≠ []) :
    hardExcluded above (above ++ q) = hardExcluded above' (above' ++ q) := by
  cases q with
  | nil => exact absurd rfl hq
  | cons a r =>
    simp only [hardExcluded, dirPartsInProject, relativeTo_append, getLast?_append_cons]

theorem hardExcluded_eq_spec (above q : Path) (hq : q ≠ []) :
    hardExcluded above (above ++ q) = C14.hardExcluded [] q := by
  cases q with
  | nil => exact absurd rfl hq
  | cons a r =>
    simp only [hardExcluded, C14.hardExcluded, dirPartsInProject, relativeTo_append, getLast?_append_cons, dirParts, List.nil_append] <;> rfl

/-- **Repository ignore patterns see the path inside the project**, whatever leads to it -/
theorem checkPath_relocate (above q : Path) : checkPath above (above ++ q) = q := by
  simp [checkPath, relativeTo_append]

/-- a site that looks at the project-relative string cannot depend on the location -/
theorem markerHit_relocate (markers : List (List Char)) (above above' q : Path) :
    markerHit markers true above q = markerHit markers true above' q := rfl

/-- witness: a site that looks at the full path string does depend on it (a TypeScript file of a
    project under `…/test_data/` is exempted as "test code") -/
theorem markerHit_full_path_witness :
    markerHit ["test_".toList, "/tests/".toList] false ["tmp".toList, "test_data".toList] ["src".toList, "b.ts".toList] = true ∧
    markerHit ["test_".toList, "/tests/".toList] false ["tmp".toList, "work".toList] ["src".toList, "b.ts".toList] = false := by
  decide

/-- regression witness (fix bd0e3d3): a project under a directory called `build` -/
example : hardExcluded ["tmp".toList, "build".toList, "proj".toList]
    (["tmp".toList, "build".toList, "proj".toList] ++ ["src".toList, "a.py".toList]) = false ∧
    hardExcluded ["tmp".toList, "proj".toList] (["tmp".toList, "proj".toList] ++ ["build".toList, "a.py".toList]) = true := by
  decide

end ThaiLintModel.C09
