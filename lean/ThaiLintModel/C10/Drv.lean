/- C10 — driver glue -/
import ThaiLintModel.Core.J
import ThaiLintModel.C10.Model
namespace ThaiLintModel.C10
open Lean ThaiLintModel ThaiLintModel.Orch

def tableGet (t : Json) (k : String) : Option (List String) :=
  match t.getObjVal? k with
  | .ok (.arr a) => some (a.toList.filterMap (fun x => x.getStr?.toOption))
  | _ => none

def rulesOf (perfile fin : Json) : Rules Nat String Nat where
  perFile := fun f => (tableGet perfile (toString f)).getD ["<<missing perfile " ++ toString f ++ ">>"]
  collect := fun f => [f]
  finalize := fun es =>
    let k := String.intercalate "," ((es.mergeSort).map toString)
    (tableGet fin k).getD (if es.isEmpty then [] else ["<<missing fin " ++ k ++ ">>"])

def handle (j : Json) : Json :=
  match J.strD j "op" "cli" with
  | "filter" =>
    let rules := J.strsD j "rules"
    let ids := J.strsD j "ids"
    Json.mkObj [("passes", Json.arr (ids.map (fun r => Json.bool (apiPasses rules r))).toArray)]
  | _ =>
    let R := rulesOf ((j.getObjVal? "perfile").toOption.getD (Json.mkObj [])) ((j.getObjVal? "fin").toOption.getD (Json.mkObj []))
    let files := (J.nats j "files").toOption.getD []
    let dirs := (J.arrD j "dirs").toList.map fun d => (d.getArr?.toOption.getD #[]).toList.filterMap (fun x => x.getNat?.toOption)
    let merged := merge (files ++ dirs.flatten)
    Json.mkObj [("cli", J.ofStrs (cliLint R ⟨false⟩ files dirs)), ("merged", J.ofNats merged),
                ("needFin", String.intercalate "," ((merged.mergeSort).map toString))]

end ThaiLintModel.C10
