/-
C10 — directory, file-list, CLI and library runs agree.  Entry points over the orchestrator model:
`execute_linting_on_paths` (src/cli/utils.py) and `Linter.lint` / `_filter_violations` (src/api.py).
-/
import ThaiLintModel.Core.Orch
import ThaiLintModel.C15.Model
namespace ThaiLintModel.C10
open ThaiLintModel ThaiLintModel.Orch

variable {F V E : Type} [DecidableEq F]

/-- `_merge_targets`: every file once, first spelling wins -/
def merge (fs : List F) : List F := fs.eraseDups

/-- `execute_linting_on_paths(orchestrator, paths, recursive)` on a fresh orchestrator: `files` are the
    file arguments, `dirs` the directory arguments already expanded to the files they contribute -/
def cliLint (R : Rules F V E) (pol : Policy) (files : List F) (dirs : List (List F)) : List V :=
  if !dirs.isEmpty && (!files.isEmpty || dirs.length > 1) then
    (lintFiles R pol fresh (merge (files ++ dirs.flatten))).2          -- several targets: one pass
  else
    (if files.isEmpty then [] else (lintFiles R pol fresh files).2) ++
    (match dirs with
     | [d] => (lintFiles R pol fresh d).2
     | _ => [])

inductive Target (F : Type) where
  | file (f : F)
  | dir (contents : List F)

/-- `Linter.lint(path)` without rule filter -/
def apiLint (R : Rules F V E) (pol : Policy) : Target F → List V
  | .file f => (lintFiles R pol fresh [f]).2
  | .dir fs => (lintFiles R pol fresh fs).2

/-- `Linter._filter_violations`: full rule id or the linter it belongs to -/
def apiPasses (rules : List String) (rid : String) : Bool :=
  rules.contains rid || rules.any (fun r => r.toList == C15.linterOf rid)

end ThaiLintModel.C10
