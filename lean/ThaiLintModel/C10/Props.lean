import ThaiLintModel.C10.Model
namespace ThaiLintModel.C10
open ThaiLintModel ThaiLintModel.Orch

variable {F V E : Type} [DecidableEq F]

theorem lintLoop_store (R : Rules F V E) (s : St E) (fs : List F) :
    (lintLoop R s fs).1.store = s.store ++ fs.flatMap R.collect := by
  induction fs generalizing s with
  | nil => simp [lintLoop]
  | cons f fs ih => simp [lintLoop, lintFile, ih, List.append_assoc]

theorem lintLoop_violations (R : Rules F V E) (s : St E) (fs : List F) :
    (lintLoop R s fs).2 = fs.flatMap R.perFile := by
  induction fs generalizing s with
  | nil => simp [lintLoop]
  | cons f fs ih => simp [lintLoop, lintFile, ih]

theorem lintFiles_fresh (R : Rules F V E) (pol : Policy) (fs : List F) :
    (lintFiles R pol fresh fs).2 = fs.flatMap R.perFile ++ R.finalize (fs.flatMap R.collect) := by
  simp [lintFiles, lintLoop_violations, lintLoop_store, fresh]

/-- a rule set "judges files one at a time" when nothing is reported from `finalize` -/
def PerFileOnly (R : Rules F V E) : Prop := ∀ es, R.finalize es = []

/-- **Linting a list of files reports the union over the list** (per-file rules): exactly the
    concatenation, in order, of what each file reports when linted on its own. -/
theorem list_is_union (R : Rules F V E) (pol : Policy) (h : PerFileOnly R) (fs : List F) :
    (lintFiles R pol fresh fs).2 = fs.flatMap (fun f => (lintFiles R pol fresh [f]).2) := by
  simp [lintFiles_fresh, h _]

/-- **Linting a directory reports the union over the files it contains.** -/
theorem dir_is_union (R : Rules F V E) (pol : Policy) (h : PerFileOnly R) (contents : List F) :
    apiLint R pol (.dir contents) = contents.flatMap (fun f => apiLint R pol (.file f)) := by
  simp [apiLint, lintFiles_fresh, h _]

/-- for *all* rules (cross-file ones included) the per-file part of a run is that union, and the rest
    is `finalize` on the evidence of exactly the files of the run -/
theorem run_shape (R : Rules F V E) (pol : Policy) (fs : List F) :
    (lintFiles R pol fresh fs).2 = fs.flatMap R.perFile ++ R.finalize (fs.flatMap R.collect) :=
  lintFiles_fresh R pol fs

/-- **Library API = CLI**, single file and single directory, every rule (cross-file included). -/
theorem api_eq_cli_file (R : Rules F V E) (pol : Policy) (f : F) :
    apiLint R pol (.file f) = cliLint R pol [f] [] := by
  simp [apiLint, cliLint]

theorem api_eq_cli_dir (R : Rules F V E) (pol : Policy) (contents : List F) :
    apiLint R pol (.dir contents) = cliLint R pol [] [contents] := by
  simp [apiLint, cliLint]

/-- several CLI targets are one run over the union of their files -/
theorem multi_target_single_run (R : Rules F V E) (pol : Policy) (files : List F) (dirs : List (List F))
    (h : dirs ≠ [] ∧ (files ≠ [] ∨ dirs.length > 1)) :
    cliLint R pol files dirs = (lintFiles R pol fresh (merge (files ++ dirs.flatten))).2 := by
  obtain ⟨h1, h2⟩ := h
  have a : dirs.isEmpty = false := by cases dirs <;> simp_all
  have b : (!files.isEmpty || decide (dirs.length > 1)) = true := by
    rcases h2 with h2 | h2
    · cases files <;> simp_all
    · simp [h2]
  simp [cliLint, a, b]

/-- … so for per-file rules, mixed file and directory arguments report the union over the distinct files -/
theorem multi_target_union (R : Rules F V E) (pol : Policy) (hR : PerFileOnly R) (files : List F) (dirs : List (List F))
    (h : dirs ≠ [] ∧ (files ≠ [] ∨ dirs.length > 1)) :
    cliLint R pol files dirs = (merge (files ++ dirs.flatten)).flatMap (fun f => apiLint R pol (.file f)) := by
  rw [multi_target_single_run R pol files dirs h, list_is_union R pol hR]
  rfl

/-! ### `_merge_targets`: what "every file once, first spelling wins" means for every argument list -/

/-- merging drops no file and invents none -/
theorem mem_merge (fs : List F) (f : F) : f ∈ merge fs ↔ f ∈ fs := by simp [merge]

/-- after merging no file is linted twice, however often the arguments name it -/
theorem merge_nodup : ∀ (fs : List F), (merge fs).Nodup
  | [] => by simp [merge]
  | a :: as => by
    have : (as.filter fun b => !b == a).length < as.length + 1 :=
      Nat.lt_succ_of_le (List.length_filter_le _ _)
    have ih := merge_nodup (as.filter fun b => !b == a)
    simp only [merge] at ih ⊢
    rw [List.eraseDups_cons, List.nodup_cons]
    exact ⟨by simp, ih⟩
termination_by fs => fs.length

/-- arguments that name every file once are left exactly as given (order included) -/
theorem merge_of_nodup : ∀ (fs : List F), fs.Nodup → merge fs = fs
  | [], _ => by simp [merge]
  | a :: as, h => by
    rw [List.nodup_cons] at h
    have hf : as.filter (fun b => !b == a) = as := by
      rw [List.filter_eq_self]
      intro b hb
      have : b ≠ a := fun e => h.1 (e ▸ hb)
      simpa using this
    have ih := merge_of_nodup as h.2
    simp only [merge] at ih ⊢
    rw [List.eraseDups_cons, hf, ih]

/-- merging is idempotent -/
theorem merge_merge (fs : List F) : merge (merge fs) = merge fs :=
  merge_of_nodup _ (merge_nodup fs)

/-- a file named both explicitly and through a directory keeps its *first* position: the explicit
    files come first (deduplicated), then the directory files not already named -/
theorem merge_append (files ds : List F) :
    merge (files ++ ds) = merge files ++ merge (ds.removeAll files) := by
  simp [merge, List.eraseDups_append]

/-- **A file that is also inside a directory argument is reported once** (per-file rules): the
    violations of a mixed run are those of the distinct explicit files followed by those of the
    directory files that were not named explicitly. -/
theorem file_also_in_dir_reported_once (R : Rules F V E) (pol : Policy) (hR : PerFileOnly R)
    (files : List F) (dirs : List (List F)) (h : dirs ≠ [] ∧ (files ≠ [] ∨ dirs.length > 1)) :
    cliLint R pol files dirs =
      (merge files).flatMap R.perFile ++ (merge (dirs.flatten.removeAll files)).flatMap R.perFile := by
  rw [multi_target_single_run R pol files dirs h, lintFiles_fresh, hR _, merge_append]
  simp

/-- naming the same targets twice changes nothing, for every rule set (cross-file included) -/
theorem repeated_targets_irrelevant (R : Rules F V E) (pol : Policy) (fs : List F) :
    (lintFiles R pol fresh (merge (fs ++ fs))).2 = (lintFiles R pol fresh (merge fs)).2 := by
  have : merge (fs ++ fs) = merge fs := by
    rw [merge_append]
    have : fs.removeAll fs = [] := by
      simp [List.removeAll, List.filter_eq_nil_iff]
    simp [this, merge]
  rw [this]

example : merge [3, 1, 3, 2, 1] = [3, 1, 2] ∧ merge ([5, 6] ++ [6, 7, 5]) = [5, 6, 7] := by decide

/-- **Same rule, both entry points**: for every linter command that reports a whole linter and
    every rule id of the code base, the CLI command's filter and `Linter.lint(rules=[<linter>])`
    pass the same violations (tables regenerated from /repo). -/
def filtersAgree (row : String × C15.Own) (r : String) : Bool :=
  match row.2 with
  | .linter p => C15.cmdPasses row.1 r == apiPasses [p] r
  | .rule id => C15.cmdPasses row.1 r == apiPasses [id] r

theorem api_filter_eq_cli_filter :
    ∀ row ∈ C15.ownership, ∀ r ∈ Gen.Cli.ruleIds, filtersAgree row r = true := by
  decide +kernel

/-- non-vacuity / regression witness for the repaired findings F10a–F10c -/
def toy : Rules Nat String Nat where
  perFile := fun n => if n % 2 == 1 then [s!"odd {n}"] else []
  collect := fun n => [n / 10]
  finalize := fun es => (es.filter (fun e => es.count e > 1)).eraseDups.map (fun e => s!"dup {e}")

example : cliLint toy ⟨false⟩ [10, 11] [[12, 21]] = ["odd 11", "odd 21", "dup 1"] ∧
    cliLint toy ⟨false⟩ [11] [[11, 12]] = ["odd 11", "dup 1"] ∧
    apiLint toy ⟨false⟩ (.dir [10, 11, 12, 21]) = ["odd 11", "odd 21", "dup 1"] ∧
    apiPasses ["nesting"] "nesting.excessive-depth" = true ∧ apiPasses ["nesting"] "srp.violation" = false := by
  decide +kernel

end ThaiLintModel.C10
