/- C11 — driver glue -/
import ThaiLintModel.Core.J
import ThaiLintModel.C11.Props
namespace ThaiLintModel.C11
open Lean ThaiLintModel

def excOf (j : Json) : Exc :=
  match j with
  | .str "unicode" => .unicode
  | .str "value" => .value
  | _ => .other (j.getNat?.toOption.getD 0)

def excJson : Exc → Json
  | .unicode => "unicode"
  | .value => "value"
  | .other n => toJson n

def fileOf (j : Json) : FileRun String :=
  { file := J.natD j "file" 0,
    pre := match j.getObjVal? "pre" with
      | .ok (.str "skipped") => .skipped
      | .ok (.str "lint") => .lint
      | .ok o => .detectRaises (excOf ((o.getObjVal? "detect").toOption.getD Json.null))
      | .error _ => .lint,
    rules := (J.arrD j "rules").toList.filterMap fun e => match e with
      | .arr #[r, o] =>
        let rid := r.getNat?.toOption.getD 0
        (match o.getObjVal? "ok" with
         | .ok (.arr vs) => some (rid, Outcome.ok (vs.toList.map fun v => v.getStr?.toOption.getD ""))
         | _ => some (rid, Outcome.raises (excOf ((o.getObjVal? "raises").toOption.getD Json.null))))
      | _ => none }

def handle (j : Json) : Json :=
  let fs := (J.arrD j "files").toList.map fileOf
  let seq := lintAll fs
  let par := lintAllParallel fs
  let failsJson := fun (l : List Fail) => Json.arr (l.map fun f => Json.arr #[toJson f.file, toJson f.rule, excJson f.exc]).toArray
  Json.mkObj [("exit", exitCode seq),
              ("sequential", match seq with
                | .error e => Json.mkObj [("error", excJson e)]
                | .ok p => Json.mkObj [("vs", J.ofStrs p.1), ("fails", failsJson p.2)]),
              ("parallel", Json.mkObj [("vs", J.ofStrs par.1), ("fails", failsJson par.2)]),
              ("allContained", fs.all contained), ("allHealthy", fs.all healthy)]

end ThaiLintModel.C11
