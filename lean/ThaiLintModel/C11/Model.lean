/-
C11 — failure isolation.  Executable model (no Mathlib, no proofs) of what the orchestrator does with a
file whose analysis goes wrong (`Orchestrator.lint_file`, `_execute_rules`, `_safe_check_rule`,
`_lint_file_worker`, `src/orchestrator/core.py`; `handle_linting_error`, `src/cli/utils.py`).  What each
rule does on each file is a parameter: it returns violations or raises an exception of some class.
-/
namespace ThaiLintModel.C11

/-- classes of exception as `_safe_check_rule` tells them apart -/
inductive Exc where
  | unicode          -- UnicodeError (a ValueError, but isolated)
  | value            -- any other ValueError: re-raised as a configuration error
  | other (name : Nat)  -- everything else derived from Exception (RecursionError, AttributeError, …)
  deriving DecidableEq, Repr

inductive Outcome (V : Type) where
  | ok (vs : List V)
  | raises (e : Exc)
  deriving Repr

/-- what happens to a file before any rule runs -/
inductive Pre where
  | skipped                 -- hard-coded exclusion or repository-level ignore
  | detectRaises (e : Exc)  -- language detection runs outside the per-rule isolation
  | lint
  deriving DecidableEq, Repr

structure FileRun (V : Type) where
  file : Nat
  pre : Pre
  rules : List (Nat × Outcome V)   -- (rule, what its check() does on this file), in execution order

/-- a record of the failure tap H1: an exception that was swallowed -/
structure Fail where
  file : Nat
  rule : Nat
  exc : Exc
  deriving DecidableEq, Repr

abbrev Partial (V : Type) := Except Exc (List V × List Fail)

/-- `_execute_rules` with `_safe_check_rule` -/
def runRules {V : Type} (file : Nat) : List (Nat × Outcome V) → Partial V
  | [] => .ok ([], [])
  | (r, o) :: rest =>
    match o with
    | .raises .value => .error .value
    | .raises e =>
      (match runRules file rest with
       | .error x => .error x
       | .ok p => .ok (p.1, ⟨file, r, e⟩ :: p.2))
    | .ok vs =>
      (match runRules file rest with
       | .error x => .error x
       | .ok p => .ok (vs ++ p.1, p.2))

/-- `lint_file` -/
def lintFile {V : Type} (f : FileRun V) : Partial V :=
  match f.pre with
  | .skipped => .ok ([], [])
  | .detectRaises e => .error e
  | .lint => runRules f.file f.rules

/-- the sequential loop of `lint_files` / `lint_directory`: the first escaping exception ends the run -/
def lintAll {V : Type} : List (FileRun V) → Partial V
  | [] => .ok ([], [])
  | f :: fs =>
    match lintFile f with
    | .error e => .error e
    | .ok p =>
      (match lintAll fs with
       | .error e => .error e
       | .ok q => .ok (p.1 ++ q.1, p.2 ++ q.2))

/-- `_lint_file_worker`: in parallel mode every exception of a file's analysis is swallowed by the worker -/
def worker {V : Type} (f : FileRun V) : List V × List Fail :=
  match lintFile f with
  | .ok p => p
  | .error e => ([], [⟨f.file, 0, e⟩])

def lintAllParallel {V : Type} (fs : List (FileRun V)) : List V × List Fail :=
  fs.foldr (fun f acc => ((worker f).1 ++ acc.1, (worker f).2 ++ acc.2)) ([], [])

/-- exit status of a linter command: 2 through `handle_linting_error`, else 1 iff it has something to report -/
def exitCode {V : Type} : Partial V → Nat
  | .error _ => 2
  | .ok p => if p.1.isEmpty then 0 else 1

/-- a file is *contained* when nothing it does can escape: it is skipped, or language detection succeeds and
    no rule raises a non-Unicode ValueError -/
def contained {V : Type} (f : FileRun V) : Bool :=
  match f.pre with
  | .skipped => true
  | .detectRaises _ => false
  | .lint => f.rules.all fun ro => match ro.2 with | .raises .value => false | _ => true

/-- a file is *healthy* when every rule that runs on it analyses it -/
def healthy {V : Type} (f : FileRun V) : Bool :=
  match f.pre with
  | .skipped => true
  | .detectRaises _ => false
  | .lint => f.rules.all fun ro => match ro.2 with | .ok _ => true | _ => false

end ThaiLintModel.C11
