import ThaiLintModel.C11.Model
namespace ThaiLintModel.C11

variable {V : Type}

def noValue (rules : List (Nat × Outcome V)) : Bool := rules.all fun ro => match ro.2 with | .raises .value => false | _ => true

theorem runRules_ok_iff (file : Nat) (rules : List (Nat × Outcome V)) :
    (∃ p, runRules file rules = .ok p) ↔ noValue rules = true := by
  induction rules with
  | nil => simp [runRules, noValue]
  | cons ro rest ih =>
    obtain ⟨r, o⟩ := ro
    have hnv : noValue ((r, o) :: rest) = ((match o with | .raises .value => false | _ => true) && noValue rest) := by
      simp [noValue]
    rw [hnv]
    cases o with
    | ok vs =>
      simp only [runRules, Bool.true_and]
      rw [← ih]
      cases runRules file rest <;> simp
    | raises e =>
      cases e with
      | value => simp [runRules]
      | unicode =>
        simp only [runRules, Bool.true_and]
        rw [← ih]
        cases runRules file rest <;> simp
      | other n =>
        simp only [runRules, Bool.true_and]
        rw [← ih]
        cases runRules file rest <;> simp

theorem lintFile_ok_iff (f : FileRun V) : (∃ p, lintFile f = .ok p) ↔ contained f = true := by
  unfold lintFile contained
  cases f.pre with
  | skipped => simp
  | detectRaises e => simp
  | lint => exact runRules_ok_iff f.file f.rules

/-- **An offending file cannot disturb its siblings**: as long as the file is contained, the violations
    and failure records of the files before and after it are exactly those of the run without it — the
    file only adds its own — for every list of files and every behaviour of every rule -/
theorem siblings_unaffected (pre post : List (FileRun V)) (b : FileRun V) (h : contained b = true) :
    ∃ pb, lintFile b = .ok pb ∧
      lintAll (pre ++ b :: post) =
        (match lintAll pre, lintAll post with
         | .ok p, .ok q => .ok (p.1 ++ pb.1 ++ q.1, p.2 ++ pb.2 ++ q.2)
         | .error e, _ => .error e
         | .ok _, .error e => .error e) := by
  obtain ⟨pb, hpb⟩ := (lintFile_ok_iff b).mpr h
  refine ⟨pb, hpb, ?_⟩
  induction pre with
  | nil =>
    simp only [List.nil_append, lintAll, hpb]
    cases lintAll post <;> simp
  | cons f fs ih =>
    simp only [List.cons_append, lintAll]
    cases hf : lintFile f with
    | error e => simp
    | ok p =>
      simp only
      rw [ih]
      cases lintAll fs with
      | error e => simp
      | ok p2 => cases lintAll post <;> simp [List.append_assoc]

/-- … and the run without the file is the same formula without its share -/
theorem without_file (pre post : List (FileRun V)) :
    lintAll (pre ++ post) =
      (match lintAll pre, lintAll post with
       | .ok p, .ok q => .ok (p.1 ++ q.1, p.2 ++ q.2)
       | .error e, _ => .error e
       | .ok _, .error e => .error e) := by
  induction pre with
  | nil =>
    simp only [List.nil_append, lintAll]
    cases lintAll post <;> simp
  | cons f fs ih =>
    simp only [List.cons_append, lintAll]
    cases hf : lintFile f with
    | error e => simp
    | ok p =>
      simp only
      rw [ih]
      cases lintAll fs with
      | error e => simp
      | ok p2 => cases lintAll post <;> simp [List.append_assoc]

/-- **Exit code 0 or 1 exactly when every file is contained** (sequential mode) -/
theorem exit_ok_iff_contained (fs : List (FileRun V)) : exitCode (lintAll fs) ≠ 2 ↔ fs.all contained = true := by
  induction fs with
  | nil => simp [lintAll, exitCode]
  | cons f rest ih =>
    simp only [List.all_cons, Bool.and_eq_true, lintAll]
    cases hf : lintFile f with
    | error e =>
      have : contained f ≠ true := fun hc => by
        obtain ⟨p, hp⟩ := (lintFile_ok_iff f).mpr hc
        rw [hf] at hp; cases hp
      simp [exitCode, this]
    | ok p =>
      have hc : contained f = true := (lintFile_ok_iff f).mp ⟨p, hf⟩
      simp only [hc, true_and]
      rw [← ih]
      cases hr : lintAll rest with
      | error e => simp [exitCode]
      | ok q => simp only [exitCode]; constructor <;> intro _ <;> split <;> omega

/-- **No failure record means no rule abandoned its analysis**: in a run that completes with an empty
    failure log, every rule returned normally on every file it ran on — and conversely -/
theorem empty_log_iff_healthy (fs : List (FileRun V)) :
    (∃ vs, lintAll fs = .ok (vs, [])) ↔ fs.all healthy = true := by
  have hrules : ∀ (file : Nat) (rules : List (Nat × Outcome V)),
      (∃ vs, runRules file rules = .ok (vs, [])) ↔ (rules.all fun ro => match ro.2 with | .ok _ => true | _ => false) = true := by
    intro file rules
    induction rules with
    | nil => simp [runRules]
    | cons ro rest ih =>
      obtain ⟨r, o⟩ := ro
      simp only [List.all_cons, Bool.and_eq_true]
      cases o with
      | ok vs0 =>
        simp only [runRules, true_and]
        rw [← ih]
        cases hr : runRules file rest with
        | error e => simp
        | ok p =>
          obtain ⟨a, b⟩ := p
          simp only [Except.ok.injEq, Prod.mk.injEq]
          constructor
          · rintro ⟨vs, _, hb⟩; exact ⟨a, rfl, hb⟩
          · rintro ⟨vs, _, hb⟩; exact ⟨_, rfl, hb⟩
      | raises e =>
        cases e with
        | value => simp [runRules]
        | unicode =>
          simp only [runRules]
          cases runRules file rest <;> simp
        | other n =>
          simp only [runRules]
          cases runRules file rest <;> simp
  have hfile : ∀ f : FileRun V, (∃ vs, lintFile f = .ok (vs, [])) ↔ healthy f = true := by
    intro f
    unfold lintFile healthy
    cases f.pre with
    | skipped => simp
    | detectRaises e => simp
    | lint => exact hrules f.file f.rules
  induction fs with
  | nil => simp [lintAll]
  | cons f rest ih =>
    simp only [List.all_cons, Bool.and_eq_true, lintAll]
    constructor
    · rintro ⟨vs, hvs⟩
      cases hf : lintFile f with
      | error e => simp [hf] at hvs
      | ok p =>
        obtain ⟨a, b⟩ := p
        cases hr : lintAll rest with
        | error e => simp [hf, hr] at hvs
        | ok q =>
          obtain ⟨c, d⟩ := q
          simp only [hf, hr, Except.ok.injEq, Prod.mk.injEq, List.append_eq_nil_iff] at hvs
          obtain ⟨_, hb, hd⟩ := hvs
          subst hb; subst hd
          exact ⟨(hfile f).mp ⟨a, hf⟩, ih.mp ⟨c, hr⟩⟩
    · rintro ⟨h1, h2⟩
      obtain ⟨a, ha⟩ := (hfile f).mpr h1
      obtain ⟨c, hc⟩ := ih.mpr h2
      exact ⟨a ++ c, by simp [ha, hc]⟩

/-- in parallel mode nothing escapes a worker, and on contained files both modes report the same -/
theorem parallel_matches_sequential (fs : List (FileRun V)) (h : fs.all contained = true) :
    lintAll fs = .ok (lintAllParallel fs) := by
  induction fs with
  | nil => rfl
  | cons f rest ih =>
    simp only [List.all_cons, Bool.and_eq_true] at h
    obtain ⟨p, hp⟩ := (lintFile_ok_iff f).mpr h.1
    simp only [lintAll, hp, ih h.2, lintAllParallel, List.foldr_cons, worker]

/-- the one escape route that is not a configuration error (kept as documentation of the mechanism):
    language detection runs outside the per-rule isolation, so an exception there ends the whole run -/
theorem detection_is_not_isolated (pre post : List (FileRun V)) (b : FileRun V) (e : Exc) (hb : b.pre = .detectRaises e)
    (hpre : pre.all contained = true) : lintAll (pre ++ b :: post) = .error e := by
  induction pre with
  | nil => simp [lintAll, lintFile, hb]
  | cons f fs ih =>
    simp only [List.all_cons, Bool.and_eq_true] at hpre
    obtain ⟨p, hp⟩ := (lintFile_ok_iff f).mpr hpre.1
    simp [lintAll, hp, ih hpre.2]


theorem parallel_as_flatMap (fs : List (FileRun V)) :
    (lintAllParallel fs).1 = fs.flatMap (fun f => (worker f).1) ∧ (lintAllParallel fs).2 = fs.flatMap (fun f => (worker f).2) := by
  induction fs with
  | nil => exact ⟨rfl, rfl⟩
  | cons f rest ih =>
    simp only [lintAllParallel, List.foldr_cons, List.flatMap_cons] at ih ⊢
    exact ⟨by rw [ih.1], by rw [ih.2]⟩

/-- **The completion order of the workers does not matter**: any rearrangement of the files yields the same
    violations and the same failure records, rearranged -/
theorem parallel_order_independent (fs fs' : List (FileRun V)) (h : fs'.Perm fs) :
    (lintAllParallel fs').1.Perm (lintAllParallel fs).1 ∧ (lintAllParallel fs').2.Perm (lintAllParallel fs).2 := by
  rw [(parallel_as_flatMap fs).1, (parallel_as_flatMap fs).2, (parallel_as_flatMap fs').1, (parallel_as_flatMap fs').2]
  exact ⟨h.flatMap_right _, h.flatMap_right _⟩


/-! ## Non-vacuity -/

example : lintAll [⟨1, .lint, [(1, .ok [10]), (2, .raises (.other 7)), (3, .ok [11])]⟩, ⟨2, .skipped, [(1, .raises .value)]⟩, ⟨3, .lint, [(1, .ok [12])]⟩] =
    .ok ([10, 11, 12], [⟨1, 2, .other 7⟩]) := by rfl
example : exitCode (lintAll [⟨1, .lint, [(1, .ok [10]), (2, .raises .value)]⟩, ⟨3, .lint, [(1, .ok [12])]⟩]) = 2 := by decide
example : (lintAllParallel [⟨1, .lint, [(1, .ok [10]), (2, .raises .value)]⟩, ⟨3, .lint, [(1, .ok [12])]⟩]).1 = [12] := by decide

end ThaiLintModel.C11
