/- C12 — driver glue -/
import ThaiLintModel.Core.J
import ThaiLintModel.C12.Props
namespace ThaiLintModel.C12
open Lean ThaiLintModel

def handle (j : Json) : Json :=
  match J.strD j "op" "" with
  | "points" =>
    let text : List Nat := (J.nats j "text").toOption.getD []
    let lines := splitOn 10 text
    let res := (J.arrD j "positions").toList.map fun p =>
      match p with
      | .arr #[l, c] =>
        let line := l.getNat?.toOption.getD 0
        let col := c.getNat?.toOption.getD 0
        let off := offsetOf 10 text (line - 1) col
        let rep := reported 10 text off
        let lineTxt := lines.getD (line - 1) []
        Json.mkObj [("inLines", decide (1 ≤ line ∧ line ≤ lineCount 10 text)), ("colInLine", decide (col ≤ lineTxt.length)),
                    ("roundTrip", decide (col < lineTxt.length → rep = (line, col))), ("offset", off)]
      | _ => Json.null
    Json.mkObj [("lineCount", lineCount 10 text), ("splitLen", lines.length), ("positions", Json.arr res.toArray)]
  | "dry" =>
    let lines := (J.strsD j "lines").map String.toList
    let skipNums := (J.nats j "skip").toOption.getD []
    let norm : List (Option (List Char)) := (J.arrD j "norm").toList.map fun x => (x.getStr?.toOption.map String.toList)
    let k := J.natD j "k" 3
    -- the stateful normaliser/filter is supplied line by line by the harness (state = position)
    let step := fun (i : Nat) (_ : List Char) => (i + 1, (norm.getD i none))
    -- lines skipped as docstrings do not advance the normaliser in the implementation; the table is indexed by kept position
    let tr := tokenize step (fun n => skipNums.contains n) 0 lines
    let ws := windows k tr
    Json.mkObj [("tracked", Json.arr (tr.map fun t => Json.arr #[toJson t.1, Json.str (String.ofList t.2)]).toArray),
                ("windows", Json.arr (ws.map fun w => Json.mkObj [("start", w.start), ("stop", w.stop), ("snippet", J.ofStrs (w.snippet.map String.ofList))]).toArray)]
  | "splitLines" =>
    -- code points are sent as numbers: every character, including the ones JSON text would have to escape
    let text : List Char := ((J.nats j "text").toOption.getD []).map Char.ofNat
    Json.mkObj [("lines", Json.arr ((splitLines text).map fun l => Json.arr (l.map fun c => toJson c.toNat).toArray).toArray)]
  | _ => Json.mkObj [("error", "unknown op")]

end ThaiLintModel.C12
