/-
C12 — violation locations.  Executable model (no Mathlib, no proofs) of the coordinate arithmetic every
violation goes through: a construct is a node at an offset of the file's text; tree-sitter and Python's
`ast` report its position as (0-based row, column) — `pointOf` — and the linters publish `row + 1`
(`node.start_point[0] + 1`, `node.lineno`) as the line.  The text is a list over any alphabet with a
newline symbol (bytes for tree-sitter and `ast` columns, code points for `str.split`).
Second part: DRY's original-line tracking through docstring / comment / import removal
(`_tokenize_with_line_numbers`, `_rolling_hash_with_tracking`, `src/linters/dry/python_analyzer.py`).
-/
namespace ThaiLintModel.C12

variable {α : Type} [DecidableEq α]

/-- `text.split("\n")`: always at least one line; a trailing newline yields a last empty line -/
def splitOn (nl : α) : List α → List (List α)
  | [] => [[]]
  | c :: r =>
    if c = nl then [] :: splitOn nl r
    else match splitOn nl r with
      | h :: t => (c :: h) :: t
      | [] => [[c]]

/-- (row, column) of the character at offset `off` (rows and columns 0-based) -/
def pointOf (nl : α) : List α → Nat → Nat × Nat
  | [], _ => (0, 0)
  | _, 0 => (0, 0)
  | c :: r, off + 1 =>
    let p := pointOf nl r off
    if c = nl then (p.1 + 1, p.2) else (if p.1 = 0 then (0, p.2 + 1) else p)

/-- offset of a (row, column) position: inverse of `pointOf` -/
def offsetOf (nl : α) : List α → Nat → Nat → Nat
  | _, 0, col => col
  | [], _, _ => 0
  | c :: r, row + 1, col => if c = nl then 1 + offsetOf nl r row col else 1 + offsetOf nl r (row + 1) col

/-- what a linter publishes for a node starting at offset `off` -/
def reported (nl : α) (text : List α) (off : Nat) : Nat × Nat := ((pointOf nl text off).1 + 1, (pointOf nl text off).2)

/-- number of lines of a file as an editor counts them: a final newline does not start another line -/
def lineCount (nl : α) (text : List α) : Nat :=
  match (splitOn nl text).getLast? with
  | some [] => (splitOn nl text).length - 1
  | _ => (splitOn nl text).length

/-! ## DRY: tracking original line numbers through line removal -/

/-- `_tokenize_with_line_numbers`: lines are numbered from 1; docstring lines are dropped; each remaining
    line goes through a stateful normaliser/filter (`normalize_line`, multi-line import skipping) that either
    drops it or yields its normalised text -/
def tokenizeFrom {σ : Type} (step : σ → List α → σ × Option (List α)) (skip : Nat → Bool) : σ → Nat → List (List α) → List (Nat × List α)
  | _, _, [] => []
  | st, n, l :: rest =>
    if skip n then tokenizeFrom step skip st (n + 1) rest
    else
      let r := step st l
      match r.2 with
      | some t => (n, t) :: tokenizeFrom step skip r.1 (n + 1) rest
      | none => tokenizeFrom step skip r.1 (n + 1) rest

def tokenize {σ : Type} (step : σ → List α → σ × Option (List α)) (skip : Nat → Bool) (init : σ) (lines : List (List α)) : List (Nat × List α) :=
  tokenizeFrom step skip init 1 lines

structure Window (α : Type) where
  start : Nat
  stop : Nat
  snippet : List (List α)

/-- `_rolling_hash_with_tracking`: every run of `k` consecutive kept lines; the block is reported from the
    original number of its first kept line to that of its last one -/
def windows (k : Nat) : List (Nat × List α) → List (Window α)
  | [] => []
  | x :: rest =>
    let w := (x :: rest).take k
    if w.length = k ∧ 0 < k then ⟨x.1, (w.getLast?.getD x).1, w.map (·.2)⟩ :: windows k rest else []

/-! ## `split_lines` (src/core/constants.py): LF, CRLF and CR end a line, nothing else does -/

/-- `_LINE_END.split(text)` -/
def splitRaw : List Char → List (List Char)
  | [] => [[]]
  | '\r' :: '\n' :: r => [] :: splitRaw r
  | '\n' :: r => [] :: splitRaw r
  | '\r' :: r => [] :: splitRaw r
  | c :: r => match splitRaw r with
    | h :: t => (c :: h) :: t
    | [] => [[c]]

/-- `split_lines`: … and a final line end does not start another line -/
def splitLines (t : List Char) : List (List Char) :=
  match (splitRaw t).getLast? with
  | some [] => (splitRaw t).dropLast
  | _ => splitRaw t

end ThaiLintModel.C12
