import ThaiLintModel.C12.Model
namespace ThaiLintModel.C12

variable {α : Type} [DecidableEq α]

theorem splitOn_ne_nil (nl : α) (s : List α) : splitOn nl s ≠ [] := by
  induction s with
  | nil => simp [splitOn]
  | cons c r ih =>
    simp only [splitOn]
    split
    · simp
    · split <;> simp

theorem splitOn_cons_ne (nl c : α) (r : List α) (h : c ≠ nl) :
    ∃ hd tl, splitOn nl r = hd :: tl ∧ splitOn nl (c :: r) = (c :: hd) :: tl := by
  cases hs : splitOn nl r with
  | nil => exact absurd hs (splitOn_ne_nil nl r)
  | cons hd tl => exact ⟨hd, tl, rfl, by simp [splitOn, h, hs]⟩

/-- the row of any offset is a line of the file -/
theorem point_row_lt (nl : α) (s : List α) : ∀ off, (pointOf nl s off).1 < (splitOn nl s).length := by
  induction s with
  | nil => intro off; simp [pointOf, splitOn]
  | cons c r ih =>
    intro off
    cases off with
    | zero =>
      simp only [pointOf]
      exact List.length_pos_iff.mpr (splitOn_ne_nil nl (c :: r))
    | succ off =>
      simp only [pointOf]
      by_cases h : c = nl
      · simp only [h, if_true, splitOn, List.length_cons]
        have := ih off
        omega
      · obtain ⟨hd, tl, h1, h2⟩ := splitOn_cons_ne nl c r h
        have := ih off
        rw [h1] at this
        rw [h2]
        simp only [h, if_false, List.length_cons] at *
        split <;> simp_all <;> omega

/-- **The reported position is a real position**: for a node that starts at a character of the file (not
    a newline), the row is a line of the file and the column indexes exactly that character in it -/
theorem point_char (nl : α) (s : List α) : ∀ off (x : α), s[off]? = some x → x ≠ nl →
    ∃ line, (splitOn nl s)[(pointOf nl s off).1]? = some line ∧ line[(pointOf nl s off).2]? = some x := by
  induction s with
  | nil => intro off x h; simp at h
  | cons c r ih =>
    intro off x hx hne
    cases off with
    | zero =>
      simp only [List.getElem?_cons_zero, Option.some.injEq] at hx
      subst hx
      obtain ⟨hd, tl, _, h2⟩ := splitOn_cons_ne nl c r hne
      exact ⟨c :: hd, by simp [pointOf, h2], by simp [pointOf]⟩
    | succ off =>
      simp only [List.getElem?_cons_succ] at hx
      obtain ⟨line, hl1, hl2⟩ := ih off x hx hne
      simp only [pointOf]
      by_cases h : c = nl
      · exact ⟨line, by simp [h, splitOn, hl1], by simp [h, hl2]⟩
      · obtain ⟨hd, tl, h1, h2⟩ := splitOn_cons_ne nl c r h
        rw [h1] at hl1
        rw [h2]
        simp only [h, if_false]
        by_cases hp : (pointOf nl r off).1 = 0
        · simp only [hp, if_true, List.getElem?_cons_zero]
          rw [hp] at hl1
          simp only [List.getElem?_cons_zero, Option.some.injEq] at hl1
          subst hl1
          exact ⟨c :: hd, rfl, by simp [hl2]⟩
        · simp only [hp, if_false]
          obtain ⟨k, hk⟩ := Nat.exists_eq_succ_of_ne_zero hp
          rw [hk] at hl1 ⊢
          simp only [List.getElem?_cons_succ] at hl1 ⊢
          exact ⟨line, hl1, hl2⟩

/-- **1 ≤ line ≤ number of lines, column inside the line** — for every text (with or without final
    newline, any line endings) and every node that starts on a character -/
theorem reported_valid (nl : α) (s : List α) (off : Nat) (x : α) (hx : s[off]? = some x) (hne : x ≠ nl) :
    1 ≤ (reported nl s off).1 ∧ (reported nl s off).1 ≤ lineCount nl s ∧
    ∃ line, (splitOn nl s)[(reported nl s off).1 - 1]? = some line ∧ (reported nl s off).2 < line.length ∧ line[(reported nl s off).2]? = some x := by
  obtain ⟨line, h1, h2⟩ := point_char nl s off x hx hne
  have hrow := point_row_lt nl s off
  have hcol : (pointOf nl s off).2 < line.length := by
    rcases Nat.lt_or_ge (pointOf nl s off).2 line.length with hc | hc
    · exact hc
    · have : line[(pointOf nl s off).2]? = none := List.getElem?_eq_none hc
      rw [this] at h2; cases h2
  refine ⟨by simp [reported], ?_, ⟨line, by simpa [reported] using h1, by simpa [reported] using hcol, by simpa [reported] using h2⟩⟩
  simp only [reported, lineCount]
  cases hlast : (splitOn nl s).getLast? with
  | none => simp only; omega
  | some l =>
    cases l with
    | cons y ys => simp only; omega
    | nil =>
      simp only
      -- the last line is empty, the node's line is not: it is not the last one
      have hne' : (pointOf nl s off).1 ≠ (splitOn nl s).length - 1 := by
        intro heq
        rw [List.getLast?_eq_getElem?] at hlast
        rw [heq] at h1
        rw [hlast] at h1
        simp only [Option.some.injEq] at h1
        subst h1
        simp at hcol
      omega

theorem offsetOf_zero (nl : α) (s : List α) (col : Nat) : offsetOf nl s 0 col = col := by
  cases s <;> simp [offsetOf]

/-- positions and offsets determine each other -/
theorem offset_of_point (nl : α) (s : List α) : ∀ off, off ≤ s.length →
    offsetOf nl s (pointOf nl s off).1 (pointOf nl s off).2 = off := by
  induction s with
  | nil => intro off h; simp at h; subst h; simp [pointOf, offsetOf]
  | cons c r ih =>
    intro off h
    cases off with
    | zero => simp [pointOf, offsetOf]
    | succ off =>
      have ih' := ih off (by simp at h; omega)
      simp only [pointOf]
      by_cases hc : c = nl
      · simp only [hc, if_true, offsetOf]
        omega
      · simp only [hc, if_false]
        by_cases hp : (pointOf nl r off).1 = 0
        · simp only [hp, if_true]
          rw [hp, offsetOf_zero] at ih'
          rw [offsetOf_zero]; omega
        · simp only [hp, if_false]
          obtain ⟨k, hk⟩ := Nat.exists_eq_succ_of_ne_zero hp
          rw [hk] at ih' ⊢
          simp only [Nat.succ_eq_add_one] at ih' ⊢
          simp only [offsetOf, hc, if_false]
          omega

/-! ## Lines and text -/

/-- `"\n".join(lines)` -/
def joinOn (nl : α) : List (List α) → List α
  | [] => []
  | [l] => l
  | l :: rest => l ++ nl :: joinOn nl rest

/-- **Splitting into lines loses nothing**: joining the lines with the newline symbol gives the text back
    (so every character of the file lies on exactly one line, whatever the line endings) -/
theorem join_split (nl : α) (s : List α) : joinOn nl (splitOn nl s) = s := by
  induction s with
  | nil => rfl
  | cons c r ih =>
    by_cases h : c = nl
    · subst h
      simp only [splitOn, if_true]
      cases hs : splitOn c r with
      | nil => exact absurd hs (splitOn_ne_nil c r)
      | cons hd tl => rw [hs] at ih; simp [joinOn, ih]
    · obtain ⟨hd, tl, h1, h2⟩ := splitOn_cons_ne nl c r h
      rw [h2]
      rw [h1] at ih
      cases tl with
      | nil => simp [joinOn] at ih ⊢; exact ih
      | cons t ts => simp [joinOn] at ih ⊢; exact ih

/-- no line contains the newline symbol -/
theorem split_lines_clean (nl : α) (s : List α) : ∀ l ∈ splitOn nl s, nl ∉ l := by
  induction s with
  | nil => intro l hl; simp [splitOn] at hl; subst hl; simp
  | cons c r ih =>
    intro l hl
    by_cases h : c = nl
    · subst h
      simp only [splitOn, if_true, List.mem_cons] at hl
      rcases hl with rfl | hl
      · simp
      · exact ih l hl
    · obtain ⟨hd, tl, h1, h2⟩ := splitOn_cons_ne nl c r h
      rw [h2] at hl
      rw [h1] at ih
      simp only [List.mem_cons] at hl
      rcases hl with rfl | hl
      · intro hmem
        simp only [List.mem_cons] at hmem
        rcases hmem with heq | hmem
        · exact h heq.symm
        · exact ih hd (by simp) hmem
      · exact ih l (by simp [hl])

/-- the number of lines is the number of newline symbols plus one -/
theorem split_length (nl : α) (s : List α) : (splitOn nl s).length = s.count nl + 1 := by
  induction s with
  | nil => rfl
  | cons c r ih =>
    by_cases h : c = nl
    · subst h; simp [splitOn, ih]
    · obtain ⟨hd, tl, h1, h2⟩ := splitOn_cons_ne nl c r h
      rw [h2]; rw [h1] at ih
      have : (c == nl) = false := by simpa using h
      simp [List.count_cons, this] at ih ⊢
      exact ih


/-! ## DRY line tracking -/

theorem tokenize_valid {σ : Type} (step : σ → List α → σ × Option (List α)) (skip : Nat → Bool) (lines : List (List α)) :
    ∀ (st : σ) (n0 : Nat) (n : Nat) (t : List α), (n, t) ∈ tokenizeFrom step skip st n0 lines →
      n0 ≤ n ∧ n < n0 + lines.length ∧ skip n = false ∧ ∃ st' l, lines[n - n0]? = some l ∧ (step st' l).2 = some t := by
  induction lines with
  | nil => intro st n0 n t h; simp [tokenizeFrom] at h
  | cons l rest ih =>
    intro st n0 n t h
    simp only [tokenizeFrom] at h
    have lift : ∀ st2, (n, t) ∈ tokenizeFrom step skip st2 (n0 + 1) rest →
        n0 ≤ n ∧ n < n0 + (l :: rest).length ∧ skip n = false ∧ ∃ st' l', (l :: rest)[n - n0]? = some l' ∧ (step st' l').2 = some t := by
      intro st2 h2
      obtain ⟨a, b, c, st', l', hl, hs⟩ := ih st2 (n0 + 1) n t h2
      refine ⟨by omega, by simp only [List.length_cons]; omega, c, st', l', ?_, hs⟩
      have : n - n0 = (n - (n0 + 1)) + 1 := by omega
      rw [this, List.getElem?_cons_succ]; exact hl
    by_cases hs : skip n0 = true
    · simp only [hs, if_true] at h; exact lift _ h
    · simp only [hs, Bool.false_eq_true, if_false] at h
      cases hr : (step st l).2 with
      | none => simp only [hr] at h; exact lift _ h
      | some t' =>
        simp only [hr, List.mem_cons, Prod.mk.injEq] at h
        rcases h with ⟨h1, h2⟩ | h
        · subst h1; subst h2
          exact ⟨Nat.le_refl _, by simp, by simpa using hs, st, l, by simp, hr⟩
        · exact lift _ h

/-- the tracked numbers are strictly increasing: no line is counted twice, order is kept -/
theorem tokenize_increasing {σ : Type} (step : σ → List α → σ × Option (List α)) (skip : Nat → Bool) (lines : List (List α)) :
    ∀ (st : σ) (n0 : Nat), ((tokenizeFrom step skip st n0 lines).map (·.1)).Pairwise (· < ·) := by
  induction lines with
  | nil => intro st n0; simp [tokenizeFrom]
  | cons l rest ih =>
    intro st n0
    simp only [tokenizeFrom]
    by_cases hs : skip n0 = true
    · simp only [hs, if_true]; exact ih _ _
    · simp only [hs, Bool.false_eq_true, if_false]
      cases hr : (step st l).2 with
      | none => simp only; exact ih _ _
      | some t' =>
        simp only [List.map_cons, List.pairwise_cons]
        refine ⟨?_, ih _ _⟩
        intro m hm
        obtain ⟨⟨m', t⟩, hmem, rfl⟩ := List.mem_map.mp hm
        have := (tokenize_valid step skip rest _ (n0 + 1) m' t hmem).1
        omega

/-- **A duplicate-code block is reported at its first line**: every window starts at the original number
    of its first kept line, ends at the original number of its last kept line, and its snippet is the
    normalised text of exactly those `k` consecutive kept lines -/
theorem windows_spec (k : Nat) (tr : List (Nat × List α)) :
    ∀ w ∈ windows k tr, ∃ i x y, tr[i]? = some x ∧ tr[i + k - 1]? = some y ∧ w.start = x.1 ∧ w.stop = y.1 ∧
      w.snippet = ((tr.drop i).take k).map (·.2) ∧ w.snippet.length = k ∧ 0 < k := by
  induction tr with
  | nil => intro w h; simp [windows] at h
  | cons x rest ih =>
    intro w h
    simp only [windows] at h
    split at h
    · rename_i hk
      rcases List.mem_cons.mp h with rfl | h'
      · refine ⟨0, x, ((x :: rest).take k).getLast?.getD x, by simp, ?_, rfl, rfl, by simp, by rw [List.length_map]; exact hk.1, hk.2⟩
        have hlen := hk.1
        have hk0 := hk.2
        have : ((x :: rest).take k).getLast? = (x :: rest)[k - 1]? := by
          rw [List.getLast?_eq_getElem?, hlen, List.getElem?_take]
          simp; omega
        rw [this]
        have hlt : k - 1 < (x :: rest).length := by
          have := List.length_take_le k (x :: rest)
          have h2 : ((x :: rest).take k).length = min k (x :: rest).length := List.length_take
          omega
        simp only [Nat.zero_add]
        rw [List.getElem?_eq_getElem hlt]; simp
      · obtain ⟨i, a, b, h1, h2, h3, h4, h5, h6, h7⟩ := ih w h'
        refine ⟨i + 1, a, b, by simpa using h1, ?_, h3, h4, by simpa using h5, h6, h7⟩
        have : i + 1 + k - 1 = (i + k - 1) + 1 := by omega
        rw [this, List.getElem?_cons_succ]; exact h2
    · simp at h

/-- consequence for the reported line of a DRY violation: it is a line of the file that survived the
    removal of docstrings, comments, blanks and imports, and it opens the reported snippet -/
theorem dry_start_is_first_kept_line {σ : Type} (step : σ → List α → σ × Option (List α)) (skip : Nat → Bool) (init : σ)
    (lines : List (List α)) (k : Nat) (w : Window α) (hw : w ∈ windows k (tokenize step skip init lines)) :
    1 ≤ w.start ∧ w.start ≤ w.stop ∧ w.stop ≤ lines.length ∧ skip w.start = false ∧
    ∃ st' l, lines[w.start - 1]? = some l ∧ (step st' l).2 = w.snippet.head? := by
  obtain ⟨i, x, y, h1, h2, h3, h4, h5, h6, h7⟩ := windows_spec k _ w hw
  have hx := List.mem_of_getElem? h1
  have hy := List.mem_of_getElem? h2
  obtain ⟨a1, a2, a3, st', l, a4, a5⟩ := tokenize_valid step skip lines init 1 x.1 x.2 hx
  obtain ⟨b1, b2, _, _⟩ := tokenize_valid step skip lines init 1 y.1 y.2 hy
  have hinc := tokenize_increasing step skip lines init 1
  have hle : x.1 ≤ y.1 := by
    by_cases hik : i = i + k - 1
    · rw [← hik] at h2; rw [h1] at h2; cases h2; exact Nat.le_refl _
    · have hlt : i < i + k - 1 := by omega
      obtain ⟨hi1, e1⟩ := List.getElem?_eq_some_iff.mp h1
      obtain ⟨hi2, e2⟩ := List.getElem?_eq_some_iff.mp h2
      have hp := List.pairwise_iff_getElem.mp hinc i (i + k - 1) (by simpa [tokenize] using hi1) (by simpa [tokenize] using hi2) hlt
      simp only [List.getElem_map] at hp
      show x.1 ≤ y.1
      rw [← e1, ← e2]; exact Nat.le_of_lt hp
  refine ⟨by rw [h3]; exact a1, by rw [h3, h4]; exact hle, by rw [h4]; omega, by rw [h3]; exact a3, st', l, by rw [h3]; exact a4, ?_⟩
  rw [a5, h5]
  have hk0 : k ≠ 0 := by omega
  simp [List.head?_take, hk0, List.head?_drop, h1]

/-! ## Non-vacuity (tests on concrete texts, labelled as such) -/

example : reported 10 [97, 98, 10, 99, 100] 3 = (2, 0) ∧ lineCount 10 [97, 98, 10, 99, 100] = 2 ∧ lineCount 10 [97, 98, 10] = 1 ∧
    lineCount 10 ([] : List Nat) = 0 ∧ reported 10 [97, 13, 10, 13, 10, 98] 5 = (3, 0) := by decide
example : (windows 2 (tokenize (fun (st : Unit) (l : List Nat) => (st, if l.isEmpty then none else some l)) (fun n => n == 2) () [[1], [2], [], [3], [4]])).map
    (fun w => (w.start, w.stop)) = [(1, 4), (4, 5)] := by decide

/-! ## Splitting text into lines -/

theorem splitRaw_ne_nil : (t : List Char) → splitRaw t ≠ []
  | [] => by simp [splitRaw]
  | c :: r => by
    unfold splitRaw
    split <;> simp_all
    all_goals (split <;> simp_all)

theorem splitRaw_cons_other (c : Char) (r : List Char) (h1 : c ≠ '\n') (h2 : c ≠ '\r') :
    splitRaw (c :: r) = match splitRaw r with
      | h :: t => (c :: h) :: t
      | [] => [[c]] := by
  rw [splitRaw.eq_def]
  split
  · simp_all
  · simp_all
  · simp_all
  · simp_all
  · rename_i heq
    injection heq with h3 h4
    subst h3 h4
    rfl

/-- without carriage returns the lines are exactly the `\n`-separated pieces the coordinate model counts rows by -/
theorem splitRaw_no_cr : (t : List Char) → '\r' ∉ t → splitRaw t = splitOn '\n' t
  | [], _ => by simp [splitRaw, splitOn]
  | c :: r, h => by
    have hc : c ≠ '\r' := fun e => h (by simp [e])
    have hr : '\r' ∉ r := fun m => h (List.mem_cons_of_mem _ m)
    have ih := splitRaw_no_cr r hr
    by_cases hn : c = '\n'
    · subst hn; simp [splitRaw, splitOn, ih]
    · rw [splitRaw_cons_other c r hn hc, ih]
      simp only [splitOn, hn, if_false]
      cases splitOn '\n' r <;> rfl

theorem splitOn_length_cons (nl c : α) (r : List α) (h : c ≠ nl) : (splitOn nl (c :: r)).length = (splitOn nl r).length := by
  simp only [splitOn, h, if_false]
  cases hs : splitOn nl r with
  | nil => exact absurd hs (splitOn_ne_nil nl r)
  | cons x y => simp

/-- **a character that is not a line end never changes the number of lines, wherever it is inserted** (form feed, vertical
    tab, NEL, LINE SEPARATOR … are such characters for every consumer but `str.splitlines`) -/
theorem insert_keeps_line_count (nl c : α) (h : c ≠ nl) : (a b : List α) →
    (splitOn nl (a ++ c :: b)).length = (splitOn nl (a ++ b)).length
  | [], b => by simpa using splitOn_length_cons nl c b h
  | x :: a, b => by
    have ih := insert_keeps_line_count nl c h a b
    by_cases hx : x = nl
    · simp [splitOn, hx, ih]
    · simp only [List.cons_append, splitOn_length_cons nl x _ hx, ih]

example : splitLines "a\x0cb\nc d\r\ne\x85f\rg\n".toList = ["a\x0cb".toList, "c d".toList, "e\x85f".toList, "g".toList] := by decide

end ThaiLintModel.C12
