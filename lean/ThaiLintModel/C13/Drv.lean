/- C13 — driver glue -/
import ThaiLintModel.Core.J
import ThaiLintModel.C13.Props
namespace ThaiLintModel.C13
open Lean ThaiLintModel

def handle (j : Json) : Json :=
  match J.strD j "op" "" with
  | "lines" =>
    let marker := (J.strD j "marker" "#").toList
    let lines := (J.strsD j "lines").map String.toList
    Json.mkObj [("norm", J.ofStrs (lines.map fun l => String.ofList (normalizeLine l))),
                ("code", Json.arr (lines.map fun l => Json.bool (isCodeLine marker l)).toArray),
                ("noise", Json.arr (lines.map fun l => Json.bool (isNoise l)).toArray),
                ("loc", countLoc marker lines)]
  | "shift" =>
    let ps := (J.nats j "positions").toOption.getD []
    let ls := (J.nats j "lines").toOption.getD []
    Json.mkObj [("mapped", J.ofNats (ls.map (shiftMany ps)))]
  | _ => Json.mkObj [("error", "unknown op")]

end ThaiLintModel.C13
