/-
C13 — meaning-preserving edits.  Executable model (no Mathlib, no proofs) of the *text-based* steps of the
linters, the only places where layout can leak into a verdict (everything else works on the syntax tree):
  * `token_hasher.normalize_line` and DRY's line tracking (`tokenize`, `windows` of the C12 model),
  * `count_loc` (SRP size of a class: Python `#`, Rust / TypeScript `//`),
  * the line shift every violation must follow when lines are inserted above it.
-/
import ThaiLintModel.C12.Model
namespace ThaiLintModel.C13

abbrev Str := List Char
abbrev Line := Str

/-- Python's `str.isspace` (what `strip()` and `split()` remove) -/
def isPySpace (c : Char) : Bool :=
  c == ' ' || c == '\t' || c == '\n' || c == '\r' || c == '\x0b' || c == '\x0c' || c == '\x1c' || c == '\x1d' || c == '\x1e' || c == '\x1f' ||
  c == '\x85' || c == '\xa0' || c == '\u1680' || (0x2000 ≤ c.toNat && c.toNat ≤ 0x200a) || c == '\u2028' || c == '\u2029' || c == '\u202f' ||
  c == '\u205f' || c == '\u3000'

/-- `line.split()`: maximal runs of non-space characters -/
def words : Str → Str → List Str
  | [], cur => if cur.isEmpty then [] else [cur.reverse]
  | c :: r, cur =>
    if isPySpace c then (if cur.isEmpty then words r [] else cur.reverse :: words r [])
    else words r (c :: cur)

def joinSp : List Str → Str
  | [] => []
  | [w] => w
  | w :: r => w ++ ' ' :: joinSp r

/-- prefix before the first occurrence of `pat` (`line[: line.index(pat)]`), the whole line if absent -/
def cutAt (pat : Str) : Str → Str
  | [] => []
  | c :: r => if pat.isPrefixOf (c :: r) then [] else c :: cutAt pat r

/-- `_strip_comments`: Python comments first, then `//` comments -/
def stripComments (l : Line) : Line := cutAt ['/', '/'] (cutAt ['#'] l)

/-- `normalize_line` -/
def normalizeLine (l : Line) : Line := joinSp (words (stripComments l) [])

def lstrip (s : Str) : Str := s.dropWhile isPySpace
def strip (s : Str) : Str := ((lstrip s).reverse.dropWhile isPySpace).reverse

/-- a line counts as code for `count_loc` when it is not blank and does not start with the comment marker -/
def isCodeLine (marker : Str) (l : Line) : Bool := !(strip l).isEmpty && !marker.isPrefixOf (strip l)

def countLoc (marker : Str) (lines : List Line) : Nat := (lines.filter (isCodeLine marker)).length

/-! ## Edits and the line shift -/

/-- insert `l` so that it becomes line `pos` (1-based; `pos = n+1` appends) -/
def insertAt (lines : List Line) (pos : Nat) (l : Line) : List Line := lines.take (pos - 1) ++ l :: lines.drop (pos - 1)

/-- where a line of the old file is found after the insertion -/
def shift (pos : Nat) (n : Nat) : Nat := if pos ≤ n then n + 1 else n

/-- several insertions, given in the order they are applied (each position refers to the file as it is then) -/
def shiftMany : List Nat → Nat → Nat
  | [], n => n
  | p :: ps, n => shiftMany ps (shift p n)

/-- a line that DRY's tokenizer drops without touching its import state: blank, or only a comment -/
def isNoise (l : Line) : Bool := (normalizeLine l).isEmpty

end ThaiLintModel.C13
