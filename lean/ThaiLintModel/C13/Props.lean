import ThaiLintModel.C12.Props
import ThaiLintModel.C13.Model
namespace ThaiLintModel.C13
open ThaiLintModel.C12

/-! ## Line tracking under an inserted blank / comment line -/

theorem tokenize_shift_all {σ : Type} (step : σ → Line → σ × Option Line) (skip skip' : Nat → Bool) (lines : List Line) :
    ∀ (st : σ) (n0 : Nat), (∀ m, n0 ≤ m → skip' (m + 1) = skip m) →
      tokenizeFrom step skip' st (n0 + 1) lines = (tokenizeFrom step skip st n0 lines).map (fun t => (t.1 + 1, t.2)) := by
  induction lines with
  | nil => intro st n0 _; rfl
  | cons l rest ih =>
    intro st n0 h
    simp only [tokenizeFrom, h n0 (Nat.le_refl _)]
    have ih' := fun st2 => ih st2 (n0 + 1) (fun m hm => h m (by omega))
    by_cases hs : skip n0 = true
    · simp only [hs, if_true]; exact ih' st
    · simp only [hs, Bool.false_eq_true, if_false]
      cases hr : (step st l).2 with
      | none => simp only; exact ih' _
      | some t => simp only [List.map_cons]; rw [ih' _]

/-- **Inserting a line that the tokenizer drops (blank or comment-only) moves every tracked line below it
    down by one and changes nothing else** — for every stateful normaliser, every docstring set -/
theorem tokenize_insert {σ : Type} (step : σ → Line → σ × Option Line) (skip skip' : Nat → Bool) (x : Line)
    (hx : ∀ st, step st x = (st, none)) (post : List Line) :
    ∀ (pre : List Line) (st : σ) (n0 : Nat),
      (∀ m, m < n0 + pre.length → skip' m = skip m) → (∀ m, n0 + pre.length ≤ m → skip' (m + 1) = skip m) →
      tokenizeFrom step skip' st n0 (pre ++ x :: post) =
        (tokenizeFrom step skip st n0 (pre ++ post)).map (fun t => (shift (n0 + pre.length) t.1, t.2)) := by
  intro pre
  induction pre with
  | nil =>
    intro st n0 _ h2
    simp only [List.nil_append, List.length_nil, Nat.add_zero] at *
    have hdrop : tokenizeFrom step skip' st n0 (x :: post) = tokenizeFrom step skip' st (n0 + 1) post := by
      simp only [tokenizeFrom]
      by_cases hs : skip' n0 = true
      · simp [hs]
      · simp [hs, hx st]
    rw [hdrop, tokenize_shift_all step skip skip' post st n0 h2]
    apply List.map_congr_left
    intro t ht
    have := (tokenize_valid step skip post st n0 t.1 t.2 ht).1
    simp [shift, this]
  | cons l pre ih =>
    intro st n0 h1 h2
    simp only [List.cons_append, List.length_cons] at *
    simp only [tokenizeFrom, h1 n0 (by omega)]
    have ih' := fun st2 => ih st2 (n0 + 1) (fun m hm => h1 m (by omega)) (fun m hm => h2 m (by omega))
    have hpos : n0 + 1 + pre.length = n0 + (pre.length + 1) := by omega
    by_cases hs : skip n0 = true
    · simp only [hs, if_true]; rw [ih' st, hpos]
    · simp only [hs, Bool.false_eq_true, if_false]
      cases hr : (step st l).2 with
      | none => simp only; rw [ih' _, hpos]
      | some t =>
        simp only [List.map_cons]
        rw [ih' _, hpos]
        have hs0 : shift (n0 + (pre.length + 1)) n0 = n0 := by unfold shift; split <;> omega
        rw [hs0]

/-- windows commute with any renumbering of lines: same snippets, renumbered ends -/
theorem windows_renumber (f : Nat → Nat) (k : Nat) (tr : List (Nat × Line)) :
    windows k (tr.map fun t => (f t.1, t.2)) = (windows k tr).map fun w => ⟨f w.start, f w.stop, w.snippet⟩ := by
  induction tr with
  | nil => rfl
  | cons x rest ih =>
    have key : List.take k ((f x.1, x.2) :: rest.map fun t => (f t.1, t.2)) = (List.take k (x :: rest)).map fun t => (f t.1, t.2) := by
      rw [List.map_take]; rfl
    simp only [List.map_cons, windows, key, List.length_map]
    split
    · simp only [List.map_cons, ih, List.map_map]
      congr 1
      congr 1
      · rw [List.getLast?_map]
        cases ((x :: rest).take k).getLast? <;> rfl
    · rfl

/-- **DRY sees the same duplicate candidates after a blank / comment line is inserted**: same snippets,
    start and end moved by the line shift -/
theorem dry_windows_insert {σ : Type} (step : σ → Line → σ × Option Line) (skip skip' : Nat → Bool) (init : σ) (k : Nat) (x : Line)
    (hx : ∀ st, step st x = (st, none)) (pre post : List Line)
    (h1 : ∀ m, m < 1 + pre.length → skip' m = skip m) (h2 : ∀ m, 1 + pre.length ≤ m → skip' (m + 1) = skip m) :
    windows k (tokenize step skip' init (pre ++ x :: post)) =
      (windows k (tokenize step skip init (pre ++ post))).map fun w => ⟨shift (1 + pre.length) w.start, shift (1 + pre.length) w.stop, w.snippet⟩ := by
  unfold tokenize
  rw [tokenize_insert step skip skip' x hx post pre init 1 h1 h2, windows_renumber]

/-! ## `count_loc` does not see layout -/

theorem countLoc_insert (marker : Str) (lines : List Line) (pos : Nat) (x : Line) (hx : isCodeLine marker x = false) :
    countLoc marker (insertAt lines pos x) = countLoc marker lines := by
  unfold countLoc insertAt
  rw [List.filter_append, List.filter_cons, hx]
  simp only [Bool.false_eq_true, if_false]
  rw [← List.filter_append, List.take_append_drop]

/-- any edit that leaves every line's stripped text alone (trailing white space, CR line ends,
    consistent re-indentation) leaves the size alone -/
theorem countLoc_layout (marker : Str) (lines : List Line) (f : Line → Line) (hf : ∀ l, strip (f l) = strip l) :
    countLoc marker (lines.map f) = countLoc marker lines := by
  unfold countLoc
  rw [List.filter_map, List.length_map]
  congr 1
  apply List.filter_congr
  intro l _
  simp [isCodeLine, Function.comp, hf l]

theorem dropWhile_append_all (p : Char → Bool) (ws l : Str) (h : ∀ c ∈ ws, p c = true) : (ws ++ l).dropWhile p = l.dropWhile p := by
  induction ws with
  | nil => rfl
  | cons c r ih =>
    simp only [List.cons_append, List.dropWhile_cons, h c (by simp), if_true]
    exact ih (fun c' hc' => h c' (by simp [hc']))

theorem strip_leading_ws (ws l : Str) (h : ∀ c ∈ ws, isPySpace c = true) : strip (ws ++ l) = strip l := by
  unfold strip lstrip
  rw [dropWhile_append_all isPySpace ws l h]

theorem lstrip_append (l ws : Str) (h : ∀ c ∈ ws, isPySpace c = true) :
    ∃ ws', (∀ c ∈ ws', isPySpace c = true) ∧ lstrip (l ++ ws) = lstrip l ++ ws' := by
  induction l with
  | nil =>
    refine ⟨[], by simp, ?_⟩
    simp only [List.nil_append, lstrip, List.dropWhile_nil, List.append_nil]
    have := dropWhile_append_all isPySpace ws [] h
    simpa using this
  | cons c r ih =>
    by_cases hc : isPySpace c = true
    · obtain ⟨ws', h1, h2⟩ := ih
      refine ⟨ws', h1, ?_⟩
      simp only [lstrip, List.cons_append, List.dropWhile_cons, hc, if_true] at *
      exact h2
    · exact ⟨ws, h, by simp [lstrip, List.dropWhile_cons, hc]⟩

theorem strip_trailing_ws (l ws : Str) (h : ∀ c ∈ ws, isPySpace c = true) : strip (l ++ ws) = strip l := by
  obtain ⟨ws', h1, h2⟩ := lstrip_append l ws h
  unfold strip
  rw [h2, List.reverse_append]
  rw [dropWhile_append_all isPySpace ws'.reverse (lstrip l).reverse (by intro c hc; exact h1 c (List.mem_reverse.mp hc))]

/-- trailing white space, a CR before the line feed, and leading indentation are invisible to `count_loc` -/
theorem countLoc_trailing_ws (marker : Str) (lines : List Line) (ws : Line → Str) (h : ∀ l, ∀ c ∈ ws l, isPySpace c = true) :
    countLoc marker (lines.map fun l => l ++ ws l) = countLoc marker lines :=
  countLoc_layout marker lines _ (fun l => strip_trailing_ws l (ws l) (h l))

theorem countLoc_reindent (marker : Str) (lines : List Line) (ind : Line → Str) (h : ∀ l, ∀ c ∈ ind l, isPySpace c = true) :
    countLoc marker (lines.map fun l => ind l ++ l) = countLoc marker lines :=
  countLoc_layout marker lines _ (fun l => strip_leading_ws (ind l) l (h l))

theorem blank_is_not_code (marker ws : Str) (h : ∀ c ∈ ws, isPySpace c = true) : isCodeLine marker ws = false := by
  have : strip ws = [] := by
    have := strip_leading_ws ws [] h
    simpa [strip, lstrip] using this
  simp [isCodeLine, this]

/-! ## The line shift of violations -/

theorem shift_below (pos n : Nat) (h : n < pos) : shift pos n = n := by simp [shift]; omega
theorem shift_at_or_above (pos n : Nat) (h : pos ≤ n) : shift pos n = n + 1 := by simp [shift, h]

/-- the old line's text is found at the shifted position of the new file -/
theorem insertAt_get (lines : List Line) (pos n : Nat) (x : Line) (hpos : 1 ≤ pos) (hp : pos ≤ lines.length + 1) (hn : 1 ≤ n) :
    (insertAt lines pos x)[shift pos n - 1]? = lines[n - 1]? := by
  unfold insertAt shift
  by_cases h : pos ≤ n
  · simp only [h, if_true]
    have hlen : (lines.take (pos - 1)).length = pos - 1 := by simp [List.length_take]; omega
    rw [List.getElem?_append_right (by omega), hlen]
    have : n + 1 - 1 - (pos - 1) = (n - pos) + 1 := by omega
    rw [this, List.getElem?_cons_succ, List.getElem?_drop]
    congr 1; omega
  · simp only [h, if_false]
    have hlen : (lines.take (pos - 1)).length = pos - 1 := by simp [List.length_take]; omega
    rw [List.getElem?_append_left (by omega), List.getElem?_take]
    simp; omega

/-- several insertions move a line by exactly the number of lines inserted at or above it -/
theorem shiftMany_ge (ps : List Nat) (n : Nat) : n ≤ shiftMany ps n ∧ shiftMany ps n ≤ n + ps.length := by
  induction ps generalizing n with
  | nil => simp [shiftMany]
  | cons p ps ih =>
    simp only [shiftMany, List.length_cons]
    have := ih (shift p n)
    by_cases h : p ≤ n
    · rw [shift_at_or_above p n h] at this ⊢; omega
    · rw [shift_below p n (by omega)] at this ⊢; omega

/-- one insertion keeps the order of the old lines: two findings never swap places or land on one line -/
theorem shift_strictMono (pos a b : Nat) (h : a < b) : shift pos a < shift pos b := by
  unfold shift; split <;> split <;> omega

/-- … and so does any sequence of insertions -/
theorem shiftMany_strictMono (ps : List Nat) (a b : Nat) (h : a < b) : shiftMany ps a < shiftMany ps b := by
  induction ps generalizing a b with
  | nil => simpa [shiftMany]
  | cons p ps ih => exact ih _ _ (shift_strictMono p a b h)

/-- distinct lines stay distinct: the renumbering never merges two findings -/
theorem shiftMany_injective (ps : List Nat) (a b : Nat) (h : shiftMany ps a = shiftMany ps b) : a = b := by
  rcases Nat.lt_trichotomy a b with hlt | heq | hgt
  · have := shiftMany_strictMono ps a b hlt; omega
  · exact heq
  · have := shiftMany_strictMono ps b a hgt; omega

/-- insertions applied in two batches renumber like one batch -/
theorem shiftMany_append (ps qs : List Nat) (n : Nat) : shiftMany (ps ++ qs) n = shiftMany qs (shiftMany ps n) := by
  induction ps generalizing n with
  | nil => rfl
  | cons p ps ih => simp [shiftMany, ih]

/-- the distance between two findings never shrinks and grows by at most the number of inserted lines -/
theorem shiftMany_distance (ps : List Nat) (a b : Nat) (h : a ≤ b) :
    b - a ≤ shiftMany ps b - shiftMany ps a ∧ shiftMany ps b - shiftMany ps a ≤ b - a + ps.length := by
  induction ps generalizing a b with
  | nil => simp [shiftMany]
  | cons p ps ih =>
    simp only [shiftMany, List.length_cons]
    have hs : shift p a ≤ shift p b := by unfold shift; split <;> split <;> omega
    have hd : b - a ≤ shift p b - shift p a ∧ shift p b - shift p a ≤ b - a + 1 := by
      unfold shift; split <;> split <;> omega
    have := ih (shift p a) (shift p b) hs
    omega

/-! ## `normalize_line` does not see layout -/




theorem words_trailing_ws (ws : Str) (h : ∀ c ∈ ws, isPySpace c = true) : ∀ (l cur : Str), words (l ++ ws) cur = words l cur := by
  intro l
  induction l with
  | nil =>
    intro cur
    simp only [List.nil_append]
    induction ws generalizing cur with
    | nil => rfl
    | cons c r ih =>
      have hc := h c (by simp)
      have hr : ∀ c' ∈ r, isPySpace c' = true := fun c' hc' => h c' (by simp [hc'])
      simp only [words, hc, if_true]
      by_cases he : cur.isEmpty = true
      · simp only [he, if_true]
        rw [ih hr []]
        simp [words, he]
      · simp only [he, Bool.false_eq_true, if_false]
        rw [ih hr []]
        simp [words, he]
  | cons c r ih =>
    intro cur
    simp only [List.cons_append, words]
    by_cases hc : isPySpace c = true
    · simp only [hc, if_true]
      by_cases he : cur.isEmpty = true
      · simp only [he, if_true]; exact ih []
      · simp only [he, Bool.false_eq_true, if_false]; rw [ih []]
    · simp only [hc, Bool.false_eq_true, if_false]; exact ih _

theorem words_leading_ws (ws : Str) (h : ∀ c ∈ ws, isPySpace c = true) (l : Str) : words (ws ++ l) [] = words l [] := by
  induction ws with
  | nil => rfl
  | cons c r ih =>
    have hc := h c (by simp)
    simp only [List.cons_append, words, hc, if_true, List.isEmpty_nil]
    exact ih (fun c' hc' => h c' (by simp [hc']))



theorem isPrefixOf_append_ws (ws : Str) (hws : ∀ c ∈ ws, isPySpace c = true) :
    ∀ (pat l : Str), (∀ c ∈ pat, isPySpace c = false) → pat.isPrefixOf (l ++ ws) = pat.isPrefixOf l := by
  intro pat
  induction pat with
  | nil => intro l _; simp
  | cons p ps ih =>
    intro l hp
    cases l with
    | nil =>
      simp only [List.nil_append]
      cases ws with
      | nil => rfl
      | cons w wr =>
        have h1 := hws w (by simp)
        have h2 := hp p (by simp)
        have : (p == w) = false := by
          cases hh : (p == w) with
          | false => rfl
          | true => have : p = w := by simpa using hh
                    subst this; rw [h1] at h2; cases h2
        simp [List.isPrefixOf, this]
    | cons c r =>
      simp only [List.cons_append, List.isPrefixOf]
      rw [ih r (fun c' hc' => hp c' (by simp [hc']))]

theorem cutAt_append_ws (pat ws : Str) (hws : ∀ c ∈ ws, isPySpace c = true) (hp : ∀ c ∈ pat, isPySpace c = false) (hne : pat ≠ []) :
    ∀ l : Str, ∃ ws', (∀ c ∈ ws', isPySpace c = true) ∧ cutAt pat (l ++ ws) = cutAt pat l ++ ws' := by
  intro l
  induction l with
  | nil =>
    -- cutting an all-space string at a non-space pattern keeps it
    refine ⟨ws, hws, ?_⟩
    simp only [List.nil_append, cutAt, List.nil_append]
    induction ws with
    | nil => rfl
    | cons w wr ih =>
      have hw := hws w (by simp)
      have hpre : pat.isPrefixOf (w :: wr) = false := by
        cases pat with
        | nil => exact absurd rfl hne
        | cons p ps =>
          have h2 := hp p (by simp)
          have : (p == w) = false := by
            cases hh : (p == w) with
            | false => rfl
            | true => have : p = w := by simpa using hh
                      subst this; rw [hw] at h2; cases h2
          simp [List.isPrefixOf, this]
      simp only [cutAt, hpre, Bool.false_eq_true, if_false]
      rw [ih (fun c hc => hws c (by simp [hc]))]
  | cons c r ih =>
    obtain ⟨ws', h1, h2⟩ := ih
    simp only [List.cons_append, cutAt]
    have := isPrefixOf_append_ws ws hws pat (c :: r) hp
    simp only [List.cons_append] at this
    rw [this]
    by_cases hpre : pat.isPrefixOf (c :: r) = true
    · exact ⟨[], by simp, by simp [hpre]⟩
    · refine ⟨ws', h1, ?_⟩
      simp only [hpre, Bool.false_eq_true, if_false, h2, List.cons_append]

theorem cutAt_leading_ws (pat ws : Str) (hws : ∀ c ∈ ws, isPySpace c = true) (hp : ∀ c ∈ pat, isPySpace c = false) (hne : pat ≠ []) (l : Str) :
    cutAt pat (ws ++ l) = ws ++ cutAt pat l := by
  induction ws with
  | nil => rfl
  | cons w wr ih =>
    have hw := hws w (by simp)
    have hpre : pat.isPrefixOf (w :: (wr ++ l)) = false := by
      cases pat with
      | nil => exact absurd rfl hne
      | cons p ps =>
        have h2 := hp p (by simp)
        have : (p == w) = false := by
          cases hh : (p == w) with
          | false => rfl
          | true => have : p = w := by simpa using hh
                    subst this; rw [hw] at h2; cases h2
        simp [List.isPrefixOf, this]
    simp only [List.cons_append, cutAt, hpre, Bool.false_eq_true, if_false]
    rw [ih (fun c hc => hws c (by simp [hc]))]

/-- **`normalize_line` is blind to trailing white space** (also a CR before the line feed) -/
theorem normalize_trailing_ws (l ws : Str) (hws : ∀ c ∈ ws, isPySpace c = true) : normalizeLine (l ++ ws) = normalizeLine l := by
  unfold normalizeLine stripComments
  obtain ⟨w1, h1, e1⟩ := cutAt_append_ws ['#'] ws hws (by decide) (by simp) l
  rw [e1]
  obtain ⟨w2, h2, e2⟩ := cutAt_append_ws ['/', '/'] w1 h1 (by decide) (by simp) (cutAt ['#'] l)
  rw [e2, words_trailing_ws w2 h2]

/-- **… and to indentation** -/
theorem normalize_leading_ws (ws l : Str) (hws : ∀ c ∈ ws, isPySpace c = true) : normalizeLine (ws ++ l) = normalizeLine l := by
  unfold normalizeLine stripComments
  rw [cutAt_leading_ws ['#'] ws hws (by decide) (by simp), cutAt_leading_ws ['/', '/'] ws hws (by decide) (by simp), words_leading_ws ws hws]

/-- so a blank line, and a line that holds only a comment, are noise for DRY's tokenizer wherever they are indented -/
theorem blank_is_noise (ws : Str) (hws : ∀ c ∈ ws, isPySpace c = true) : isNoise ws = true := by
  have := normalize_leading_ws ws [] hws
  simp only [List.append_nil] at this
  unfold isNoise
  rw [this]
  rfl

theorem comment_is_noise (ws rest : Str) (hws : ∀ c ∈ ws, isPySpace c = true) : isNoise (ws ++ '#' :: rest) = true ∧ isNoise (ws ++ '/' :: '/' :: rest) = true := by
  constructor
  · simp only [isNoise, normalize_leading_ws ws _ hws]
    simp [normalizeLine, stripComments, cutAt, List.isPrefixOf, words, joinSp]
  · simp only [isNoise, normalize_leading_ws ws _ hws]
    have h1 : cutAt ['#'] ('/' :: '/' :: rest) = '/' :: '/' :: cutAt ['#'] rest := by
      simp [cutAt, List.isPrefixOf]
    simp [normalizeLine, stripComments, h1, cutAt, List.isPrefixOf, words, joinSp]


/-! ## Non-vacuity (tests, labelled as such) -/

example : normalizeLine "    total  =  a +\tb   # sum ".toList = "total = a + b".toList ∧ isNoise "   // note".toList = true ∧ isNoise "\t \r".toList = true ∧
    countLoc "#".toList ["class A:".toList, "".toList, "    # c".toList, "    x = 1\r".toList] = 2 ∧
    shiftMany [3, 1, 10] 3 = 5 := by decide

end ThaiLintModel.C13
