/- C14 — driver glue (JSON in/out). Not part of any proof. -/
import ThaiLintModel.Core.J
import ThaiLintModel.C14.Model
namespace ThaiLintModel.C14
open Lean ThaiLintModel

instance : Inhabited Node := ⟨.file []⟩
instance : Inhabited Nodes := ⟨.nil⟩

mutual
  partial def nodeOf (j : Json) : Node :=
    match j.getObjValAs? String "f" with
    | .ok n => .file n.toList
    | _ => .dir (J.strD j "d" "d").toList (nodesOf ((j.getObjVal? "k").toOption.getD (Json.arr #[])))
  partial def nodesOf (j : Json) : Nodes :=
    match j with
    | .arr a => a.foldr (fun x acc => .cons (nodeOf x) acc) .nil
    | _ => .nil
end

def formOf (j : Json) : Form :=
  match J.strD j "form" "" with
  | "dir" => .dirName (J.strD j "n" "").toList
  | "anydir" => .anyDirName (J.strD j "n" "").toList
  | "ext" => .ext (J.strD j "n" "").toList
  | "globdir" => .globDir (J.boolD j "any" false) (J.strD j "n" "").toList
  | "dirpath" => .dirPath ((J.strsD j "p").map String.toList)
  | "anyfile" => .anyFile (J.strD j "n" "").toList
  | _ => .exact ((J.strsD j "p").map String.toList)

def showPath (p : Path) : String := String.ofList (joinPath p)

def Form.implMatch (p : Path) (f : Form) : Bool := matchesPattern p f.render

def explainPath (rel : Path) (forms : List Form) (p : Path) : List String :=
  (if hardExcluded rel p != (specExcluded p || rel.any dirExcluded) then ["unexplained-exclusion"] else []) ++
  (forms.filterMap fun f =>
    if f.implMatch (rel ++ p) == f.specMatch (rel ++ p) then none else some "unexplained-pattern")

def handle (j : Json) : Json :=
  let t := nodesOf ((j.getObjVal? "tree").toOption.getD (Json.arr #[]))
  let forms := (J.arrD j "forms").toList.map formOf
  let recursive := J.boolD j "recursive" true
  let rel := (J.strsD j "rel").map String.toList
  let pats := forms.map Form.render
  let lintedM := linted recursive rel pats t
  let specL := specLinted recursive rel forms t
  let univ := if recursive then allFiles [] t else topFiles t
  let devs := univ.filterMap fun p =>
    if lintedM.contains p == specL.contains p then none
    else some (Json.mkObj [("path", showPath p), ("explain", J.ofStrs (explainPath rel forms p).eraseDups)])
  let explicit := (J.arrD j "explicit").toList.map fun pj =>
    let p := ((pj.getArr?.toOption.getD #[]).toList.filterMap (fun x => x.getStr?.toOption)).map String.toList
    Json.mkObj [("path", showPath p), ("linted", lintedExplicit rel pats p),
                ("spec", !specExcluded p && !rel.any dirExcluded && !forms.any (fun f => f.specMatch (rel ++ p)))]
  let targets : List Target := (J.arrD j "targets").toList.map fun tj =>
    match tj.getObjVal? "file" with
    | .ok fj => .file ((J.strsD tj "file").map String.toList)
    | .error _ => .dir ((J.strsD tj "dir").map String.toList)
  let multi := lintedTargets recursive pats t targets
  Json.mkObj [("patterns", J.ofStrs (pats.map String.ofList)), ("wf", forms.all Form.wf), ("multi", J.ofStrs (multi.map showPath)),
    ("linted", J.ofStrs (lintedM.map showPath)), ("spec", J.ofStrs (specL.map showPath)),
    ("deviations", Json.arr devs.toArray), ("explicit", Json.arr explicit.toArray),
    ("universe", J.ofStrs (univ.map showPath))]

end ThaiLintModel.C14
