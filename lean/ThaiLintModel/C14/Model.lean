/-
C14 — which files a run lints.  Executable model (no Mathlib, no proofs) of
`_collect_files_fast`, `_is_hardcoded_excluded`, `IgnoreDirectiveParser.is_ignored`,
`matches_pattern`, `_matches_directory_pattern`, `extract_patterns_from_content`
and the specification they are measured against.
-/
import ThaiLintModel.Core.Glob
import ThaiLintModel.Gen.Orch
namespace ThaiLintModel.C14
open ThaiLintModel

/-! ## Directory trees -/
abbrev Name := List Char   -- a path component (never contains '/')

mutual
  inductive Node where
    | file (name : Name)
    | dir (name : Name) (kids : Nodes)
  inductive Nodes where
    | nil
    | cons (h : Node) (t : Nodes)
end

abbrev Path := List Name    -- components below the lint target

/-! ## Tables (regenerated from /repo) -/
def exclDirs : List Name := Gen.Orch.excludedDirs.map String.toList
def exclExts : List Name := Gen.Orch.excludedExts.map String.toList

/-- `PurePath(name).suffix` (Python 3.12): text from the last dot, unless that dot is the first or
    the last character of the name -/
def suffixChars (cs : List Char) : List Char :=
  let rec go (acc : List Char) (rest : List Char) (best : Option (List Char)) (first : Bool) : Option (List Char) :=
    match rest with
    | [] => best
    | c :: t =>
      if c == '.' && !first && !t.isEmpty then go (acc ++ [c]) t (some (c :: t)) false
      else go (acc ++ [c]) t best false
  (go [] cs none true).getD []
def extExcluded (name : Name) : Bool := exclExts.contains (suffixChars name)
/-- `_should_include_dir` negated; also the per-part test of `_is_hardcoded_excluded` -/
def eggInfo : Name := ".egg-info".toList
def dirExcluded (name : Name) : Bool := exclDirs.contains name || eggInfo.isSuffixOf name

/-! ## The walk (`_collect_files_fast`) -/
mutual
  /-- files reached below a directory whose path (below the target) is `pre` -/
  def walk (pre : Path) : Nodes → List Path
    | .nil => []
    | .cons (.file n) t => (if extExcluded n then [] else [pre ++ [n]]) ++ walk pre t
    | .cons (.dir n kids) t => (if dirExcluded n then [] else walk (pre ++ [n]) kids) ++ walk pre t
end

/-- non-recursive: `break` after the first directory -/
def walkTop : Nodes → List Path
  | .nil => []
  | .cons (.file n) t => (if extExcluded n then [] else [[n]]) ++ walkTop t
  | .cons (.dir _ _) t => walkTop t

def collect (recursive : Bool) (t : Nodes) : List Path := if recursive then walk [] t else walkTop t

/-! ## `lint_file`'s own gates -/

def dirParts (p : Path) : Path := p.dropLast

/-- `_is_hardcoded_excluded(file_path, project_root)`: compiled suffix, or an always-excluded name among
    the *directory* components below the project root (`rel` = components of the lint target below
    the project root, `p` = path below the target) -/
def hardExcluded (rel : Path) (p : Path) : Bool :=
  (match p.getLast? with | some n => extExcluded n | none => false) || (rel ++ dirParts p).any dirExcluded

def joinPath : Path → List Char
  | [] => []
  | [n] => n
  | n :: r => n ++ '/' :: joinPath r

def rstripSlash (cs : List Char) : List Char := (cs.reverse.dropWhile (· == '/')).reverse

def dropAnyDepth (dp : List Char) : List Char :=
  match dp with
  | '*' :: '*' :: '/' :: r => r
  | _ => dp

/-- `_matches_directory_pattern` : some *directory* component matches the pattern (a leading `**/`
    only says "at any depth"); multi-component patterns are anchored at the root -/
def matchesDirPattern (p : Path) (pat : List Char) : Bool :=
  let dp := dropAnyDepth (rstripSlash pat)
  (dirParts p).any (fun part => glob dp part) || (dp.contains '/' && glob (dp ++ ['/', '*']) (joinPath p))

/-- a leading `**/` means "at any depth", which includes the top level: the pattern without it is tried too -/
def anyDepthAlt (pat s : List Char) : Bool :=
  match pat with
  | '*' :: '*' :: '/' :: r => glob r s
  | _ => false

/-- `matches_pattern` (the second `fnmatch` on `str(Path(path))` is the same call for normalised paths) -/
def matchesPattern (p : Path) (pat : List Char) : Bool :=
  if pat.getLast? == some '/' then matchesDirPattern p pat else (glob pat (joinPath p) || anyDepthAlt pat (joinPath p))

/-- before the repair of F14e: `**/name` never matched a file at the top level -/
def matchesPatternOld (p : Path) (pat : List Char) : Bool :=
  if pat.getLast? == some '/' then matchesDirPattern p pat else glob pat (joinPath p)

/-- `is_ignored` : path relative to the project root against every repository pattern -/
def isIgnored (pats : List (List Char)) (p : Path) : Bool := pats.any (matchesPattern p)

def isSpace (c : Char) : Bool := c == ' ' || c == '\t' || c == '\r' || c == '\x0b' || c == '\x0c'
def strip (cs : List Char) : List Char := ((cs.dropWhile isSpace).reverse.dropWhile isSpace).reverse
/-- `extract_patterns_from_content` on already split lines -/
def extractPatterns (lines : List (List Char)) : List (List Char) :=
  (lines.map strip).filter (fun l => !l.isEmpty && l.head? != some '#')

/-- the set of files a directory run lints (`rel` = components of the target below the project root) -/
def linted (recursive : Bool) (rel : Path) (pats : List (List Char)) (t : Nodes) : List Path :=
  (collect recursive t).filter (fun p => !hardExcluded rel p && !isIgnored pats (rel ++ p))

/-- an explicitly named file goes through the same gates -/
def lintedExplicit (rel : Path) (pats : List (List Char)) (p : Path) : Bool :=
  !hardExcluded rel p && !isIgnored pats (rel ++ p)

/-! ## Several targets in one run (`execute_linting_on_paths` / `_merge_targets`) -/

def findDir (d : Name) : Nodes → Option Nodes
  | .nil => none
  | .cons (.dir n k) t => if n == d then some k else findDir d t
  | .cons (.file _) t => findDir d t

/-- the tree below a directory path of the project -/
def subtreeAt : Path → Nodes → Option Nodes
  | [], t => some t
  | d :: r, t => match findDir d t with
    | some k => subtreeAt r k
    | none => none

/-- a command-line target (paths below the project root, which is the root of the tree) -/
inductive Target where
  | dir (p : Path)
  | file (p : Path)
  deriving Repr

/-- what one target contributes: a directory its (recursive or direct-children) walk through the gates, an
    explicitly named file itself if it passes the gates -/
def lintedOne (recursive : Bool) (pats : List (List Char)) (t : Nodes) : Target → List Path
  | .dir d => match subtreeAt d t with
    | some s => (linted recursive d pats s).map (d ++ ·)
    | none => []
  | .file p => if lintedExplicit [] pats p then [p] else []

/-- several targets are one run: the union of what each contributes, every file once -/
def lintedTargets (recursive : Bool) (pats : List (List Char)) (t : Nodes) (ts : List Target) : List Path :=
  (ts.flatMap (lintedOne recursive pats t)).eraseDups

/-! ## Specification -/

mutual
  def allFiles (pre : Path) : Nodes → List Path
    | .nil => []
    | .cons (.file n) t => (pre ++ [n]) :: allFiles pre t
    | .cons (.dir n kids) t => allFiles (pre ++ [n]) kids ++ allFiles pre t
end

def topFiles : Nodes → List Path
  | .nil => []
  | .cons (.file n) t => [n] :: topFiles t
  | .cons (.dir _ _) t => topFiles t

/-- documented pattern forms -/
inductive Form where
  | dirName (n : Name)          -- `n/`
  | anyDirName (n : Name)       -- `**/n/`
  | ext (e : Name)              -- `*e`   (e = ".pyc", …)
  | exact (p : Path)            -- `a/b.py`
  | globDir (anyDepth : Bool) (g : Name)   -- `*.egg-info/`, `**/*_generated/` : glob on a directory name
  | dirPath (q : Path)          -- `src/generated/` : a directory given by its path from the root (two or more components)
  | anyFile (n : Name)          -- `**/name.py` : a file of that name at any depth, the top level included
  deriving Repr

def Form.render : Form → List Char
  | .dirName n => n ++ ['/']
  | .anyDirName n => '*' :: '*' :: '/' :: n ++ ['/']
  | .ext e => '*' :: e
  | .exact p => joinPath p
  | .globDir a g => (if a then ['*', '*', '/'] else []) ++ (g ++ ['/'])
  | .dirPath q => joinPath q ++ ['/']
  | .anyFile n => '*' :: '*' :: '/' :: n

/-- gitignore reading of the documented forms -/
def Form.specMatch (p : Path) : Form → Bool
  | .dirName n => (dirParts p).contains n
  | .anyDirName n => (dirParts p).contains n
  | .ext e => match p.getLast? with
      | some b => e.isSuffixOf b
      | none => false
  | .exact q => p == q
  | .globDir _ g => (dirParts p).any (fun part => glob g part)
  | .dirPath q => q.isPrefixOf (dirParts p)          -- everything below that directory, at any depth
  | .anyFile n => p.getLast? == some n

/-- well-formed documented pattern: literal name / extension without `/`; a directory path of two or more literal components -/
def Form.wf : Form → Bool
  | .dirName n => literal n && !n.contains '/' && !n.isEmpty
  | .anyDirName n => literal n && !n.contains '/' && !n.isEmpty
  | .ext e => literal e && !e.contains '/'
  | .exact q => literal (joinPath q) && q.all (fun c => !c.contains '/' && !c.isEmpty) && !q.isEmpty
  | .globDir _ g => !g.contains '/' && !g.isEmpty && !g.contains '['
  | .dirPath q => literal (joinPath q) && q.all (fun c => !c.contains '/' && !c.isEmpty) && decide (2 ≤ q.length)
  | .anyFile n => literal n && !n.contains '/' && !n.isEmpty

/-- excluded by the always-excluded names: inside such a directory (below the target), or a compiled suffix -/
def specExcluded (p : Path) : Bool :=
  (match p.getLast? with | some n => extExcluded n | none => false) || (dirParts p).any dirExcluded

def specLinted (recursive : Bool) (rel : Path) (forms : List Form) (t : Nodes) : List Path :=
  ((if recursive then allFiles [] t else topFiles t)).filter
    (fun p => !specExcluded p && !rel.any dirExcluded && !forms.any (fun f => f.specMatch (rel ++ p)))

end ThaiLintModel.C14
