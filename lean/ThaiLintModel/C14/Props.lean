/-
C14 — property theorems about which files a run lints.
-/
import ThaiLintModel.C14.Model
import ThaiLintModel.Core.GlobLemmas
namespace ThaiLintModel.C14
open ThaiLintModel

/-! ## The walk prunes exactly what the specification excludes, at every depth -/

theorem allFiles_map (pre : Path) :
    (t : Nodes) → allFiles pre t = (allFiles [] t).map (pre ++ ·)
  | .nil => by simp [allFiles]
  | .cons (.file n) t => by
      simp [allFiles, allFiles_map pre t]
  | .cons (.dir n kids) t => by
      rw [allFiles, allFiles, allFiles_map (pre ++ [n]) kids, allFiles_map pre t, allFiles_map ([] ++ [n]) kids]
      simp [List.map_map, Function.comp_def]

theorem allFiles_ne_nil : (t : Nodes) → ∀ p ∈ allFiles [] t, p ≠ []
  | .nil => by simp [allFiles]
  | .cons (.file n) t => by
      intro p hp
      simp [allFiles] at hp
      rcases hp with rfl | hp
      · simp
      · exact allFiles_ne_nil t p hp
  | .cons (.dir n kids) t => by
      intro p hp
      rw [allFiles, allFiles_map] at hp
      simp at hp
      rcases hp with ⟨q, _, rfl⟩ | hp
      · simp
      · exact allFiles_ne_nil t p hp

theorem specExcluded_cons (n : Name) (q : Path) (hq : q ≠ []) :
    specExcluded (n :: q) = (dirExcluded n || specExcluded q) := by
  cases q with
  | nil => simp at hq
  | cons a r =>
    simp [specExcluded, dirParts, List.getLast?_cons_cons, List.dropLast, Bool.or_assoc, Bool.or_left_comm]

/-- **Pruning during the walk = filtering afterwards**: no file below an always-excluded directory
    (at any depth) is collected, no compiled artefact is collected, and every other file is. -/
theorem walk_eq_filter (pre : Path) :
    (t : Nodes) → walk pre t = ((allFiles [] t).filter (fun p => !specExcluded p)).map (pre ++ ·)
  | .nil => by simp [walk, allFiles]
  | .cons (.file n) t => by
      simp only [walk, allFiles, List.nil_append, List.filter_cons, walk_eq_filter pre t]
      by_cases h : extExcluded n <;> simp [specExcluded, dirParts, h]
  | .cons (.dir n kids) t => by
      rw [walk, walk_eq_filter (pre ++ [n]) kids, walk_eq_filter pre t, allFiles, allFiles_map ([] ++ [n]) kids]
      simp only [List.nil_append, List.filter_append, List.map_append, List.filter_map]
      congr 1
      by_cases h : dirExcluded n
      · simp only [h, if_true]
        symm
        rw [List.map_eq_nil_iff, List.map_eq_nil_iff, List.filter_eq_nil_iff]
        intro q hq
        simp [Function.comp_def, specExcluded_cons n q (allFiles_ne_nil kids q hq), h]
      · simp only [h, if_false, Bool.false_eq_true]
        rw [List.map_map]
        have : List.filter ((fun p => !specExcluded p) ∘ fun x => [n] ++ x) (allFiles [] kids)
             = List.filter (fun p => !specExcluded p) (allFiles [] kids) := by
          apply List.filter_congr
          intro q hq
          simp [Function.comp_def, specExcluded_cons n q (allFiles_ne_nil kids q hq), h]
        rw [this]
        simp [List.map_map, Function.comp_def]

/-- `--no-recursive`: exactly the direct children that are not compiled artefacts -/
theorem walkTop_eq_filter :
    (t : Nodes) → walkTop t = (topFiles t).filter (fun p => !specExcluded p)
  | .nil => by simp [walkTop, topFiles]
  | .cons (.file n) t => by
      simp only [walkTop, topFiles, List.filter_cons, walkTop_eq_filter t]
      by_cases h : extExcluded n <;> simp [specExcluded, dirParts, h]
  | .cons (.dir _ _) t => by simp [walkTop, topFiles, walkTop_eq_filter t]

theorem topFiles_ne_nil : (t : Nodes) → ∀ p ∈ topFiles t, p ≠ []
  | .nil => by simp [topFiles]
  | .cons (.file n) t => by
      intro p hp
      simp [topFiles] at hp
      rcases hp with rfl | hp
      · simp
      · exact topFiles_ne_nil t p hp
  | .cons (.dir _ _) t => by
      intro p hp
      simp [topFiles] at hp
      exact topFiles_ne_nil t p hp

theorem collect_eq (recursive : Bool) (t : Nodes) :
    collect recursive t =
      (if recursive then allFiles [] t else topFiles t).filter (fun p => !specExcluded p) := by
  cases recursive
  · simp [collect, walkTop_eq_filter]
  · simp [collect, walk_eq_filter]

/-- **The linted set is exactly the specified one**, for every tree, target position and recursion
    mode, whenever the matcher agrees with the gitignore reading on the patterns in use — which
    `forms_exact` below proves for every documented pattern form. -/
theorem linted_eq_spec_of_match (recursive : Bool) (rel : Path) (forms : List Form) (t : Nodes)
    (hmatch : ∀ p ∈ (if recursive then allFiles [] t else topFiles t),
                 isIgnored (forms.map Form.render) (rel ++ p) = forms.any (fun f => f.specMatch (rel ++ p))) :
    linted recursive rel (forms.map Form.render) t = specLinted recursive rel forms t := by
  unfold linted specLinted
  rw [collect_eq, List.filter_filter]
  apply List.filter_congr
  intro p hp
  have hm := hmatch p hp
  have hx : hardExcluded rel p = (specExcluded p || rel.any dirExcluded) := by
    simp only [hardExcluded, specExcluded, List.any_append, Bool.or_assoc]
    congr 1
    exact Bool.or_comm _ _
  rw [hx, hm]
  cases specExcluded p <;> cases rel.any dirExcluded <;> cases forms.any (fun f => f.specMatch (rel ++ p)) <;> rfl

/-- an excluded or ignored file is never linted, even when it is named explicitly -/
theorem explicit_excluded_never_linted (rel : Path) (pats : List (List Char)) (p : Path)
    (h : hardExcluded rel p = true ∨ isIgnored pats (rel ++ p) = true) :
    lintedExplicit rel pats p = false := by
  rcases h with h | h <;> simp [lintedExplicit, h]

/-! ## Pattern forms: where the matcher agrees with the gitignore reading, and where it does not -/

theorem suffix_of_append_cons {e a b : List Char} {c : Char} (hc : c ∉ e) (h : e <:+ a ++ c :: b) : e <:+ b := by
  obtain ⟨pre, hp⟩ := h
  rw [List.append_eq_append_iff] at hp
  rcases hp with ⟨a', _, h2⟩ | ⟨c', _, h2⟩
  · subst h2; simp at hc
  · cases c' with
    | nil => simp at h2; subst h2; simp at hc
    | cons d c'' =>
      simp at h2
      exact ⟨c'', h2.2.symm⟩

theorem suffix_joinPath (e : List Char) (he : '/' ∉ e) :
    (p : Path) → (n : Name) → p.getLast? = some n → (e <:+ joinPath p ↔ e <:+ n)
  | [], _, h => by simp at h
  | [a], n, h => by simp at h; subst h; simp [joinPath]
  | a :: b :: r, n, h => by
      have ih := suffix_joinPath e he (b :: r) n (by simpa [List.getLast?_cons_cons] using h)
      have hj : joinPath (a :: b :: r) = a ++ '/' :: joinPath (b :: r) := by
        rw [joinPath]; simp
      rw [hj]
      constructor
      · intro hs; exact ih.1 (suffix_of_append_cons he hs)
      · intro hs
        obtain ⟨pre, hp⟩ := ih.2 hs
        exact ⟨a ++ '/' :: pre, by simp [← hp]⟩

theorem anyDepthAlt_of_second (c d : Char) (r s : List Char) (h : d ≠ '*') : anyDepthAlt (c :: d :: r) s = false := by
  unfold anyDepthAlt
  split
  · rename_i heq; simp at heq; exact absurd heq.2.1 h
  · rfl

theorem anyDepthAlt_of_first (c : Char) (r s : List Char) (h : c ≠ '*') : anyDepthAlt (c :: r) s = false := by
  unfold anyDepthAlt
  split
  · rename_i heq; simp at heq; exact absurd heq.1 h
  · rfl

theorem anyDepthAlt_short (c : Char) (s : List Char) : anyDepthAlt [c] s = false := by
  unfold anyDepthAlt; split
  · rename_i heq; simp at heq
  · rfl

theorem anyDepthAlt_nil (s : List Char) : anyDepthAlt [] s = false := by
  unfold anyDepthAlt; split
  · rename_i heq; simp at heq
  · rfl

/-- a literal pattern has no `**/` in front -/
theorem anyDepthAlt_literal (l s : List Char) (hl : literal l = true) : anyDepthAlt l s = false := by
  cases l with
  | nil => exact anyDepthAlt_nil s
  | cons c r =>
    apply anyDepthAlt_of_first
    intro h; subst h
    simp [literal, isGlobChar] at hl

/-- `*` followed by a literal has no `**/` in front -/
theorem anyDepthAlt_star_literal (e s : List Char) (he : literal e = true) : anyDepthAlt ('*' :: e) s = false := by
  cases e with
  | nil => exact anyDepthAlt_short _ s
  | cons d r =>
    apply anyDepthAlt_of_second
    intro h; subst h
    simp [literal, isGlobChar] at he

/-- `*.ext` patterns are exact: the file's name ends with the extension, in any directory -/
theorem ext_pattern_exact (e : Name) (p : Path) (he : literal e = true) (hs : '/' ∉ e) (hp : p ≠ []) :
    matchesPattern p (Form.ext e).render = (Form.ext e).specMatch p := by
  have hlast : (('*' :: e).getLast? == some '/') = false := by
    cases e with
    | nil => simp
    | cons c r =>
      rw [List.getLast?_cons_cons]
      cases hl : (c :: r).getLast? with
      | none => simp
      | some x =>
        have : x ∈ c :: r := List.mem_of_getLast? hl
        simp; intro hx; subst hx; exact hs this
  obtain ⟨n, hn⟩ : ∃ n, p.getLast? = some n := by
    cases h : p.getLast? with
    | none => simp at h; exact absurd h hp
    | some n => exact ⟨n, rfl⟩
  simp only [matchesPattern, Form.render, hlast, Bool.false_eq_true, if_false, Form.specMatch, hn, anyDepthAlt_star_literal e _ he,
    Bool.or_false]
  rw [Bool.eq_iff_iff, glob_star_literal e _ he, suffix_joinPath e hs p n hn]
  simp [List.isSuffixOf_iff_suffix] 

theorem rstripSlash_append (n : Name) (hn : n.getLast? ≠ some '/') : rstripSlash (n ++ ['/']) = n := by
  unfold rstripSlash
  rw [List.reverse_append]
  simp only [List.reverse_cons, List.reverse_nil, List.nil_append, List.singleton_append]
  rw [List.dropWhile_cons_of_pos (by simp)]
  cases h : n.reverse with
  | nil => simp at h; simp [h]
  | cons c r =>
    have hc : c ≠ '/' := by
      intro hc
      apply hn
      have : n = (c :: r).reverse := by rw [← h, List.reverse_reverse]
      rw [this, hc]; simp
    rw [List.dropWhile_cons_of_neg (by simpa using hc), ← h, List.reverse_reverse]

theorem glob_literal_eq (n c : List Char) (hn : literal n = true) : glob n c = decide (c = n) := by
  rw [Bool.eq_iff_iff, glob_literal n c hn]; simp

theorem dropAnyDepth_plain (n : Name) (hn : literal n = true) : dropAnyDepth n = n := by
  unfold dropAnyDepth
  split
  · simp [literal, isGlobChar] at hn
  · rfl

theorem notMem_of_contains_false {n : Name} (h : '/' ∉ n) : n.contains '/' = false := by
  simpa using h

/-- `name/` is exact: ignored iff some *directory* component of the path is `name` -/
theorem dir_pattern_exact (n : Name) (p : Path) (hn : literal n = true) (hs : '/' ∉ n) :
    matchesPattern p (Form.dirName n).render = (Form.dirName n).specMatch p := by
  have hlast : ((n ++ ['/']).getLast? == some '/') = true := by simp
  have hs' : n.getLast? ≠ some '/' := by
    intro h; exact hs (List.mem_of_getLast? h)
  simp only [matchesPattern, Form.render, hlast, if_true, matchesDirPattern, rstripSlash_append n hs',
    dropAnyDepth_plain n hn, notMem_of_contains_false hs, Bool.false_and, Bool.or_false, Form.specMatch]
  rw [Bool.eq_iff_iff]
  constructor
  · intro h
    obtain ⟨c, hc, hg⟩ := List.any_eq_true.1 h
    rw [glob_literal_eq n c hn] at hg
    have : c = n := by simpa using hg
    subst this
    simpa using hc
  · intro h
    exact List.any_eq_true.2 ⟨n, by simpa using h, by simp [glob_literal_eq n n hn]⟩

/-- `**/name/` is exact too (a top-level `name/` directory included) -/
theorem anydir_pattern_exact (n : Name) (p : Path) (hn : literal n = true) (hs : '/' ∉ n) (hne : n ≠ []) :
    matchesPattern p (Form.anyDirName n).render = (Form.anyDirName n).specMatch p := by
  have hlast : (('*' :: '*' :: '/' :: n ++ ['/']).getLast? == some '/') = true := by
    have : '*' :: '*' :: '/' :: n ++ ['/'] = ('*' :: '*' :: '/' :: n) ++ ['/'] := by simp
    rw [this, List.getLast?_append]
    simp
  have hs' : n.getLast? ≠ some '/' := by
    intro h; exact hs (List.mem_of_getLast? h)
  have hl2 : ('*' :: '*' :: '/' :: n).getLast? ≠ some '/' := by
    cases n with
    | nil => exact absurd rfl hne
    | cons c r => simpa [List.getLast?_cons_cons] using hs'
  have hr : rstripSlash ('*' :: '*' :: '/' :: n ++ ['/']) = '*' :: '*' :: '/' :: n := by
    have := rstripSlash_append ('*' :: '*' :: '/' :: n) hl2
    simpa using this
  simp only [matchesPattern, Form.render, hlast, if_true, matchesDirPattern, hr, dropAnyDepth,
    notMem_of_contains_false hs, Bool.false_and, Bool.or_false, Form.specMatch]
  rw [Bool.eq_iff_iff]
  constructor
  · intro h
    obtain ⟨c, hc, hg⟩ := List.any_eq_true.1 h
    rw [glob_literal_eq n c hn] at hg
    have : c = n := by simpa using hg
    subst this
    simpa using hc
  · intro h
    exact List.any_eq_true.2 ⟨n, by simpa using h, by simp [glob_literal_eq n n hn]⟩

theorem append_sep_inj {a b x y : List Char} (ha : '/' ∉ a) (hb : '/' ∉ b)
    (h : a ++ '/' :: x = b ++ '/' :: y) : a = b ∧ x = y := by
  induction a generalizing b with
  | nil =>
    cases b with
    | nil => simpa using h
    | cons c r => simp at h; simp [← h.1] at hb
  | cons c r ih =>
    cases b with
    | nil => simp at h; simp [h.1] at ha
    | cons d r' =>
      simp at h ha hb
      obtain ⟨h1, h2⟩ := ih (b := r') ha.2 hb.2 h.2
      exact ⟨by rw [h.1, h1], h2⟩

theorem notMem_joinPath_single {a : Name} {x : List Char} (ha : '/' ∉ a) : a ≠ a ++ '/' :: x ∧ True := by
  refine ⟨?_, trivial⟩
  intro h
  have := congrArg List.length h
  simp at this

/-- joined paths determine their components (components never contain `/`) -/
theorem joinPath_inj : (p q : Path) → (∀ c ∈ p, '/' ∉ c) → (∀ c ∈ q, '/' ∉ c) → p ≠ [] → q ≠ [] →
    joinPath p = joinPath q → p = q
  | [], _, _, _, h, _, _ => absurd rfl h
  | _, [], _, _, _, h, _ => absurd rfl h
  | [a], [b], _, _, _, _, h => by simpa [joinPath] using h
  | [a], b :: c :: r, ha, _, _, _, h => by
      have hj : joinPath (b :: c :: r) = b ++ '/' :: joinPath (c :: r) := by rw [joinPath]; simp
      rw [joinPath, hj] at h
      exact absurd (h ▸ List.mem_append_right b (List.mem_cons_self ..)) (ha a (by simp))
  | a :: c :: r, [b], _, hb, _, _, h => by
      have hj : joinPath (a :: c :: r) = a ++ '/' :: joinPath (c :: r) := by rw [joinPath]; simp
      rw [joinPath, hj] at h
      exact absurd (h ▸ List.mem_append_right a (List.mem_cons_self ..)) (hb b (by simp))
  | a :: c :: r, b :: d :: r', ha, hb, _, _, h => by
      have hj1 : joinPath (a :: c :: r) = a ++ '/' :: joinPath (c :: r) := by rw [joinPath]; simp
      have hj2 : joinPath (b :: d :: r') = b ++ '/' :: joinPath (d :: r') := by rw [joinPath]; simp
      rw [hj1, hj2] at h
      obtain ⟨h1, h2⟩ := append_sep_inj (ha a (by simp)) (hb b (by simp)) h
      have := joinPath_inj (c :: r) (d :: r') (fun x hx => ha x (by simp [hx])) (fun x hx => hb x (by simp [hx]))
        (by simp) (by simp) h2
      rw [h1, this]

/-- an exact relative path is matched by exactly that path -/
theorem exact_pattern_exact (q p : Path) (hq : literal (joinPath q) = true)
    (hqs : ∀ c ∈ q, '/' ∉ c) (hps : ∀ c ∈ p, '/' ∉ c) (hq0 : q ≠ []) (hp0 : p ≠ [])
    (hlast : (joinPath q).getLast? ≠ some '/') :
    matchesPattern p (Form.exact q).render = (Form.exact q).specMatch p := by
  have : ((joinPath q).getLast? == some '/') = false := by simpa using hlast
  simp only [matchesPattern, Form.render, this, Bool.false_eq_true, if_false, Form.specMatch, anyDepthAlt_literal _ _ hq, Bool.or_false]
  rw [Bool.eq_iff_iff, glob_literal _ _ hq]
  constructor
  · intro h; simpa using joinPath_inj p q hps hqs hp0 hq0 h
  · intro h; simp at h; rw [h]

theorem getLast?_joinPath : (q : Path) → (n : Name) → q.getLast? = some n → n ≠ [] →
    (joinPath q).getLast? = n.getLast?
  | [], _, h, _ => by simp at h
  | [a], n, h, _ => by simp at h; subst h; simp [joinPath]
  | a :: b :: r, n, h, hn => by
      have hj : joinPath (a :: b :: r) = a ++ '/' :: joinPath (b :: r) := by rw [joinPath]; simp
      have ih := getLast?_joinPath (b :: r) n (by simpa [List.getLast?_cons_cons] using h) hn
      rw [hj, List.getLast?_append, List.getLast?_cons]
      cases hl : (joinPath (b :: r)).getLast? with
      | none =>
        rw [hl] at ih
        have : n = [] := by simpa using ih.symm
        exact absurd this hn
      | some x => simp [← ih, hl]

theorem dropAnyDepth_noSlash (g : Name) (hs : '/' ∉ g) : dropAnyDepth g = g := by
  unfold dropAnyDepth
  split
  · simp at hs
  · rfl

/-- glob directory patterns (`*.egg-info/`, `**/*_generated/`): some directory component matches the glob -/
theorem globdir_pattern_exact (a : Bool) (g : Name) (p : Path) (hs : '/' ∉ g) (hne : g ≠ []) :
    matchesPattern p (Form.globDir a g).render = (Form.globDir a g).specMatch p := by
  have hs' : g.getLast? ≠ some '/' := by
    intro h; exact hs (List.mem_of_getLast? h)
  cases a with
  | false =>
    have hlast : ((g ++ ['/']).getLast? == some '/') = true := by simp
    simp only [matchesPattern, Form.render, Bool.false_eq_true, if_false, List.nil_append, hlast, if_true, matchesDirPattern,
      rstripSlash_append g hs', dropAnyDepth_noSlash g hs, notMem_of_contains_false hs, Bool.false_and, Bool.or_false,
      Form.specMatch]
  | true =>
    have e : ['*', '*', '/'] ++ (g ++ ['/']) = ('*' :: '*' :: '/' :: g) ++ ['/'] := by simp
    have hlast : ((('*' :: '*' :: '/' :: g) ++ ['/']).getLast? == some '/') = true := by
      rw [List.getLast?_append]; simp
    have hl2 : ('*' :: '*' :: '/' :: g).getLast? ≠ some '/' := by
      cases g with
      | nil => exact absurd rfl hne
      | cons c r => simpa [List.getLast?_cons_cons] using hs'
    simp only [matchesPattern, Form.render, if_true, e, hlast, matchesDirPattern,
      rstripSlash_append _ hl2, dropAnyDepth, notMem_of_contains_false hs, Bool.false_and, Bool.or_false, Form.specMatch]

theorem joinPath_cons2 (a b : Name) (r : Path) : joinPath (a :: b :: r) = a ++ '/' :: joinPath (b :: r) := by
  rw [joinPath]; simp

theorem prefix_sep {a b x y : List Char} (ha : '/' ∉ a) (hb : '/' ∉ b) :
    (a ++ '/' :: x) <+: (b ++ '/' :: y) ↔ a = b ∧ x <+: y := by
  constructor
  · intro h
    induction a generalizing b with
    | nil =>
      cases b with
      | nil =>
        obtain ⟨t, ht⟩ := h
        simp at ht
        exact ⟨rfl, ⟨t, ht⟩⟩
      | cons c r =>
        obtain ⟨t, ht⟩ := h
        simp at ht
        simp [← ht.1] at hb
    | cons c r ih =>
      cases b with
      | nil =>
        obtain ⟨t, ht⟩ := h
        simp at ht
        simp [ht.1] at ha
      | cons d r' =>
        obtain ⟨t, ht⟩ := h
        simp at ht ha hb
        obtain ⟨h2, h3⟩ := ih (b := r') ha.2 hb.2 ⟨t, by simpa using ht.2⟩
        exact ⟨by rw [ht.1, h2], h3⟩
  · rintro ⟨rfl, t, rfl⟩
    exact ⟨t, by simp⟩

theorem not_prefix_sep {a b x : List Char} (hb : '/' ∉ b) : ¬ (a ++ '/' :: x) <+: b := by
  rintro ⟨t, rfl⟩
  simp at hb

/-- a joined directory path followed by `/` is a prefix of a joined path exactly when its components are a prefix of
    the path's directory components -/
theorem joinPath_slash_prefix : (q p : Path) → (∀ c ∈ q, '/' ∉ c) → (∀ c ∈ p, '/' ∉ c) → q ≠ [] → p ≠ [] →
    ((joinPath q ++ ['/']) <+: joinPath p ↔ q <+: dirParts p)
  | [], _, _, _, h, _ => absurd rfl h
  | _, [], _, _, _, h => absurd rfl h
  | [a], [b], _, hp, _, _ => by
      simp only [joinPath, dirParts, List.dropLast_singleton]
      constructor
      · intro h; exact absurd h (not_prefix_sep (hp b (by simp)))
      · intro h; simp at h
  | [a], b :: d :: r, hq, hp, _, _ => by
      rw [joinPath_cons2]
      simp only [joinPath, dirParts, List.dropLast_cons_cons]
      rw [prefix_sep (hq a (by simp)) (hp b (by simp))]
      simp [List.cons_prefix_cons]
  | a :: c :: s, [b], _, hp, _, _ => by
      rw [joinPath_cons2]
      simp only [joinPath, dirParts, List.dropLast_singleton]
      constructor
      · intro h
        rw [List.append_assoc, List.cons_append] at h
        exact absurd h (not_prefix_sep (hp b (by simp)))
      · intro h; simp at h
  | a :: c :: s, b :: d :: r, hq, hp, _, _ => by
      have ih := joinPath_slash_prefix (c :: s) (d :: r) (fun x hx => hq x (by simp [hx])) (fun x hx => hp x (by simp [hx]))
        (by simp) (by simp)
      rw [joinPath_cons2, joinPath_cons2, List.append_assoc, List.cons_append,
        prefix_sep (hq a (by simp)) (hp b (by simp)), ih]
      simp only [dirParts, List.dropLast_cons_cons, List.cons_prefix_cons]


theorem mem_slash_joinPath_cons2 (a b : Name) (r : Path) : '/' ∈ joinPath (a :: b :: r) := by
  rw [joinPath_cons2]; simp

/-- `a/b/` (a directory given by its path from the root, two or more literal components): exactly the files below
    that directory, at any depth -/
theorem dirpath_pattern_exact (q p : Path) (hq : literal (joinPath q) = true) (hq2 : 2 ≤ q.length)
    (hqs : ∀ c ∈ q, '/' ∉ c) (hps : ∀ c ∈ p, '/' ∉ c) (hp0 : p ≠ [])
    (hlast : (joinPath q).getLast? ≠ some '/') :
    matchesPattern p (Form.dirPath q).render = (Form.dirPath q).specMatch p := by
  obtain ⟨a, b, r, rfl⟩ : ∃ a b r, q = a :: b :: r := by
    match q, hq2 with
    | a :: b :: r, _ => exact ⟨a, b, r, rfl⟩
  have hmem := mem_slash_joinPath_cons2 a b r
  have hcont : (joinPath (a :: b :: r)).contains '/' = true := by simpa using hmem
  have hl : ((joinPath (a :: b :: r) ++ ['/']).getLast? == some '/') = true := by simp
  have hlit : literal (joinPath (a :: b :: r) ++ ['/']) = true := by
    simp only [literal, List.all_append, Bool.and_eq_true] at hq ⊢
    exact ⟨hq, by decide⟩
  have hany : (dirParts p).any (fun part => glob (joinPath (a :: b :: r)) part) = false := by
    rw [List.any_eq_false]
    intro part hpart
    rw [glob_literal_eq _ _ hq]
    simp only [decide_eq_true_eq]
    intro h
    exact hps part (List.dropLast_subset _ hpart) (h ▸ hmem)
  have e : joinPath (a :: b :: r) ++ ['/', '*'] = (joinPath (a :: b :: r) ++ ['/']) ++ ['*'] := by simp
  simp only [matchesPattern, Form.render, hl, if_true, matchesDirPattern, rstripSlash_append _ hlast,
    dropAnyDepth_plain _ hq, hany, hcont, Bool.false_or, Bool.true_and, Form.specMatch]
  rw [Bool.eq_iff_iff, e, glob_literal_star _ _ hlit, List.isPrefixOf_iff_prefix,
    joinPath_slash_prefix _ p hqs hps (by simp) hp0]

theorem glob_star_star_literal (e s : List Char) (he : literal e = true) :
    glob ('*' :: '*' :: e) s = true ↔ e <:+ s := by
  rw [glob_star, anySuffix_iff]
  constructor
  · rintro ⟨pre, t, rfl, ht⟩
    obtain ⟨pre2, rfl⟩ := (glob_star_literal e t he).1 ht
    exact ⟨pre ++ pre2, by simp⟩
  · rintro ⟨pre, rfl⟩
    exact ⟨pre, e, rfl, (glob_star_literal e e he).2 ⟨[], rfl⟩⟩

theorem slash_suffix_append {a n y : List Char} (ha : '/' ∉ a) :
    ('/' :: n) <:+ (a ++ y) ↔ ('/' :: n) <:+ y := by
  induction a with
  | nil => simp
  | cons c r ih =>
    simp at ha
    rw [List.cons_append, List.suffix_cons_iff, ih ha.2]
    constructor
    · rintro (h | h)
      · simp at h; exact absurd h.1 ha.1
      · exact h
    · intro h; exact Or.inr h

/-- `/name` ends a joined path exactly when the path has a directory part and its last component is `name` -/
theorem slash_suffix_joinPath (n : Name) (hn : '/' ∉ n) : (p : Path) → (∀ c ∈ p, '/' ∉ c) → p ≠ [] →
    (('/' :: n) <:+ joinPath p ↔ 2 ≤ p.length ∧ p.getLast? = some n)
  | [], _, h => absurd rfl h
  | [a], hp, _ => by
      simp only [joinPath, List.length_singleton]
      constructor
      · rintro ⟨t, ht⟩
        exact absurd (ht ▸ List.mem_append_right t (List.mem_cons_self ..)) (hp a (by simp))
      · intro h; omega
  | a :: b :: r, hp, _ => by
      have ih := slash_suffix_joinPath n hn (b :: r) (fun x hx => hp x (by simp [hx])) (by simp)
      rw [joinPath_cons2, slash_suffix_append (hp a (by simp)), List.suffix_cons_iff, ih, List.getLast?_cons_cons]
      constructor
      · rintro (h | ⟨_, h⟩)
        · simp at h
          have : b :: r = [n] := joinPath_inj (b :: r) [n] (fun x hx => hp x (by simp [hx])) (by simpa using hn) (by simp) (by simp)
            (by simpa [joinPath] using h.symm)
          exact ⟨by simp, by rw [this]; rfl⟩
        · exact ⟨by simp, h⟩
      · rintro ⟨_, h⟩
        cases r with
        | nil =>
          left
          simp at h; subst h
          simp [joinPath]
        | cons c r' => exact Or.inr ⟨by simp, h⟩

/-- `**/name` : a file of that name at any depth, the top level included (F14e repaired) -/
theorem anyfile_pattern_exact (n : Name) (p : Path) (hn : literal n = true) (hs : '/' ∉ n) (hne : n ≠ [])
    (hps : ∀ c ∈ p, '/' ∉ c) (hp0 : p ≠ []) :
    matchesPattern p (Form.anyFile n).render = (Form.anyFile n).specMatch p := by
  have hlast : (('*' :: '*' :: '/' :: n).getLast? == some '/') = false := by
    cases n with
    | nil => exact absurd rfl hne
    | cons c r =>
      have : ('*' :: '*' :: '/' :: c :: r).getLast? = (c :: r).getLast? := by
        simp [List.getLast?_cons_cons]
      rw [this]
      cases hl : (c :: r).getLast? with
      | none => simp
      | some x =>
        have : x ∈ c :: r := List.mem_of_getLast? hl
        simp; intro hx; subst hx; exact hs this
  have hlit : literal ('/' :: n) = true := by
    simp only [literal, List.all_cons, Bool.and_eq_true] at hn ⊢
    exact ⟨by decide, hn⟩
  simp only [matchesPattern, Form.render, hlast, Bool.false_eq_true, if_false, Form.specMatch, anyDepthAlt]
  rw [Bool.eq_iff_iff, Bool.or_eq_true, glob_star_star_literal _ _ hlit, glob_literal _ _ hn,
    slash_suffix_joinPath n hs p hps hp0]
  simp only [beq_iff_eq]
  constructor
  · rintro (⟨_, h⟩ | h)
    · exact h
    · have : p = [n] := joinPath_inj p [n] hps (by simpa using hs) hp0 (by simp) (by simpa [joinPath] using h)
      rw [this]; rfl
  · intro h
    match p, hp0, h with
    | [a], _, h => right; simp at h; subst h; simp [joinPath]
    | a :: b :: r, _, h => exact Or.inl ⟨by simp, h⟩

/-- **Every documented pattern form means what gitignore says it means.** -/
theorem forms_exact (f : Form) (p : Path) (hf : f.wf = true) (hps : ∀ c ∈ p, '/' ∉ c) (hp0 : p ≠ []) :
    matchesPattern p f.render = f.specMatch p := by
  cases f with
  | dirName n =>
    simp [Form.wf] at hf
    exact dir_pattern_exact n p hf.1.1 hf.1.2
  | anyDirName n =>
    simp [Form.wf] at hf
    exact anydir_pattern_exact n p hf.1.1 hf.1.2 hf.2
  | ext e =>
    simp [Form.wf] at hf
    exact ext_pattern_exact e p hf.1 hf.2 hp0
  | exact q =>
    simp [Form.wf] at hf
    obtain ⟨⟨h1, h2⟩, h3⟩ := hf
    have hqs : ∀ c ∈ q, '/' ∉ c := fun c hc => (h2 c hc).1
    have hlast : (joinPath q).getLast? ≠ some '/' := by
      obtain ⟨n, hn⟩ : ∃ n, q.getLast? = some n := by
        cases h : q.getLast? with
        | none => simp at h; exact absurd h h3
        | some n => exact ⟨n, rfl⟩
      have hmem : n ∈ q := List.mem_of_getLast? hn
      rw [getLast?_joinPath q n hn (h2 n hmem).2]
      intro h
      exact (h2 n hmem).1 (List.mem_of_getLast? h)
    exact exact_pattern_exact q p h1 hqs hps h3 hp0 hlast
  | globDir a g =>
    simp [Form.wf] at hf
    exact globdir_pattern_exact a g p hf.1.1 hf.1.2
  | anyFile n =>
    simp [Form.wf] at hf
    exact anyfile_pattern_exact n p hf.1.1 hf.1.2 hf.2 hps hp0
  | dirPath q =>
    simp [Form.wf] at hf
    obtain ⟨⟨h1, h2⟩, h3⟩ := hf
    have hqs : ∀ c ∈ q, '/' ∉ c := fun c hc => (h2 c hc).1
    have hq0 : q ≠ [] := by intro h; subst h; simp at h3
    have hlast : (joinPath q).getLast? ≠ some '/' := by
      obtain ⟨n, hn⟩ : ∃ n, q.getLast? = some n := by
        cases h : q.getLast? with
        | none => simp at h; exact absurd h hq0
        | some n => exact ⟨n, rfl⟩
      have hmem : n ∈ q := List.mem_of_getLast? hn
      rw [getLast?_joinPath q n hn (h2 n hmem).2]
      intro h
      exact (h2 n hmem).1 (List.mem_of_getLast? h)
    exact dirpath_pattern_exact q p h1 h3 hqs hps hp0 hlast

/-- concrete instances of the multi-component directory form (`dirpath_pattern_exact`): everything below the
    directory is matched, at any depth, and nothing beside it -/
example : matchesPattern ["src".toList, "generated".toList, "v2".toList, "m.py".toList] (Form.dirPath ["src".toList, "generated".toList]).render = true ∧
    matchesPattern ["src".toList, "generated".toList, "a.py".toList] (Form.dirPath ["src".toList, "generated".toList]).render = true ∧
    matchesPattern ["src".toList, "generated.py".toList] (Form.dirPath ["src".toList, "generated".toList]).render = false ∧
    matchesPattern ["lib".toList, "src".toList, "generated".toList, "a.py".toList] (Form.dirPath ["src".toList, "generated".toList]).render = false ∧
    (Form.dirPath ["src".toList, "generated".toList]).specMatch ["src".toList, "generated".toList, "v2".toList, "m.py".toList] = true ∧
    (Form.dirPath ["src".toList, "generated".toList]).specMatch ["src".toList, "generated.py".toList] = false := by decide

theorem isIgnored_eq_spec (forms : List Form) (p : Path) (hf : ∀ f ∈ forms, f.wf = true)
    (hps : ∀ c ∈ p, '/' ∉ c) (hp0 : p ≠ []) :
    isIgnored (forms.map Form.render) p = forms.any (fun f => f.specMatch p) := by
  induction forms with
  | nil => simp [isIgnored]
  | cons f r ih =>
    have h1 := forms_exact f p (hf f (by simp)) hps hp0
    have h2 := ih (fun g hg => hf g (by simp [hg]))
    simp only [isIgnored, List.map_cons, List.any_cons] at h2 ⊢
    rw [h1, h2]

/-- **C14, full strength**: for every tree, every set of documented pattern forms, recursive or not,
    from the project root or a sub-directory, the run lints exactly the regular files under the
    target that are not inside an always-excluded directory, not compiled artefacts and not matched
    by an ignore pattern (gitignore reading). -/
theorem linted_eq_spec (recursive : Bool) (rel : Path) (forms : List Form) (t : Nodes)
    (hf : ∀ f ∈ forms, f.wf = true)
    (hrel : ∀ c ∈ rel, '/' ∉ c)
    (hnames : ∀ p ∈ (if recursive then allFiles [] t else topFiles t), ∀ c ∈ p, '/' ∉ c) :
    linted recursive rel (forms.map Form.render) t = specLinted recursive rel forms t := by
  apply linted_eq_spec_of_match
  intro p hp
  have hne : p ≠ [] := by
    cases recursive
    · simp at hp
      exact topFiles_ne_nil t p hp
    · exact allFiles_ne_nil t p (by simpa using hp)
  apply isIgnored_eq_spec forms (rel ++ p) hf
  · intro c hc
    rcases List.mem_append.1 hc with h | h
    · exact hrel c h
    · exact hnames p hp c h
  · simp [hne]

theorem extractPatterns_no_comment (lines : List (List Char)) :
    ∀ l ∈ extractPatterns lines, l ≠ [] ∧ l.head? ≠ some '#' := by
  intro l hl
  simp [extractPatterns] at hl
  obtain ⟨_, h1, h2⟩ := hl
  exact ⟨by simpa using h1, by simpa using h2⟩

/-! ## Witnesses (decided by the kernel) -/

def nm (s : String) : Name := s.toList
/-- gen/a.py, sub/gen/b.py, generic.py, top.py -/
def exTree : Nodes :=
  .cons (.dir (nm "gen") (.cons (.file (nm "a.py")) .nil))
  (.cons (.dir (nm "sub") (.cons (.dir (nm "gen") (.cons (.file (nm "b.py")) .nil)) .nil))
  (.cons (.file (nm "generic.py")) (.cons (.file (nm "top.py")) (.cons (.file (nm "mod.pyc"))
  (.cons (.dir (nm "node_modules") (.cons (.file (nm "x.py")) .nil)) .nil)))))

/-- non-vacuity: compiled files / excluded directories are dropped at every depth -/
example : linted true [] [(Form.ext (nm ".pyc")).render] exTree =
    [[nm "gen", nm "a.py"], [nm "sub", nm "gen", nm "b.py"], [nm "generic.py"], [nm "top.py"]] := by decide

/-- regression witnesses for the repaired findings F14a/F14b/F14c (fix: commits in /repo):
    `**/gen/` ignores the top-level `gen/a.py`; `gen/` does not ignore `generic.py`; a file named
    `build` is linted; a project that lives under a directory called `build` is linted. -/
example : matchesPattern [nm "gen", nm "a.py"] (Form.anyDirName (nm "gen")).render = true ∧
    matchesPattern [nm "generic.py"] (Form.dirName (nm "gen")).render = false ∧
    hardExcluded [] [nm "scripts", nm "build"] = false ∧
    hardExcluded [nm "build"] [nm "x.py"] = true := by decide

/-! ## Several targets -/

theorem nodup_eraseDups {α : Type} [BEq α] [LawfulBEq α] : (l : List α) → l.eraseDups.Nodup
  | [] => by simp
  | a :: as => by
    rw [List.eraseDups_cons, List.nodup_cons]
    have : (as.filter fun b => !b == a).length < (a :: as).length :=
      Nat.lt_succ_of_le (List.length_filter_le _ as)
    refine ⟨?_, nodup_eraseDups _⟩
    simp [List.mem_eraseDups, List.mem_filter]
termination_by l => l.length

/-- **every file at most once**, however the targets overlap (a directory and a file in it, a directory
    named twice, a directory and one of its sub-directories) -/
theorem lintedTargets_nodup (recursive : Bool) (pats : List (List Char)) (t : Nodes) (ts : List Target) :
    (lintedTargets recursive pats t ts).Nodup := nodup_eraseDups _

/-- **the run lints exactly the union of what each target contributes** -/
theorem mem_lintedTargets (recursive : Bool) (pats : List (List Char)) (t : Nodes) (ts : List Target) (p : Path) :
    p ∈ lintedTargets recursive pats t ts ↔ ∃ tg ∈ ts, p ∈ lintedOne recursive pats t tg := by
  simp [lintedTargets, List.mem_eraseDups, List.mem_flatMap]

theorem walkTop_length : (t : Nodes) → ∀ p ∈ walkTop t, p.length = 1
  | .nil, p, h => by simp [walkTop] at h
  | .cons (.file n) t, p, h => by
    simp only [walkTop, List.mem_append] at h
    rcases h with h | h
    · split at h <;> simp_all
    · exact walkTop_length t p h
  | .cons (.dir _ _) t, p, h => by
    simp only [walkTop] at h
    exact walkTop_length t p h

/-- **`--no-recursive` holds for every directory target of a run**: a directory contributes only its direct
    children, also when it is one of several targets -/
theorem nonrecursive_direct_children (pats : List (List Char)) (t : Nodes) (d : Path) (p : Path)
    (h : p ∈ lintedOne false pats t (.dir d)) : p.length = d.length + 1 := by
  simp only [lintedOne] at h
  cases hs : subtreeAt d t with
  | none => simp [hs] at h
  | some s =>
    simp only [hs, List.mem_map] at h
    obtain ⟨q, hq, rfl⟩ := h
    have : q ∈ walkTop s := by
      simp only [linted, collect, Bool.false_eq_true, if_false, List.mem_filter] at hq
      exact hq.1
    simp [walkTop_length s q this]

/-- one directory target that is the project root is the single-target run -/
theorem lintedTargets_root (recursive : Bool) (pats : List (List Char)) (t : Nodes) :
    lintedTargets recursive pats t [.dir []] = (linted recursive [] pats t).eraseDups := by
  simp [lintedTargets, lintedOne, subtreeAt]

/-- F14e (repaired): `**/a_gen.py` did not match the top-level file of that name, only deeper ones -/
theorem F14e_witness :
    matchesPatternOld [nm "a_gen.py"] (Form.anyFile (nm "a_gen.py")).render = false ∧
    matchesPattern [nm "a_gen.py"] (Form.anyFile (nm "a_gen.py")).render = true ∧
    matchesPatternOld [nm "sub", nm "a_gen.py"] (Form.anyFile (nm "a_gen.py")).render = true ∧
    matchesPattern [nm "sub", nm "xa_gen.py"] (Form.anyFile (nm "a_gen.py")).render = false := by decide

/-- the repair of F14e only adds matches: whatever the old reading ignored is still ignored -/
theorem repair_only_adds (p : Path) (pat : List Char) (h : matchesPatternOld p pat = true) : matchesPattern p pat = true := by
  unfold matchesPatternOld at h
  unfold matchesPattern
  split
  · simpa [*] using h
  · simp_all

end ThaiLintModel.C14
