/- C15 — driver glue -/
import ThaiLintModel.Core.J
import ThaiLintModel.C15.Model
namespace ThaiLintModel.C15
open Lean ThaiLintModel

def handle (j : Json) : Json :=
  match J.strD j "op" "" with
  | "owns" =>
    let c := J.strD j "cmd" ""
    let ids := J.strsD j "ids"
    Json.mkObj [("owns", Json.arr (ids.map (fun r => Json.bool (owns c r))).toArray),
                ("passes", Json.arr (ids.map (fun r => Json.bool (cmdPasses c r))).toArray)]
  | "detect" =>
    let l := detectLanguage (J.strD j "suffix" "").toList (J.boolD j "nonEmpty" true) (J.strD j "firstLine" "").toList
    let cmds := Gen.Cli.commands
    Json.mkObj [("language", l), ("checker", toString (repr (dispatch l))),
                ("mayReport", Json.mkObj (cmds.map fun c => (c, Json.bool (mayReport c l))))]
  | _ => Json.mkObj [("error", "bad op")]

end ThaiLintModel.C15
