/-
C15 — each command reports only its own rules; rules fire only on their languages.
Model of the per-command rule-id filters (`src/cli/linters/*.py`), of `detect_language`
and of the language dispatch of `MultiLanguageLintRule` / `PythonOnlyLintRule`; specification
of rule ownership.  Finite tables come from `Gen.Cli` (regenerated from /repo on every run).
-/
import ThaiLintModel.Gen.Cli
namespace ThaiLintModel.C15
open ThaiLintModel

/-! ## Rule-id filters -/

/-- `s.startswith(p)` -/
def startsWith (s p : List Char) : Bool := p.isPrefixOf s
/-- `p in s` -/
def containsSub : List Char → List Char → Bool
  | [], p => p.isEmpty
  | c :: s, p => p.isPrefixOf (c :: s) || containsSub s p

/-- the three shapes of filter the CLI modules use -/
def passes (kind lit rid : String) : Bool :=
  match kind with
  | "prefix" => startsWith rid.toList lit.toList
  | "contains" => containsSub rid.toList lit.toList
  | "equals" => rid == lit
  | _ => false

def filterOf (c : String) : Option (String × String) :=
  (Gen.Cli.commandFilter.find? (fun r => r.1 == c)).map (fun r => r.2)

/-- does command `c` print a violation whose rule id is `rid`? -/
def cmdPasses (c rid : String) : Bool :=
  match filterOf c with
  | some (k, l) => passes k l rid
  | none => false

/-! ## Specification: which rule ids belong to which command -/

/-- the linter prefix of a rule id (text before the first dot) -/
def linterOf (rid : String) : List Char := rid.toList.takeWhile (· != '.')

inductive Own where
  | linter (prefix_ : String)     -- every rule of that linter
  | rule (id : String)            -- exactly one rule

/-- documented ownership: command name -> what it reports -/
def ownership : List (String × Own) := [
  ("nesting", .linter "nesting"), ("srp", .linter "srp"), ("dry", .linter "dry"),
  ("magic-numbers", .linter "magic-numbers"), ("file-placement", .linter "file-placement"),
  ("print-statements", .linter "improper-logging"), ("improper-logging", .linter "improper-logging"),
  ("file-header", .linter "file-header"), ("method-property", .linter "method-property"),
  ("stateless-class", .linter "stateless-class"), ("pipeline", .linter "collection-pipeline"),
  ("lazy-ignores", .linter "lazy-ignores"), ("lbyl", .linter "lbyl"),
  ("stringly-typed", .linter "stringly-typed"), ("perf", .linter "performance"),
  ("string-concat-loop", .rule "performance.string-concat-loop"),
  ("regex-in-loop", .rule "performance.regex-in-loop"),
  ("unwrap-abuse", .linter "unwrap-abuse"), ("clone-abuse", .linter "clone-abuse"),
  ("blocking-async", .linter "blocking-async")]

def owns (c rid : String) : Bool :=
  match ownership.find? (fun r => r.1 == c) with
  | some (_, .linter p) => linterOf rid == p.toList
  | some (_, .rule r) => rid == r
  | none => false

/-! ## Language detection (`detect_language`) -/

def upperLower : List (Char × Char) :=
  "ABCDEFGHIJKLMNOPQRSTUVWXYZ".toList.zip "abcdefghijklmnopqrstuvwxyz".toList
/-- ASCII `str.lower()` (file suffixes of interest are ASCII) -/
def lowerChar (c : Char) : Char :=
  match upperLower.find? (fun r => r.1 == c) with
  | some (_, l) => l
  | none => c
def lower (s : List Char) : List Char := s.map lowerChar

/-- `EXTENSION_MAP[suffix.lower()]`, else a python shebang on a non-empty file, else unknown -/
def extLookup (suffix : List Char) : Option String :=
  (Gen.Cli.extensionMap.find? (fun r => r.1.toList == lower suffix)).map (·.2)

def detectLanguage (suffix : List Char) (nonEmpty : Bool) (firstLine : List Char) : String :=
  match extLookup suffix with
  | some l => l
  | none =>
    if nonEmpty && startsWith firstLine "#!".toList && containsSub firstLine "python".toList then "python"
    else "unknown"

/-- which checker `MultiLanguageLintRule._dispatch_by_language` runs -/
inductive Checker where | python | typescript | rust | none
  deriving DecidableEq, Repr

def dispatch (language : String) : Checker :=
  if language == "python" then .python
  else if language == "typescript" || language == "javascript" then .typescript
  else if language == "rust" then .rust
  else .none

/-- `PythonOnlyLintRule._should_analyze` -/
def pythonOnlyRuns (language : String) (hasContent : Bool) : Bool := language == "python" && hasContent


/-! ## Specification: languages each source-analysis command may report on (from the linters' docs) -/
def supported : List (String × List String) := [
  ("nesting", ["python", "typescript", "javascript", "rust"]),
  ("srp", ["python", "typescript", "javascript", "rust"]),
  ("magic-numbers", ["python", "typescript", "javascript", "rust"]),
  ("dry", ["python", "typescript", "javascript", "rust"]),
  ("print-statements", ["python", "typescript", "javascript"]),
  ("improper-logging", ["python", "typescript", "javascript"]),
  ("method-property", ["python"]), ("stateless-class", ["python"]), ("pipeline", ["python"]),
  ("lbyl", ["python"]), ("stringly-typed", ["python", "typescript", "javascript"]),
  ("perf", ["python", "typescript", "javascript"]), ("string-concat-loop", ["python", "typescript", "javascript"]),
  ("regex-in-loop", ["python", "typescript", "javascript"]),
  ("unwrap-abuse", ["rust"]), ("clone-abuse", ["rust"]), ("blocking-async", ["rust"])]

/-- may command `c` report anything on a file detected as `language`?  (commands that are not
    source analysis — file-placement, file-header, lazy-ignores — are not restricted) -/
def mayReport (c language : String) : Bool :=
  match supported.find? (fun r => r.1 == c) with
  | some (_, ls) => ls.contains language
  | none => true

end ThaiLintModel.C15
