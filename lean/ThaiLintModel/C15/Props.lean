import ThaiLintModel.C15.Model
namespace ThaiLintModel.C15
open ThaiLintModel

/-- T1 tie, kernel-checked: the filter predicate extracted from the source of each command is the
    one the command was *observed* to apply on every probe id (all rule ids + adversarial ids). -/
theorem filter_model_matches_behaviour :
    ∀ row ∈ Gen.Cli.behaviour, Gen.Cli.probeIds.filter (cmdPasses row.1) = row.2 := by decide +kernel

/-- every linter command has a filter and a documented owner -/
theorem commands_covered :
    ∀ c ∈ Gen.Cli.commands, (filterOf c).isSome = true ∧ (ownership.find? (fun r => r.1 == c)).isSome = true := by
  decide +kernel

/-- **`thailint X` outputs exactly the violations whose rule id belongs to linter X**:
    for every linter command and every rule id the code base can emit. -/
theorem command_filter_exact :
    ∀ c ∈ Gen.Cli.commands, ∀ r ∈ Gen.Cli.ruleIds, cmdPasses c r = owns c r := by decide +kernel

/-- no rule id is printed by two commands that do not share an owner -/
theorem commands_disjoint :
    ∀ c ∈ Gen.Cli.commands, ∀ c' ∈ Gen.Cli.commands, ∀ r ∈ Gen.Cli.ruleIds,
      cmdPasses c r = true → cmdPasses c' r = true → (owns c r = true ∧ owns c' r = true) := by decide +kernel

theorem lower_not_upper : ∀ r ∈ upperLower, upperLower.find? (fun q => q.1 == r.2) = none := by decide

theorem lowerChar_idem (c : Char) : lowerChar (lowerChar c) = lowerChar c := by
  unfold lowerChar
  cases h : upperLower.find? (fun r => r.1 == c) with
  | none => simp [h]
  | some r =>
    have hm : r ∈ upperLower := List.mem_of_find?_eq_some h
    simp [lower_not_upper r hm]

theorem lower_idem (s : List Char) : lower (lower s) = lower s := by
  simp [lower, List.map_map, Function.comp_def, lowerChar_idem]

/-- **Language is decided by the extension, case-insensitively**: any spelling of the suffix that
    lower-cases to the same text gives the same language (`.PY`, `.Py`, `.py`). -/
theorem detect_case_insensitive (s1 s2 : List Char) (ne : Bool) (fl : List Char) (h : lower s1 = lower s2) :
    detectLanguage s1 ne fl = detectLanguage s2 ne fl := by
  simp [detectLanguage, extLookup, h]

theorem detect_lower (s : List Char) (ne : Bool) (fl : List Char) :
    detectLanguage (lower s) ne fl = detectLanguage s ne fl :=
  detect_case_insensitive _ _ ne fl (lower_idem s)

/-- every mapped extension is recognised whatever its letter case (table-wide) -/
theorem extension_table_lookup :
    ∀ r ∈ Gen.Cli.extensionMap, extLookup r.1.toList = some r.2 ∧
      extLookup (r.1.toList.map Char.toUpper) = some r.2 := by
  decide +kernel

theorem extension_table_recognised (r : String × String) (hr : r ∈ Gen.Cli.extensionMap) (ne : Bool) (fl : List Char) :
    detectLanguage r.1.toList ne fl = r.2 ∧ detectLanguage (r.1.toList.map Char.toUpper) ne fl = r.2 := by
  have := extension_table_lookup r hr
  simp [detectLanguage, this.1, this.2]

/-- extensionless / unmapped files: python only through a `#!…python` first line of a non-empty file -/
theorem shebang_rule (suffix fl : List Char) (ne : Bool)
    (h : extLookup suffix = none) :
    detectLanguage suffix ne fl =
      (if ne && startsWith fl "#!".toList && containsSub fl "python".toList then "python" else "unknown") := by
  simp [detectLanguage, h]

/-- **A file of an unrecognised type yields no source-analysis violation**: no checker is
    dispatched for it, and Python-only rules do not run. -/
theorem unknown_yields_nothing : dispatch "unknown" = .none ∧ ∀ hc, pythonOnlyRuns "unknown" hc = false := by
  constructor
  · decide
  · intro hc; cases hc <;> decide

/-- **Language-specific checkers never run on a file of another language** (table-wide): the
    checker dispatched for a detected language is the one of that language. -/
theorem no_cross_language :
    ∀ r ∈ Gen.Cli.extensionMap,
      (dispatch r.2 = .python ↔ r.2 = "python") ∧
      (dispatch r.2 = .typescript ↔ (r.2 = "typescript" ∨ r.2 = "javascript")) ∧
      (dispatch r.2 = .rust ↔ r.2 = "rust") ∧
      (∀ hc, pythonOnlyRuns r.2 hc = true → r.2 = "python") := by
  decide +kernel

/-- non-vacuity: the tables are not empty and contain the documented languages -/
example : Gen.Cli.commands.length ≥ 18 ∧ Gen.Cli.ruleIds.length ≥ 20 ∧
    detectLanguage ".TSX".toList true [] = "typescript" ∧
    detectLanguage [] true "#!/usr/bin/env python3".toList = "python" ∧
    detectLanguage [] false "#!/usr/bin/env python3".toList = "unknown" ∧
    detectLanguage ".txt".toList true "print(1)".toList = "unknown" := by decide +kernel

end ThaiLintModel.C15
