/- C16 — driver glue -/
import ThaiLintModel.Core.J
import ThaiLintModel.C16.Model
namespace ThaiLintModel.C16
open Lean ThaiLintModel

def langOf : String → Lang
  | "ts" => .ts | "rs" => .rs | _ => .py
def memberOf : String → Member
  | "pub" => .pub | "asyncPub" => .asyncPub | "priv" => .priv | "dunder" => .dunder | "ctor" => .ctor | "property" => .property | "static" => .static | "setter" => .setter | _ => .field
def lineOf : String → LineKind
  | "blank" => .blank | "comment" => .comment | _ => .code

def issueText : Issue → String
  | .methods n m => s!"{n} methods (max: {m})"
  | .lines n m => s!"{n} lines (max: {m})"
  | .keyword => "responsibility keyword in name"

def secOf (j : Json) : Section := { maxMethods := (J.nat j "max_methods").toOption, maxLoc := (J.nat j "max_loc").toOption }

def handle (j : Json) : Json :=
  let l := langOf (J.strD j "lang" "py")
  let language := J.strD j "language" "python"
  let base := secOf ((j.getObjVal? "base").toOption.getD (Json.mkObj []))
  let overrides := (J.arrD j "overrides").toList.map fun o => (J.strD o "language" "", secOf o)
  let (mm, ml) := effective (J.natD j "defaultMaxMethods" 7) (J.natD j "defaultMaxLoc" 200) base overrides language
  let c : Cfg := { maxMethods := mm, maxLoc := ml, checkKeywords := J.boolD j "checkKeywords" true }
  let outs := (J.arrD j "classes").toList.map fun cj =>
    let ms := (J.strsD cj "members").map memberOf
    let ls := (J.strsD cj "lines").map lineOf
    let m := countMethods l ms
    let loc := countLoc l ls
    let kw := J.boolD cj "hasKeyword" false
    let iss := evaluate c m loc kw
    Json.mkObj [("methods", m), ("loc", loc), ("issues", J.ofStrs (iss.map issueText)), ("reported", reported c m loc kw)]
  Json.mkObj [("maxMethods", mm), ("maxLoc", ml), ("classes", Json.arr outs.toArray)]

end ThaiLintModel.C16
