/-
C16 — SRP linter.  Executable model (no Mathlib, no proofs) of `count_methods` / `count_loc` per
language (`srp/heuristics.py`, `typescript_metrics_calculator.py`, `rust_analyzer.py`),
`evaluate_metrics` and `SRPConfig.from_dict`.
A class is described by its members and by the kinds of the lines it spans.
-/
namespace ThaiLintModel.C16

inductive Lang where | py | ts | rs
  deriving DecidableEq, Repr

inductive Member where
  | pub           -- ordinary public method
  | asyncPub      -- public `async def` / `async m()` / `pub async fn`
  | priv          -- name starts with one underscore
  | dunder        -- __str__, __eq__ …
  | ctor          -- __init__ / constructor / fn new
  | property      -- @property getter / `get x()` accessor
  | static        -- @staticmethod / static method / associated fn without self
  | setter        -- Python `@x.setter` / `@x.deleter` member, TypeScript `set x(v)` accessor: a public method in both
  | field         -- a data attribute / field line (never a method)
  deriving DecidableEq, Repr

inductive LineKind where | code | blank | comment
  deriving DecidableEq, Repr

/-- is the member counted as a public method?  (`_is_countable_method` per language) -/
def countable : Lang → Member → Bool
  | _, .pub => true
  | _, .asyncPub => true
  | _, .static => true
  | _, .setter => true         -- only the `@property` getter is exempt in Python; a `set x(v)` is a method_definition
  | .py, .property => false      -- has_property_decorator
  | .ts, .property => true       -- a `get x()` accessor is a method_definition with a public name
  | .rs, .property => true       -- (rendered as an ordinary getter fn)
  | .rs, .ctor => true           -- `fn new()` is an ordinary public associated function
  | _, _ => false

def countMethods (l : Lang) (ms : List Member) : Nat := (ms.filter (countable l)).length

/-- `count_loc`: blank and comment-only lines are skipped in every language (repaired code; before the
    repair — finding F13a — TypeScript counted the raw span of the class, `countLocOld`) -/
def countLoc (_l : Lang) (lines : List LineKind) : Nat := (lines.filter (· == .code)).length

def countLocOld (l : Lang) (lines : List LineKind) : Nat :=
  match l with
  | .ts => lines.length
  | _ => (lines.filter (· == .code)).length

structure Cfg where
  maxMethods : Nat
  maxLoc : Nat
  checkKeywords : Bool

inductive Issue where
  | methods (n max : Nat)
  | lines (n max : Nat)
  | keyword
  deriving DecidableEq, Repr

/-- `evaluate_metrics` -/
def evaluate (c : Cfg) (methods loc : Nat) (hasKeyword : Bool) : List Issue :=
  (if methods > c.maxMethods then [.methods methods c.maxMethods] else []) ++
  (if loc > c.maxLoc then [.lines loc c.maxLoc] else []) ++
  (if c.checkKeywords && hasKeyword then [.keyword] else [])

def reported (c : Cfg) (methods loc : Nat) (hasKeyword : Bool) : Bool := !(evaluate c methods loc hasKeyword).isEmpty

/-- `SRPConfig.from_dict(config, language)`: thresholds of the language's own sub-section win, then the
    base values, then the defaults -/
structure Section where
  maxMethods : Option Nat
  maxLoc : Option Nat

def effective (dfltM dfltL : Nat) (base : Section) (overrides : List (String × Section)) (language : String) : Nat × Nat :=
  match overrides.find? (fun o => o.1 == language) with
  | some (_, o) => ((o.maxMethods.orElse fun _ => base.maxMethods).getD dfltM, (o.maxLoc.orElse fun _ => base.maxLoc).getD dfltL)
  | none => (base.maxMethods.getD dfltM, base.maxLoc.getD dfltL)

end ThaiLintModel.C16
