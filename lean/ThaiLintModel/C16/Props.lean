import ThaiLintModel.C16.Model
namespace ThaiLintModel.C16

/-- **Reported iff a threshold is exceeded or a responsibility keyword is in the name** -/
theorem srp_iff (c : Cfg) (m l : Nat) (kw : Bool) :
    reported c m l kw = true ↔ (m > c.maxMethods ∨ l > c.maxLoc ∨ (c.checkKeywords = true ∧ kw = true)) := by
  unfold reported evaluate
  by_cases h1 : m > c.maxMethods <;> by_cases h2 : l > c.maxLoc <;> cases h3 : c.checkKeywords <;> cases kw <;> simp [h1, h2]

/-- **Exactly on a limit: not reported; one above: reported** -/
theorem boundary (c : Cfg) (l : Nat) (hl : l ≤ c.maxLoc) (hk : c.checkKeywords = false) :
    reported c c.maxMethods l false = false ∧ reported c (c.maxMethods + 1) l false = true := by
  constructor
  · have : ¬ (c.maxMethods > c.maxMethods ∨ l > c.maxLoc ∨ (c.checkKeywords = true ∧ false = true)) := by simp; omega
    cases h : reported c c.maxMethods l false
    · rfl
    · exact absurd ((srp_iff c _ _ _).1 h) this
  · exact (srp_iff c _ _ _).2 (Or.inl (by omega))

theorem boundary_loc (c : Cfg) (m : Nat) (hm : m ≤ c.maxMethods) (hk : c.checkKeywords = false) :
    reported c m c.maxLoc false = false ∧ reported c m (c.maxLoc + 1) false = true := by
  constructor
  · have : ¬ (m > c.maxMethods ∨ c.maxLoc > c.maxLoc ∨ (c.checkKeywords = true ∧ false = true)) := by simp; omega
    cases h : reported c m c.maxLoc false
    · rfl
    · exact absurd ((srp_iff c _ _ _).1 h) this
  · exact (srp_iff c _ _ _).2 (Or.inr (Or.inl (by omega)))

/-- **The message lists exactly the criteria that were exceeded, with the true counts** -/
theorem message_exact (c : Cfg) (m l : Nat) (kw : Bool) (i : Issue) :
    i ∈ evaluate c m l kw ↔
      (i = .methods m c.maxMethods ∧ m > c.maxMethods) ∨ (i = .lines l c.maxLoc ∧ l > c.maxLoc) ∨
      (i = .keyword ∧ c.checkKeywords = true ∧ kw = true) := by
  unfold evaluate
  by_cases h1 : m > c.maxMethods <;> by_cases h2 : l > c.maxLoc <;> cases h3 : c.checkKeywords <;> cases kw <;>
    simp [h1, h2] <;> (try omega) <;> (try (constructor <;> intro h <;> simp_all))

/-- at most one entry per criterion -/
theorem issues_nodup (c : Cfg) (m l : Nat) (kw : Bool) : (evaluate c m l kw).Nodup := by
  unfold evaluate
  by_cases h1 : m > c.maxMethods <;> by_cases h2 : l > c.maxLoc <;> cases c.checkKeywords <;> cases kw <;> simp [h1, h2]

/-- a more permissive threshold never adds a report -/
theorem thresholds_monotone (c c' : Cfg) (m l : Nat) (kw : Bool)
    (hm : c.maxMethods ≤ c'.maxMethods) (hl : c.maxLoc ≤ c'.maxLoc) (hk : c'.checkKeywords = c.checkKeywords) :
    reported c' m l kw = true → reported c m l kw = true := by
  rw [srp_iff, srp_iff]
  rintro (h | h | h)
  · exact Or.inl (by omega)
  · exact Or.inr (Or.inl (by omega))
  · exact Or.inr (Or.inr (by simpa [hk] using h))

/-- only countable members change the method count: adding private / dunder / field members never does -/
theorem count_append (l : Lang) (a b : List Member) : countMethods l (a ++ b) = countMethods l a + countMethods l b := by
  simp [countMethods, List.filter_append]

theorem count_uncountable (l : Lang) (ms : List Member) (x : Member) (h : countable l x = false) :
    countMethods l (ms ++ [x]) = countMethods l ms := by
  simp [count_append, countMethods, List.filter, h]

theorem count_countable (l : Lang) (ms : List Member) (x : Member) (h : countable l x = true) :
    countMethods l (ms ++ [x]) = countMethods l ms + 1 := by
  simp [count_append, countMethods, List.filter, h]

/-- blank and comment lines never change the measured size, in any language and at any position -/
theorem loc_ignores_noise (l : Lang) (a b : List LineKind) (k : LineKind) (hk : k ≠ .code) :
    countLoc l (a ++ [k] ++ b) = countLoc l (a ++ b) := by
  cases k <;> simp_all [countLoc, List.filter_append, List.filter] <;> rfl
/-- finding F13a (before the repair): for TypeScript the size was the span of the class, so a blank line
    inside a class changed it -/
theorem F13a_witness : countLocOld .ts [.code, .blank, .code] = 3 ∧ countLoc .ts [.code, .blank, .code] = 2 ∧ countLocOld .ts [.code, .code] = 2 := by decide

/-- **Language-specific overrides apply only to files of that language** -/
theorem override_scoped (dM dL : Nat) (base : Section) (lang other : String) (o : Section) (h : (lang == other) = false) :
    effective dM dL base [(lang, o)] other = effective dM dL base [] other := by
  simp [effective, List.find?, h]

theorem override_applies (dM dL : Nat) (base o : Section) (lang : String) (m l : Nat) (hm : o.maxMethods = some m) (hl : o.maxLoc = some l) :
    effective dM dL base [(lang, o)] lang = (m, l) := by
  simp [effective, List.find?, hm, hl]

/-- a class that grows (more methods, more code lines, same name) is never un-reported -/
theorem growth_monotone (c : Cfg) (m m' l l' : Nat) (kw : Bool) (hm : m ≤ m') (hl : l ≤ l') :
    reported c m l kw = true → reported c m' l' kw = true := by
  rw [srp_iff, srp_iff]
  rintro (h | h | h)
  · exact Or.inl (by omega)
  · exact Or.inr (Or.inl (by omega))
  · exact Or.inr (Or.inr h)

/-- at most one issue of each kind: never more than three per class -/
theorem issues_le_three (c : Cfg) (m l : Nat) (kw : Bool) : (evaluate c m l kw).length ≤ 3 := by
  unfold evaluate
  by_cases h1 : m > c.maxMethods <;> by_cases h2 : l > c.maxLoc <;> cases c.checkKeywords <;> cases kw <;> simp [h1, h2]

/-- the order in which the members are written does not change the count -/
theorem count_perm (l : Lang) (a b : List Member) (h : a.Perm b) : countMethods l a = countMethods l b := by
  unfold countMethods
  exact (h.filter _).length_eq

/-- the method count never exceeds the number of members, the line count never the span -/
theorem count_le (l : Lang) (ms : List Member) (lines : List LineKind) :
    countMethods l ms ≤ ms.length ∧ countLoc l lines ≤ lines.length := by
  unfold countMethods countLoc
  exact ⟨List.length_filter_le _ _, List.length_filter_le _ _⟩

/-- moving blank and comment lines around (or reordering the body) leaves the size unchanged -/
theorem loc_perm (l : Lang) (a b : List LineKind) (h : a.Perm b) : countLoc l a = countLoc l b := by
  unfold countLoc
  exact (h.filter _).length_eq

/-- a language sub-section that sets only one threshold leaves the other to the base value / default -/
theorem override_partial (dM dL : Nat) (base o : Section) (lang : String) (m : Nat)
    (hm : o.maxMethods = some m) (hl : o.maxLoc = none) :
    effective dM dL base [(lang, o)] lang = (m, base.maxLoc.getD dL) := by
  simp [effective, List.find?, hm, hl, Option.orElse]

/-- without any sub-section: base values, then the defaults -/
theorem no_override (dM dL : Nat) (lang : String) (m : Nat) :
    effective dM dL ⟨none, none⟩ [] lang = (dM, dL) ∧ effective dM dL ⟨some m, none⟩ [] lang = (m, dL) := by
  simp [effective]

/-- the first sub-section for a language wins (dictionary semantics of the loader: one key, one section) -/
theorem override_first (dM dL : Nat) (base o o' : Section) (lang : String) (rest : List (String × Section)) :
    effective dM dL base ((lang, o) :: (lang, o') :: rest) lang = effective dM dL base [(lang, o)] lang := by
  simp [effective, List.find?]

/-- of a Python property only the `@property` getter is exempt: its setter / deleter count as public methods -/
theorem setter_counts (ms : List Member) :
    countMethods .py (.setter :: ms) = countMethods .py ms + 1 ∧ countMethods .py (.property :: ms) = countMethods .py ms ∧
    countMethods .ts (.setter :: ms) = countMethods .ts ms + 1 := by
  simp [countMethods, countable, List.filter_cons]

/-- non-vacuity -/
example : countMethods .py [.pub, .priv, .dunder, .ctor, .property, .static, .pub, .asyncPub] = 4 ∧
    countMethods .ts [.pub, .priv, .ctor, .property, .static] = 3 ∧ countMethods .rs [.ctor, .pub, .priv] = 2 ∧
    evaluate ⟨2, 10, true⟩ 3 11 true = [.methods 3 2, .lines 11 10, .keyword] ∧
    countLoc .py [.code, .blank, .comment, .code] = 2 ∧ countLoc .ts [.code, .blank, .comment, .code] = 2 := by decide

end ThaiLintModel.C16
