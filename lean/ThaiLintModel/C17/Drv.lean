/- C17 — driver glue -/
import ThaiLintModel.Core.J
import ThaiLintModel.C17.Props
namespace ThaiLintModel.C17
open Lean ThaiLintModel

def attrsOf (j : Json) (k : String) : List Attr := (J.strsD j k).map String.toList

def frameOf (j : Json) : Option Frame :=
  match J.strD j "k" "" with
  | "fn" => some (.fn (attrsOf j "seen") (attrsOf j "hidden") (J.boolD j "async" false))
  | "mod" => some (.mod (attrsOf j "seen") (attrsOf j "hidden"))
  | "loop" => some .loop
  | "call" => some (.call (match J.strD j "style" "" with | "ident" => .ident | "scoped" => .scoped | "method" => .method | _ => .other) (J.strD j "name" "").toList)
  | "macro" => some .macroArgs
  | "closure" => some .closure
  | "block" => some .block
  | "let" => some .letDecl
  | _ => none

def siteOf (j : Json) : Option Site :=
  match J.strD j "k" "" with
  | "unwrap" => some (.unwrap (match J.strD j "m" "" with | "unwrap" => .unwrap | "expect" => .expect | _ => .other))
  | "clone" => some (.clone ⟨J.boolD j "chained" false, J.boolD j "simple" false, J.boolD j "usedAfter" false⟩)
  | "path" => some (.path ((J.strsD j "parts").map String.toList))
  | _ => none

instance : Inhabited Node := ⟨.mk 0 none none .nil⟩

partial def nodeOf (j : Json) : Node :=
  let fr := (j.getObjVal? "frame").toOption.bind frameOf
  let st := (j.getObjVal? "site").toOption.bind siteOf
  let ch := (J.arrD j "ch").toList.map nodeOf
  .mk (J.natD j "id" 0) fr st (ch.foldr NodeList.cons .nil)

def ruleName : Rule → String
  | .unwrapCall => "unwrap-abuse.unwrap-call" | .expectCall => "unwrap-abuse.expect-call"
  | .cloneChain => "clone-abuse.clone-chain" | .cloneInLoop => "clone-abuse.clone-in-loop" | .unnecessaryClone => "clone-abuse.unnecessary-clone"
  | .fsInAsync => "blocking-async.fs-in-async" | .sleepInAsync => "blocking-async.sleep-in-async" | .netInAsync => "blocking-async.net-in-async"

def cfgOf (j : Json) : Cfg :=
  let u := (j.getObjVal? "unwrap").toOption.getD Json.null
  let c := (j.getObjVal? "clone").toOption.getD Json.null
  let b := (j.getObjVal? "blocking").toOption.getD Json.null
  { u := ⟨J.boolD u "allow_in_tests" true, J.boolD u "allow_expect" true⟩,
    c := ⟨J.boolD c "allow_in_tests" true, J.boolD c "detect_clone_in_loop" true, J.boolD c "detect_clone_chain" true, J.boolD c "detect_unnecessary_clone" true⟩,
    b := ⟨J.boolD b "allow_in_tests" true, J.boolD b "detect_fs_in_async" true, J.boolD b "detect_sleep_in_async" true, J.boolD b "detect_net_in_async" true, (J.strsD j "shadowed").map String.toList⟩ }

/-- frames under which the repaired test-context reading gives what the pre-repair code computed -/
def oldFrames (frames : List Frame) : List Frame :=
  (if isInsideTestG false frames then [Frame.mod ["cfg(test)".toList] []] else []) ++
    (frames.map eraseAttrs).map fun f => match f with
      | .call .method n => .call .other n
      | f => f

def plainB (frames : List Frame) : Bool :=
  frames.all fun f => match f with
    | .fn s h _ => (s ++ h).all (fun a => marksTest a == isTestAttr a)
    | .mod s h => (s ++ h).all (fun a => containsSub a "cfg(test)".toList == isCfgTest a)
    | _ => true

def handle (j : Json) : Json :=
  if J.strD j "op" "" == "alphabet" then
    Json.mkObj [("fn", J.ofStrs fnAttrAlphabet), ("mod", J.ofStrs modAttrAlphabet)]
  else
    let cfg := cfgOf ((j.getObjVal? "cfg").toOption.getD Json.null)
    let tree := nodeOf ((j.getObjVal? "tree").toOption.getD Json.null)
    let rep := fun (l : List (Nat × Rule)) => Json.arr (l.map fun (i, r) => Json.arr #[toJson i, Json.str (ruleName r)]).toArray
    let ss := sites [] tree
    let spec := (allSites [] tree).filterMap fun x => (specVerdict cfg x.2.1 x.2.2).map (fun r => (x.1, r))
    let old := ss.filterMap fun x => (verdict cfg (oldFrames x.2.1) x.2.2).map (fun r => (x.1, r))
    Json.mkObj [("impl", rep (scan cfg [] tree)), ("spec", rep spec), ("old", rep old),
                ("notPlain", J.ofNats (ss.filterMap fun x => if plainB x.2.1 then none else some x.1)),
                ("inTest", J.ofNats (ss.filterMap fun x => if isInsideTest x.2.1 then some x.1 else none)),
                ("sites", ss.length), ("macroFree", macroFree tree)]

end ThaiLintModel.C17
